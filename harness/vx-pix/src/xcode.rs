//! Transcoding universe shared by C19 (lossless round trip) and C18 (encapsulation framing).

use crate::*;
use dicom_encoding::TransferSyntaxIndex;
use dicom_pixeldata::Transcode;
use dicom_transfer_syntax_registry::TransferSyntaxRegistry;
use vx_kit::{guard, json, Check, Local, Value};
use vx_ref::ds::{RVal, Ts};

/// UIDs of transfer syntaxes whose encoding is lossless by definition (PS3.5 Annex A).
pub const LOSSLESS_UIDS: [&str; 10] = [
    ENCAP_UNCOMPRESSED,
    DEFLATED_FRAME,
    RLE_LOSSLESS,
    "1.2.840.10008.1.2.4.57",
    "1.2.840.10008.1.2.4.70",
    "1.2.840.10008.1.2.4.80",
    "1.2.840.10008.1.2.4.90",
    "1.2.840.10008.1.2.4.92",
    "1.2.840.10008.1.2.4.110",
    "1.2.840.10008.1.2.4.201",
];

pub const NATIVE: [(&str, Ts); 3] = [(IMPLICIT_LE, Ts::ImplicitLE), (EXPLICIT_LE, Ts::ExplicitLE), (EXPLICIT_BE, Ts::ExplicitBE)];

/// every registry entry that offers a pixel data encoder, sorted by UID
pub fn encoder_targets() -> Vec<&'static str> {
    let mut v: Vec<&'static str> = TransferSyntaxRegistry.iter().filter(|t| t.pixel_data_writer().is_some()).map(|t| t.uid()).collect();
    v.sort();
    v
}

/// The image universe of C19/C18/C20: every shape with rows, cols, frames in 1..=3, samples 1|3,
/// at most `max_samples` samples in total, bits allocated 8|16, every sample drawn from a 3-value
/// byte-asymmetric alphabet; planar configuration 0|1 for colour; Number of Frames absent|present
/// when there is one frame; plus larger shapes with index-coded samples.
pub fn images(max_samples: usize, variants: bool) -> Vec<Img> {
    let mut out = vec![];
    for bits in [8u16, 16] {
        for (r, c, f, spp) in tiny_shapes(max_samples) {
            let n = r as usize * c as usize * f as usize * spp as usize;
            for code in 0..pow3(n) {
                let base = Img::new(r, c, f, bits, spp, alpha_bytes(bits, n, code));
                push_variants(&mut out, base, variants);
            }
        }
        for (r, c, f) in [(3u16, 3u16, 3u32), (2, 3, 2), (5, 7, 2), (1, 1, 3), (17, 3, 1)] {
            for spp in [1u16, 3] {
                let n = r as usize * c as usize * f as usize * spp as usize;
                let base = Img::new(r, c, f, bits, spp, index_bytes(bits, n));
                push_variants(&mut out, base, variants);
            }
        }
    }
    out
}

fn push_variants(out: &mut Vec<Img>, base: Img, variants: bool) {
    out.push(base.clone());
    if !variants {
        return;
    }
    if base.spp == 3 {
        let mut p = base.clone();
        p.planar = Some(1);
        out.push(p);
    }
    if base.frames == 1 {
        let mut p = base.clone();
        p.frames_attr = false;
        out.push(p);
    }
    if base.bits_alloc == 8 {
        // 8-bit samples held in an OW element
        let mut p = base.clone();
        p.pixel_vr = "OW";
        out.push(p);
    }
}

pub fn img_class(img: &Img) -> Value {
    json!({
        "bits": img.bits_alloc, "spp": img.spp, "multiframe": img.frames > 1,
        "frame_bytes_odd": img.frame_bytes() % 2 == 1, "total_bytes_odd": img.data.len() % 2 == 1,
        "planar": img.planar.unwrap_or(0), "frames_attr": img.frames_attr, "pixel_vr": img.pixel_vr,
    })
}

pub fn merge(a: &Value, b: Value) -> Value {
    let mut m = a.as_object().unwrap().clone();
    for (k, v) in b.as_object().unwrap() {
        m.insert(k.clone(), v.clone());
    }
    Value::Object(m)
}

pub fn source_obj(img: &Img, origin: &str, src: (&str, Ts)) -> Result<FileObj, String> {
    match origin {
        "api" => Ok(img.to_obj(src.0)),
        _ => img.to_obj_via_file(src.1),
    }
}

pub fn transcode_to(obj: &mut FileObj, uid: &str) -> Result<(), String> {
    let ts = TransferSyntaxRegistry.get(uid).ok_or_else(|| format!("{uid} not in registry"))?;
    obj.transcode(ts).map_err(|e| short(format!("{e:?}")))
}


/// Deterministic, poorly compressible bytes: the high byte of a fixed 64-bit LCG (Knuth's MMIX
/// constants, fixed seed). This is one constant stream, not a random sample.
pub fn lcg_bytes(n: usize, seed: u64) -> Vec<u8> {
    let mut x = seed;
    (0..n)
        .map(|_| {
            x = x.wrapping_mul(6364136223846793005).wrapping_add(1442695040888963407);
            (x >> 56) as u8
        })
        .collect()
}

fn factor(n: usize) -> Option<(u16, u16)> {
    (1..=n.min(65535)).find(|r| n % r == 0 && n / r <= 65535).map(|r| (r as u16, (n / r) as u16))
}

/// Boundary-size family: frames whose byte size sits around the internal buffer sizes of the
/// codecs (32 KiB, 64 KiB, 256 KiB). 65537 is prime, so 64 KiB + 2 and 64 KiB + 5 stand in for
/// "just above 64 KiB" (even and odd).
pub fn boundary_images() -> Vec<(String, Img)> {
    let mut shapes: Vec<(String, u16, u16, u16, u16)> = vec![]; // name, rows, cols, bits, spp
    for n in [32767usize, 32768, 65535, 65536, 65538, 65541, 262145] {
        let (r, c) = factor(n).expect("factorable size");
        shapes.push((format!("mono8-{n}"), r, c, 8, 1));
    }
    shapes.push(("mono16-65538".into(), 3, 10923, 16, 1));
    shapes.push(("rgb8-65535".into(), 5, 4369, 8, 3));
    let mut out = vec![];
    for (name, r, c, bits, spp) in shapes {
        for frames in [1u32, 2] {
            let n = r as usize * c as usize * spp as usize * (bits as usize / 8) * frames as usize;
            for content in ["lcg", "zero", "ramp"] {
                let data: Vec<u8> = match content {
                    "lcg" => lcg_bytes(n, 0x5EED_0000_0000_0001 ^ n as u64),
                    "zero" => vec![0; n],
                    _ => (0..n).map(|i| (i % 251) as u8).collect(),
                };
                out.push((format!("{name}/f{frames}/{content}"), Img::new(r, c, frames, bits, spp, data)));
            }
        }
    }
    out
}

/// C19 boundary-size part: every lossless and native target, in memory and (encapsulated targets)
/// through a written file.
pub fn run_c19_boundary(check: &Check) {
    let imgs = boundary_images();
    let mut targets: Vec<&str> = encoder_targets().into_iter().filter(|u| LOSSLESS_UIDS.contains(u)).collect();
    targets.extend(NATIVE.iter().map(|x| x.0));
    let mut units = vec![];
    for (ii, _) in imgs.iter().enumerate() {
        for (ti, t) in targets.iter().enumerate() {
            for mid in ["mem", "file"] {
                if mid == "file" && NATIVE.iter().any(|n| n.0 == *t) {
                    continue;
                }
                units.push((ii, ti, *t, mid));
            }
        }
    }
    check.extra("boundary_images", json!(imgs.len()));
    check.extra("boundary_cases", json!(units.len()));
    check.par_range(units.len() as u64, |l, i| {
        let (ii, ti, target, mid) = units[i as usize];
        let (name, img) = &imgs[ii];
        let case_id = format!("boundary/{name}/t{ti}/{mid}");
        if !l.want(&case_id) {
            return;
        }
        l.eval();
        let class = merge(&img_class(img), json!({"family": "boundary", "origin": "api", "src_ts": EXPLICIT_LE, "target": target, "mid": mid,
            "content": name.rsplit('/').next().unwrap(), "frame_bytes": img.frame_bytes()}));
        c19_case(l, &case_id, img, "api", NATIVE[1], target, mid, &class);
    });
}

/// C19: transcode to `target`, optionally persist, transcode back to Explicit VR LE, write, and
/// compare the written pixel data and attributes with the original image.
pub fn run_c19(check: &Check) {
    let imgs = images(check.pick(4, 6), true);
    let mut targets: Vec<&str> = encoder_targets().into_iter().filter(|u| LOSSLESS_UIDS.contains(u)).collect();
    check.extra("lossless_encoder_targets", json!(targets));
    targets.extend(NATIVE.iter().map(|x| x.0));
    check.extra("universe_images", json!(imgs.len()));
    check.extra("targets", json!(targets));
    let quick = check.quick();
    check.par_range(imgs.len() as u64, |l, i| {
        let img = &imgs[i as usize];
        let base = img_class(img);
        for origin in ["api", "file"] {
            for (si, src) in NATIVE.iter().enumerate() {
                // quick tier: an object built through the API differs between source syntaxes
                // only in its meta table; keep Explicit VR LE
                if quick && origin == "api" && si != 1 {
                    continue;
                }
                for (ti, target) in targets.iter().enumerate() {
                    for mid in ["mem", "file"] {
                        // persisting a native object in between is C01's subject
                        if mid == "file" && NATIVE.iter().any(|n| n.0 == *target) {
                            continue;
                        }
                        let case_id = format!("img{i}/{origin}/src{si}/t{ti}/{mid}");
                        if !l.want(&case_id) {
                            continue;
                        }
                        l.eval();
                        let class = merge(&base, json!({"origin": origin, "src_ts": src.0, "target": target, "mid": mid}));
                        c19_case(l, &case_id, img, origin, *src, target, mid, &class);
                    }
                }
            }
        }
    });
}

#[allow(clippy::too_many_arguments)]
fn c19_case(l: &mut Local, case_id: &str, img: &Img, origin: &str, src: (&str, Ts), target: &str, mid: &str, class: &Value) {
    let fail = |l: &mut Local, stage: &str, kind: &str, msg: String| {
        l.outcome(&format!("{stage}-{kind}"));
        l.fail(case_id, merge(class, json!({"stage": stage, "kind": kind})), json!({"image": img.label(), "message": msg}));
    };
    let mut obj = match guard(|| source_obj(img, origin, src)) {
        Ok(Ok(o)) => o,
        Ok(Err(e)) => {
            // reading a reference-encoded native file is C01/C02's subject; not a C19 verdict
            l.check.machinery_error(&format!("C19 source object unreadable ({case_id}): {e}"));
            return;
        }
        Err(p) => {
            l.check.machinery_error(&format!("C19 source object panic ({case_id}): {p}"));
            return;
        }
    };
    l.nontrivial(&(img.label(), vx_kit::hash_of(&img.data), origin, src.0, target, mid));
    match guard(|| transcode_to(&mut obj, target)) {
        Ok(Ok(())) => {}
        Ok(Err(e)) => return fail(l, "encode", "err", e),
        Err(p) => return fail(l, "encode", "panic", p),
    }
    if obj.meta().transfer_syntax() != target {
        return fail(l, "encode", "ts-not-set", obj.meta().transfer_syntax().to_string());
    }
    if mid == "file" {
        let bytes = match guard(|| write_file(&obj)) {
            Ok(Ok(b)) => b,
            Ok(Err(e)) => return fail(l, "mid-write", "err", e),
            Err(p) => return fail(l, "mid-write", "panic", p),
        };
        obj = match guard(|| read_file(&bytes)) {
            Ok(Ok(o)) => o,
            Ok(Err(e)) => return fail(l, "mid-read", "err", e),
            Err(p) => return fail(l, "mid-read", "panic", p),
        };
    }
    match guard(|| transcode_to(&mut obj, EXPLICIT_LE)) {
        Ok(Ok(())) => {}
        Ok(Err(e)) => return fail(l, "decode", "err", e),
        Err(p) => return fail(l, "decode", "panic", p),
    }
    let bytes = match guard(|| write_file(&obj)) {
        Ok(Ok(b)) => b,
        Ok(Err(e)) => return fail(l, "final-write", "err", e),
        Err(p) => return fail(l, "final-write", "panic", p),
    };
    let (ts_uid, elems) = match parse_written(&bytes) {
        Ok(x) => x,
        Err(e) => return fail(l, "final-parse", "invalid", e),
    };
    if ts_uid != EXPLICIT_LE {
        return fail(l, "final", "ts", ts_uid);
    }
    let got = match find(&elems, T_PIXEL_DATA).map(|e| &e.val) {
        Some(RVal::Prim(b)) => b.clone(),
        Some(_) => return fail(l, "final", "pixel-data-not-native", String::new()),
        None => return fail(l, "final", "pixel-data-missing", String::new()),
    };
    let mut want = img.data.clone();
    if want.len() % 2 == 1 {
        want.push(0);
    }
    if got != want {
        let kind = if got.len() != want.len() { "pixel-length" } else { "pixel-bytes" };
        return fail(l, "final", kind, format!("expected {} got {}", hex(&want[..want.len().min(64)]), hex(&got[..got.len().min(64)])));
    }
    // attributes consistent with the pixel data length
    let frames = match text(&elems, (0x0028, 0x0008)) {
        None => Some(1usize),
        Some(s) if s.is_empty() => Some(1),
        Some(s) => s.trim().parse::<usize>().ok(),
    };
    let attrs = (us(&elems, (0x0028, 0x0010)), us(&elems, (0x0028, 0x0011)), us(&elems, (0x0028, 0x0002)), us(&elems, (0x0028, 0x0100)), frames);
    let want_attrs = (Some(img.rows), Some(img.cols), Some(img.spp), Some(img.bits_alloc), Some(img.frames as usize));
    if attrs != want_attrs {
        return fail(l, "final", "attributes", format!("rows/cols/spp/bits/frames expected {want_attrs:?} got {attrs:?}"));
    }
    let (Some(r), Some(c), Some(s), Some(b), Some(f)) = attrs else { unreachable!() };
    if r as usize * c as usize * s as usize * (b as usize / 8) * f != img.data.len() {
        return fail(l, "final", "attr-length", "attributes do not multiply to the pixel data length".into());
    }
    if s == 3 && us(&elems, (0x0028, 0x0006)).unwrap_or(0) != img.planar.unwrap_or(0) {
        return fail(l, "final", "planar-configuration", format!("{:?}", us(&elems, (0x0028, 0x0006))));
    }
    let name = if NATIVE.iter().any(|n| n.0 == target) { "roundtrip-native-equal" } else { "roundtrip-encapsulated-equal" };
    l.outcome_with(name, || json!({"case": case_id, "image": img.label(), "target": target}));
}
