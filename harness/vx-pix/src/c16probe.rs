//! C16 probe: observes every registry entry of *this build* and returns the observations as JSON.
//! Compiled into `c16` (tools' feature set) and into `vx-pix-default/c16_default` (registry default
//! features). It contains no oracle: the verdict is computed by `c16.rs` from the observations.

use dicom_core::header::{DataElementHeader, Length};
use dicom_core::{PrimitiveValue, Tag, VR};
use dicom_encoding::transfer_syntax::{Codec, Endianness};
use dicom_encoding::TransferSyntaxIndex;
use dicom_transfer_syntax_registry::TransferSyntaxRegistry;
use serde_json::{json, Value};
use std::io::{Cursor, Read, Write};

pub const SUFFIXES: [&str; 5] = ["", "\0", " ", "\0\0", " \0"];

fn hex(b: &[u8]) -> String {
    b.iter().map(|x| format!("{x:02X}")).collect::<Vec<_>>().join("")
}

fn guard<T>(f: impl FnOnce() -> T) -> Result<T, String> {
    std::panic::catch_unwind(std::panic::AssertUnwindSafe(f)).map_err(|_| "panic".to_string())
}

/// the probe elements: (tag, vr, value) — text, 16-bit binary, long-header binary
fn elements() -> Vec<(Tag, VR, PrimitiveValue)> {
    vec![
        (Tag(0x0008, 0x0060), VR::CS, PrimitiveValue::from("CT")),
        (Tag(0x0028, 0x0010), VR::US, PrimitiveValue::from(0x0102u16)),
        (Tag(0x7FE0, 0x0010), VR::OW, PrimitiveValue::U16([0x0102u16, 0x0304].as_ref().into())),
    ]
}

pub fn probe() -> Value {
    let mut entries = vec![];
    let all: Vec<_> = TransferSyntaxRegistry.iter().collect();
    for ts in &all {
        let uid = ts.uid();
        let (codec, dataset_adapter, reader, writer) = match ts.codec() {
            Codec::None => ("None", false, false, false),
            Codec::Dataset(d) => ("Dataset", d.is_some(), false, false),
            Codec::EncapsulatedPixelData(r, w) => ("EncapsulatedPixelData", false, r.is_some(), w.is_some()),
        };
        let mut lookups = serde_json::Map::new();
        for s in SUFFIXES {
            let key = format!("{uid}{s}");
            let got = TransferSyntaxRegistry.get(&key).map(|t| t.uid().to_string());
            lookups.insert(hex(s.as_bytes()), json!(got));
        }
        let decoder = ts.decoder_for::<dyn Read>();
        let encoder = ts.encoder_for::<dyn Write>();
        let mut elems = vec![];
        if let (Some(dec), Some(enc)) = (&decoder, &encoder) {
            for (tag, vr, value) in elements() {
                let r = guard(|| {
                    let mut buf: Vec<u8> = vec![];
                    let len = value.calculate_byte_len() as u32;
                    let w: &mut dyn Write = &mut buf;
                    let hb = enc.encode_element_header(w, DataElementHeader { tag, vr, len: Length(len) }).map_err(|e| format!("{e:?}"))?;
                    let vb = enc.encode_primitive(w, &value).map_err(|e| format!("{e:?}"))?;
                    let mut cur = Cursor::new(buf.clone());
                    let src: &mut dyn Read = &mut cur;
                    let (h, n) = dec.decode_header(src).map_err(|e| format!("{e:?}"))?;
                    let mut val = vec![];
                    src.read_to_end(&mut val).map_err(|e| format!("{e:?}"))?;
                    let us = if vr == VR::US {
                        use dicom_encoding::decode::BasicDecode;
                        Some(ts.basic_decoder().decode_us(&val[..]).map_err(|e| format!("{e:?}"))?)
                    } else {
                        None
                    };
                    Ok::<Value, String>(json!({
                        "tag": [tag.0, tag.1], "vr": vr.to_string(), "encoded": hex(&buf),
                        "header_bytes_reported": hb, "value_bytes_reported": vb,
                        "decoded_tag": [h.tag.0, h.tag.1], "decoded_vr": h.vr.to_string(), "decoded_len": h.len.0,
                        "decoded_header_bytes": n, "decoded_value": hex(&val), "decoded_us": us,
                    }))
                });
                elems.push(match r {
                    Ok(Ok(v)) => v,
                    Ok(Err(e)) => json!({"tag": [tag.0, tag.1], "error": e}),
                    Err(p) => json!({"tag": [tag.0, tag.1], "error": p}),
                });
            }
        }
        // data set adapter: bytes through adapt_writer then adapt_reader
        let adapter_roundtrip = match ts.codec() {
            Codec::Dataset(Some(a)) => {
                let payload: Vec<u8> = (0u8..=63).chain(std::iter::repeat(7).take(100)).collect();
                let r = guard(|| {
                    let mut sink: Vec<u8> = vec![];
                    {
                        let mut w = a.adapt_writer(Box::new(&mut sink));
                        w.write_all(&payload).map_err(|e| e.to_string())?;
                        w.flush().map_err(|e| e.to_string())?;
                    }
                    let mut back = vec![];
                    a.adapt_reader(Box::new(Cursor::new(sink.clone()))).read_to_end(&mut back).map_err(|e| e.to_string())?;
                    Ok::<(bool, bool), String>((back == payload, sink != payload))
                });
                match r {
                    Ok(Ok((same, transformed))) => json!({"same": same, "transformed": transformed}),
                    Ok(Err(e)) => json!({"error": e}),
                    Err(p) => json!({"error": p}),
                }
            }
            _ => Value::Null,
        };
        entries.push(json!({
            "uid": uid, "name": ts.name(),
            "big_endian": ts.endianness() == Endianness::Big,
            "codec": codec, "dataset_adapter": dataset_adapter, "reader": reader, "writer": writer,
            "pixel_data_reader_some": ts.pixel_data_reader().is_some(),
            "pixel_data_writer_some": ts.pixel_data_writer().is_some(),
            "q": {
                "is_fully_supported": ts.is_fully_supported(), "is_codec_free": ts.is_codec_free(),
                "is_unsupported": ts.is_unsupported(), "is_encapsulated_pixel_data": ts.is_encapsulated_pixel_data(),
                "is_unsupported_pixel_encapsulation": ts.is_unsupported_pixel_encapsulation(),
                "can_decode_all": ts.can_decode_all(), "can_decode_dataset": ts.can_decode_dataset(),
            },
            "decoder_some": decoder.is_some(), "encoder_some": encoder.is_some(),
            "decoder_plain_some": ts.decoder().is_some(), "encoder_plain_some": ts.encoder().is_some(),
            "lookups": lookups, "elements": elems, "adapter_roundtrip": adapter_roundtrip,
        }));
    }
    entries.sort_by(|a, b| a["uid"].as_str().cmp(&b["uid"].as_str()));
    let mut unknown = serde_json::Map::new();
    for u in ["", "\0", " ", "1.2.840.10008.1.2.", "1.2.840.10008.1.2.1.9", "1.2.840.10008.1.2 .1", "1.2.840.10008.1.2\01", "9.9.9"] {
        unknown.insert(hex(u.as_bytes()), json!(TransferSyntaxRegistry.get(u).map(|t| t.uid().to_string())));
    }
    json!({"entries": entries, "count": all.len(), "unknown_lookups": unknown})
}
