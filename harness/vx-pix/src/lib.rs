//! Shared helpers of the pixel-data checks (C16, C18-C22): a tiny image model that can be turned
//! into a real `FileDicomObject` (through the API, or by reading a Part 10 file that `vx-ref`
//! encoded) and into a reference element list, plus write/parse helpers.

use dicom_core::value::{PrimitiveValue, C};
use dicom_core::{DataElement, Tag, VR};
use dicom_object::{FileDicomObject, FileMetaTableBuilder, InMemDicomObject};
use vx_ref::ds::{self, RElem, RVal, Ts};

pub type FileObj = FileDicomObject<InMemDicomObject>;

pub const IMPLICIT_LE: &str = "1.2.840.10008.1.2";
pub const EXPLICIT_LE: &str = "1.2.840.10008.1.2.1";
pub const EXPLICIT_BE: &str = "1.2.840.10008.1.2.2";
pub const ENCAP_UNCOMPRESSED: &str = "1.2.840.10008.1.2.1.98";
pub const DEFLATED_FRAME: &str = "1.2.840.10008.1.2.8.1";
pub const RLE_LOSSLESS: &str = "1.2.840.10008.1.2.5";
pub const JPEG_BASELINE: &str = "1.2.840.10008.1.2.4.50";
pub const SC_IMAGE_STORAGE: &str = "1.2.840.10008.5.1.4.1.1.7";
pub const INSTANCE_UID: &str = "1.2.826.0.1.3680043.9.7133.1.1";

pub const T_PIXEL_DATA: (u16, u16) = (0x7FE0, 0x0010);
pub const T_TOTAL_LENGTH: (u16, u16) = (0x7FE0, 0x0003);

/// A native image: attributes + little-endian, unpadded pixel bytes.
#[derive(Clone, Debug, PartialEq, Eq, Hash)]
pub struct Img {
    pub rows: u16,
    pub cols: u16,
    pub frames: u32,
    /// write the Number of Frames attribute (may be left out when frames == 1)
    pub frames_attr: bool,
    pub bits_alloc: u16,
    pub bits_stored: u16,
    pub high_bit: u16,
    pub spp: u16,
    pub planar: Option<u16>,
    pub signed: bool,
    pub pi: &'static str,
    /// "OB" (held as bytes) or "OW" (held as 16-bit words, zero-padded to even length)
    pub pixel_vr: &'static str,
    pub data: Vec<u8>,
    /// additional primitive elements: (tag, vr, unpadded little-endian/text bytes)
    pub extra: Vec<((u16, u16), &'static str, Vec<u8>)>,
}

impl Img {
    pub fn new(rows: u16, cols: u16, frames: u32, bits_alloc: u16, spp: u16, data: Vec<u8>) -> Img {
        Img {
            rows,
            cols,
            frames,
            frames_attr: true,
            bits_alloc,
            bits_stored: bits_alloc,
            high_bit: bits_alloc - 1,
            spp,
            planar: if spp == 3 { Some(0) } else { None },
            signed: false,
            pi: if spp == 3 { "RGB" } else { "MONOCHROME2" },
            pixel_vr: if bits_alloc == 16 { "OW" } else { "OB" },
            data,
            extra: vec![],
        }
    }
    pub fn samples_per_frame(&self) -> usize {
        self.rows as usize * self.cols as usize * self.spp as usize
    }
    /// bytes of one frame for 8/16-bit images
    pub fn frame_bytes(&self) -> usize {
        self.samples_per_frame() * (self.bits_alloc as usize).div_ceil(8)
    }
    pub fn label(&self) -> String {
        format!(
            "{}x{}x{}f{} b{}/{} spp{} pl{:?} {} {} {} data={}",
            self.rows,
            self.cols,
            self.frames,
            if self.frames_attr { "" } else { "(no NumberOfFrames)" },
            self.bits_alloc,
            self.bits_stored,
            self.spp,
            self.planar,
            if self.signed { "signed" } else { "unsigned" },
            self.pi,
            self.pixel_vr,
            hex(&self.data[..self.data.len().min(48)])
        )
    }

    /// reference elements (ascending tags), values as unpadded little-endian bytes
    pub fn to_ref(&self) -> Vec<RElem> {
        let us = |t: (u16, u16), v: u16| RElem::prim(t, "US", &v.to_le_bytes());
        let mut e = vec![
            RElem::prim((0x0008, 0x0016), "UI", SC_IMAGE_STORAGE.as_bytes()),
            RElem::prim((0x0008, 0x0018), "UI", INSTANCE_UID.as_bytes()),
            us((0x0028, 0x0002), self.spp),
            RElem::prim((0x0028, 0x0004), "CS", self.pi.as_bytes()),
        ];
        if let Some(p) = self.planar {
            e.push(us((0x0028, 0x0006), p));
        }
        if self.frames_attr {
            e.push(RElem::prim((0x0028, 0x0008), "IS", self.frames.to_string().as_bytes()));
        }
        e.push(us((0x0028, 0x0010), self.rows));
        e.push(us((0x0028, 0x0011), self.cols));
        e.push(us((0x0028, 0x0100), self.bits_alloc));
        e.push(us((0x0028, 0x0101), self.bits_stored));
        e.push(us((0x0028, 0x0102), self.high_bit));
        e.push(us((0x0028, 0x0103), self.signed as u16));
        for (t, v, b) in &self.extra {
            e.push(RElem::prim(*t, v, b));
        }
        let mut px = self.data.clone();
        if self.pixel_vr == "OW" && px.len() % 2 == 1 {
            px.push(0);
        }
        e.push(RElem::prim(T_PIXEL_DATA, self.pixel_vr, &px));
        e.sort_by_key(|x| x.tag);
        e
    }

    /// the same image built through the object API
    pub fn to_obj(&self, ts_uid: &str) -> FileObj {
        let mut o = InMemDicomObject::new_empty();
        for e in self.to_ref() {
            let RVal::Prim(b) = &e.val else { unreachable!() };
            let tag = Tag(e.tag.0, e.tag.1);
            let el = match &e.vr {
                b"US" => DataElement::new(tag, VR::US, PrimitiveValue::from(u16::from_le_bytes([b[0], b[1]]))),
                b"OB" => DataElement::new(tag, VR::OB, PrimitiveValue::U8(C::from_vec(b.clone()))),
                b"OW" => DataElement::new(
                    tag,
                    VR::OW,
                    PrimitiveValue::U16(b.chunks_exact(2).map(|c| u16::from_le_bytes([c[0], c[1]])).collect()),
                ),
                b"UI" => DataElement::new(tag, VR::UI, PrimitiveValue::from(String::from_utf8(b.clone()).unwrap())),
                b"CS" => DataElement::new(tag, VR::CS, PrimitiveValue::from(String::from_utf8(b.clone()).unwrap())),
                b"IS" => DataElement::new(tag, VR::IS, PrimitiveValue::from(String::from_utf8(b.clone()).unwrap())),
                b"DS" => DataElement::new(tag, VR::DS, PrimitiveValue::from(String::from_utf8(b.clone()).unwrap())),
                other => panic!("Img::to_obj: VR {:?} not handled", ds::vr_str(*other)),
            };
            o.put(el);
        }
        with_meta(o, ts_uid)
    }

    /// the same image obtained the way users obtain it: by reading a Part 10 file
    /// (encoded here by vx-ref, in the given native transfer syntax)
    pub fn to_obj_via_file(&self, ts: Ts) -> Result<FileObj, String> {
        let file = ds::encode_file(true, &ds::std_meta(ts.uid(), SC_IMAGE_STORAGE, INSTANCE_UID), ts, &self.to_ref());
        read_file(&file)
    }
}

pub fn with_meta(o: InMemDicomObject, ts_uid: &str) -> FileObj {
    o.with_meta(
        FileMetaTableBuilder::new()
            .transfer_syntax(ts_uid)
            .media_storage_sop_class_uid(SC_IMAGE_STORAGE)
            .media_storage_sop_instance_uid(INSTANCE_UID),
    )
    .expect("file meta table")
}

pub fn read_file(bytes: &[u8]) -> Result<FileObj, String> {
    dicom_object::from_reader(bytes).map_err(|e| short(format!("{e:?}")))
}

pub fn write_file(obj: &FileObj) -> Result<Vec<u8>, String> {
    let mut out = vec![];
    obj.write_all(&mut out).map_err(|e| short(format!("{e:?}")))?;
    Ok(out)
}

fn known_vr(t: ds::Tag) -> Option<ds::Vr> {
    // only needed for Implicit VR streams written by dicom-rs in these checks
    Some(ds::vr(match t {
        (0x0008, 0x0016) | (0x0008, 0x0018) => "UI",
        (0x0028, 0x0004) | (0x0028, 0x2110) | (0x0028, 0x1056) => "CS",
        (0x0028, 0x0008) => "IS",
        (0x0028, 0x1050) | (0x0028, 0x1051) | (0x0028, 0x1052) | (0x0028, 0x1053) | (0x0028, 0x2112) => "DS",
        (0x0028, _) => "US",
        (0x7FE0, 0x0003) => "UV",
        (0x7FE0, 0x0010) => "OW",
        _ => return None,
    }))
}

/// Strictly parse a Part 10 file written by dicom-rs (native syntaxes and encapsulated ones,
/// which are all Explicit VR LE). Returns (transfer syntax uid, data set elements).
pub fn parse_written(bytes: &[u8]) -> Result<(String, Vec<RElem>), String> {
    let head = ds::parse_file_head(bytes).map_err(|e| format!("file head: {e}"))?;
    let ts = match head.ts_uid.as_str() {
        IMPLICIT_LE => Ts::ImplicitLE,
        EXPLICIT_BE => Ts::ExplicitBE,
        _ => Ts::ExplicitLE,
    };
    let elems = ds::parse(ts, &bytes[head.dataset_offset..], &known_vr).map_err(|e| format!("data set: {e}"))?;
    Ok((head.ts_uid, elems))
}

pub fn find<'a>(elems: &'a [RElem], tag: (u16, u16)) -> Option<&'a RElem> {
    elems.iter().find(|e| e.tag == tag)
}
pub fn prim<'a>(elems: &'a [RElem], tag: (u16, u16)) -> Option<&'a [u8]> {
    match &find(elems, tag)?.val {
        RVal::Prim(b) => Some(b),
        _ => None,
    }
}
pub fn us(elems: &[RElem], tag: (u16, u16)) -> Option<u16> {
    let b = prim(elems, tag)?;
    (b.len() == 2).then(|| u16::from_le_bytes([b[0], b[1]]))
}
pub fn text(elems: &[RElem], tag: (u16, u16)) -> Option<String> {
    Some(String::from_utf8_lossy(prim(elems, tag)?).trim_end_matches([' ', '\0']).to_string())
}

pub fn hex(b: &[u8]) -> String {
    b.iter().map(|x| format!("{x:02X}")).collect::<Vec<_>>().join("")
}
pub fn short(s: String) -> String {
    s.chars().take(300).collect()
}

/// Shapes (rows, cols, frames, spp) with rows, cols, frames in 1..=3 and at most `max_samples`
/// samples in total, simplest first.
pub fn tiny_shapes(max_samples: usize) -> Vec<(u16, u16, u32, u16)> {
    let mut v = vec![];
    for spp in [1u16, 3] {
        for f in 1..=3u32 {
            for r in 1..=3u16 {
                for c in 1..=3u16 {
                    let n = r as usize * c as usize * f as usize * spp as usize;
                    if n <= max_samples {
                        v.push((r, c, f, spp));
                    }
                }
            }
        }
    }
    v.sort_by_key(|&(r, c, f, s)| (r as usize * c as usize * f as usize * s as usize, s, f, r, c));
    v
}

pub const ALPHA8: [u8; 3] = [0x01, 0x80, 0xFE];
pub const ALPHA16: [u16; 3] = [0x0102, 0x8001, 0xFFFE];

/// pixel bytes for `n` samples taken from the 3-value alphabet, `code` read in base 3
pub fn alpha_bytes(bits: u16, n: usize, mut code: u64) -> Vec<u8> {
    let mut out = Vec::with_capacity(n * (bits as usize / 8));
    for _ in 0..n {
        let d = (code % 3) as usize;
        code /= 3;
        if bits == 8 {
            out.push(ALPHA8[d]);
        } else {
            out.extend_from_slice(&ALPHA16[d].to_le_bytes());
        }
    }
    out
}

/// index-coded samples for larger shapes: sample i = distinct, byte-asymmetric value
pub fn index_bytes(bits: u16, n: usize) -> Vec<u8> {
    let mut out = Vec::with_capacity(n * (bits as usize / 8));
    for i in 0..n {
        if bits == 8 {
            out.push((i as u8).wrapping_mul(37).wrapping_add(1));
        } else {
            let v = (i as u16).wrapping_mul(0x0B35).wrapping_add(0x0102);
            out.extend_from_slice(&v.to_le_bytes());
        }
    }
    out
}

pub fn pow3(n: usize) -> u64 {
    3u64.pow(n as u32)
}
pub mod xcode;
