//! C19 — lossless transcoding preserves pixel data exactly.
use vx_kit::{Check, Level};
fn main() {
    let check = Check::from_args("C19", Level::Exploration);
    check.set_rule("every native image with rows, cols, frames in 1..=3, 1|3 samples, 8|16 bits allocated, at most 4 (thorough: 6) samples, every sample from a 3-value byte-asymmetric alphabet, plus 5 larger index-coded shapes; variants planar configuration 0|1, Number of Frames absent, 8-bit samples in OW; x origin {built through the API, read from a vx-ref encoded Part 10 file} x source syntax {Implicit LE, Explicit LE, Explicit BE} (quick: API-built objects only with Explicit LE) x target {every lossless encoder of the build, 3 native syntaxes} x intermediate {in memory; for encapsulated targets also written and read back}; plus a boundary-size family: frames of 32767, 32768, 65535, 65536, 65538, 65541 and 262145 bytes (8-bit monochrome; also one 16-bit and one RGB shape of ~64 KiB), contents {fixed LCG byte stream, all zero, ramp}, 1 and 2 frames, API origin, Explicit LE source, every lossless and native target; a case is distinct by (image, origin, source, target, intermediate); non-trivial = the source object was built and transcode(target) was called");
    check.assume("vx-ref Part 10 encoder/strict parser are the trusted base; the final stream is inspected with the vx-ref parser, not with dicom-rs");
    vx_pix::xcode::run_c19(&check);
    vx_pix::xcode::run_c19_boundary(&check);
    check.finish();
}
