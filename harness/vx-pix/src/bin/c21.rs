//! C21 — native pixel data frames are extracted exactly (1, 8 and 16 bits allocated).
use dicom_pixeldata::PixelDecoder;
use vx_kit::{guard, json, Check, Level, Local};
use vx_pix::xcode::merge;
use vx_pix::*;
use vx_ref::ds::Ts;
use vx_ref::pix::{native_frame, unpack_bits};

#[derive(Clone, Copy, Debug)]
struct Shape {
    bits: u16,
    spp: u16,
    rows: u16,
    cols: u16,
    frames: u32,
}

fn shapes() -> Vec<Shape> {
    let mut v = vec![];
    for bits in [1u16, 8, 16] {
        for spp in [1u16, 3] {
            for frames in 1..=4u32 {
                for rows in 1..=5u16 {
                    for cols in 1..=5u16 {
                        v.push(Shape { bits, spp, rows, cols, frames });
                    }
                }
            }
        }
    }
    v.sort_by_key(|s| (s.rows as u32 * s.cols as u32 * s.spp as u32 * s.frames, s.bits));
    v
}

/// pixel data patterns of a shape: (name, bytes)
fn patterns(s: Shape, thorough: bool) -> Vec<(String, Vec<u8>)> {
    let samples = s.rows as usize * s.cols as usize * s.spp as usize * s.frames as usize;
    let mut out = vec![];
    if s.bits == 1 {
        let nbytes = samples.div_ceil(8);
        if samples <= 12 {
            // every bit pattern, with the unused tail bits of the last byte both 0 and 1
            for code in 0u32..(1 << samples) {
                for tail in [0u8, 1] {
                    let mut b = vec![0u8; nbytes];
                    for k in 0..nbytes * 8 {
                        let bit = if k < samples { (code >> k) & 1 == 1 } else { tail == 1 };
                        if bit {
                            b[k / 8] |= 1 << (k % 8);
                        }
                    }
                    if samples % 8 == 0 && tail == 1 {
                        continue;
                    }
                    out.push((format!("all/{code}/t{tail}"), b));
                }
            }
        } else {
            // walking one and its complement
            let step = if thorough { 1 } else { 1.max(samples / 24) };
            let mut k = 0;
            while k < samples {
                let mut b = vec![0u8; nbytes];
                b[k / 8] |= 1 << (k % 8);
                let c: Vec<u8> = b.iter().map(|x| !x).collect();
                out.push((format!("walk1/{k}"), b));
                out.push((format!("walk0/{k}"), c));
                k += step;
            }
            // last sample always
            let k = samples - 1;
            let mut b = vec![0u8; nbytes];
            b[k / 8] |= 1 << (k % 8);
            out.push((format!("walk1/last{k}"), b.clone()));
            out.push((format!("walk0/last{k}"), b.iter().map(|x| !x).collect()));
        }
    } else {
        out.push(("index".to_string(), index_bytes(s.bits, samples)));
        if samples <= 4 {
            for code in 0..pow3(samples) {
                out.push((format!("alpha/{code}"), alpha_bytes(s.bits, samples, code)));
            }
        }
    }
    out
}

fn make_img(s: Shape, data: Vec<u8>, vr: &'static str) -> Img {
    let mut img = Img::new(s.rows, s.cols, s.frames, s.bits, s.spp, data);
    img.pixel_vr = vr;
    img
}

/// reference: (whole result, per-frame results) as bytes
fn reference(s: Shape, data: &[u8]) -> Option<(Vec<u8>, Vec<Vec<u8>>)> {
    let fs = s.rows as usize * s.cols as usize * s.spp as usize;
    let mut frames = vec![];
    for f in 0..s.frames as usize {
        frames.push(if s.bits == 1 { unpack_bits(data, f * fs, fs)? } else { native_frame(data, f, fs * (s.bits as usize / 8))?.to_vec() });
    }
    Some((frames.concat(), frames))
}

fn run_case(l: &mut Local, case_id: &str, s: Shape, img: &Img, obj: Result<FileObj, String>, origin: &str) {
    if !l.want(case_id) {
        return;
    }
    l.eval();
    let fs = s.rows as usize * s.cols as usize * s.spp as usize;
    let class = json!({"bits": s.bits, "spp": s.spp, "multiframe": s.frames > 1, "origin": origin, "pixel_vr": img.pixel_vr,
        "frame_bits_multiple_of_8": s.bits != 1 || fs % 8 == 0, "total_bits_multiple_of_8": s.bits != 1 || (fs * s.frames as usize) % 8 == 0});
    let obj = match obj {
        Ok(o) => o,
        Err(m) => {
            l.check.machinery_error(&format!("C21: reference-encoded file unreadable ({case_id}): {m}"));
            return;
        }
    };
    l.nontrivial(&case_id);
    let (want_whole, want_frames) = reference(s, &img.data).expect("reference");
    let fail = |l: &mut Local, kind: &str, msg: String| {
        l.outcome(&format!("violation-{kind}"));
        l.fail(case_id, merge(&class, json!({"kind": kind})), json!({"image": img.label(), "message": msg}));
    };
    // whole object
    let whole = guard(|| {
        obj.decode_pixel_data().map_err(|e| short(format!("{e:?}"))).map(|d| {
            let frames: Vec<Result<Vec<u8>, String>> = (0..s.frames).map(|f| d.frame_data(f).map(|x| x.to_vec()).map_err(|e| short(format!("{e:?}")))).collect();
            (d.data().to_vec(), d.number_of_frames(), frames)
        })
    });
    let (data, nf, sliced) = match whole {
        Ok(Ok(x)) => x,
        Ok(Err(m)) => return fail(l, "whole-err", m),
        Err(p) => return fail(l, "whole-panic", p),
    };
    if data != want_whole {
        let kind = if data.len() != want_whole.len() { "whole-length" } else { "whole-bytes" };
        return fail(l, kind, format!("expected {} bytes {} got {} bytes {}", want_whole.len(), hex(&want_whole[..want_whole.len().min(40)]), data.len(), hex(&data[..data.len().min(40)])));
    }
    if nf != s.frames {
        return fail(l, "whole-frames", format!("number_of_frames {nf}"));
    }
    for (f, r) in sliced.iter().enumerate() {
        match r {
            Ok(d) if *d == want_frames[f] => {}
            other => return fail(l, "frame-data-slice", format!("frame_data({f}) = {other:?}")),
        }
    }
    // single frames
    for f in 0..s.frames {
        match guard(|| obj.decode_pixel_data_frame(f).map(|d| (d.data().to_vec(), d.number_of_frames())).map_err(|e| short(format!("{e:?}")))) {
            Ok(Ok((d, n))) => {
                if d != want_frames[f as usize] {
                    let kind = if d.len() != want_frames[f as usize].len() { "frame-length" } else { "frame-bytes" };
                    return fail(l, kind, format!("frame {f}: expected {} got {}", hex(&want_frames[f as usize][..fs.min(40)]), hex(&d[..d.len().min(40)])));
                }
                if n != 1 {
                    return fail(l, "frame-count", format!("decode_pixel_data_frame reports {n} frames"));
                }
            }
            Ok(Err(m)) => return fail(l, "frame-err", format!("frame {f}: {m}")),
            Err(p) => return fail(l, "frame-panic", format!("frame {f}: {p}")),
        }
    }
    l.outcome_with(&format!("exact-{}bit", s.bits), || json!({"case": case_id, "image": img.label()}));
}

fn main() {
    let check = Check::from_args("C21", Level::Exploration);
    check.set_rule("every shape bits allocated {1,8,16} x samples {1,3} x rows, cols 1..5 x frames 1..4 (600 shapes); pixel bytes: 1-bit: every bit pattern (and both values of the unused tail bits) when <= 12 samples, else walking one / walking zero (every position thorough, ~24 positions quick); 8/16-bit: index-coded samples, plus the 3-value alphabet when <= 4 samples; Pixel Data held as OB and (even length) OW; built through the API, and the first patterns also read from vx-ref files in Explicit LE and Explicit BE; a case is distinct by id; non-trivial = the object was decoded");
    check.assume("reference: samples packed LSB first and continuously across frames for 1 bit (PS3.5 8.1.1), plain slices otherwise; expected whole result = concatenation of frames");
    let shapes = shapes();
    check.extra("shapes", json!(shapes.len()));
    let thorough = check.thorough();
    check.par_range(shapes.len() as u64, |l, i| {
        let s = shapes[i as usize];
        for (pi, (pname, data)) in patterns(s, thorough).into_iter().enumerate() {
            for vr in ["OB", "OW"] {
                if vr == "OW" && (s.bits == 8 && pi > 0) {
                    continue;
                }
                if vr == "OB" && s.bits == 16 {
                    continue;
                }
                let img = make_img(s, data.clone(), vr);
                run_case(l, &format!("s{i}/{pname}/{vr}/api"), s, &img, Ok(img.to_obj(EXPLICIT_LE)), "api");
                if pi < 2 {
                    run_case(l, &format!("s{i}/{pname}/{vr}/file-le"), s, &img, img.to_obj_via_file(Ts::ExplicitLE), "file");
                    run_case(l, &format!("s{i}/{pname}/{vr}/file-be"), s, &img, img.to_obj_via_file(Ts::ExplicitBE), "file");
                }
            }
        }
    });
    check.finish();
}
