//! C22 — modality and VOI LUT outputs match PS3.3 C.11.1 / C.11.2 for every stored value.
use dicom_pixeldata::{ConvertOptions, Lut, PixelDecoder, Rescale, VoiLutFunction, VoiLutOption, WindowLevel, WindowLevelTransform};
use num_traits::NumCast;
use vx_kit::{guard, json, Check, Level, Local, Value};
use vx_pix::*;
use vx_ref::lut::{clamp_width, documented_y_max, rescale, stored_value, trunc_range, window, Func};

const SLOPES: [(f64, &str); 4] = [(1.0, "1"), (0.5, "0.5"), (2.5, "2.5"), (-1.0, "-1")];
const INTERCEPTS: [(f64, &str); 3] = [(0.0, "0"), (-1024.0, "-1024"), (0.5, "0.5")];

fn windows(bs: u32) -> Vec<(f64, f64)> {
    vec![(0.0, 1.0), (0.0, 0.0), (0.0, -5.0), (40.0, 400.0), ((1u64 << (bs - 1)) as f64, (1u64 << bs) as f64), (0.5, 1.5)]
}

#[derive(Clone, Copy, Debug, PartialEq)]
enum Voi {
    None,
    Win(Func, f64, f64),
}

fn vois(bs: u32) -> Vec<Voi> {
    let mut v = vec![Voi::None];
    for f in Func::ALL {
        for (c, w) in windows(bs) {
            v.push(Voi::Win(f, c, w));
        }
    }
    v
}

fn dcm_func(f: Func) -> VoiLutFunction {
    match f {
        Func::Linear => VoiLutFunction::Linear,
        Func::LinearExact => VoiLutFunction::LinearExact,
        Func::Sigmoid => VoiLutFunction::Sigmoid,
    }
}

trait Out: NumCast + Copy + Send + Sync + 'static {
    const NAME: &'static str;
    /// (min, max) for integer types, None for floats
    fn int_range() -> Option<(f64, f64)>;
    fn f(self) -> f64;
    fn rel_tol() -> f64 {
        0.0
    }
}
macro_rules! out_int {
    ($t:ty) => {
        impl Out for $t {
            const NAME: &'static str = stringify!($t);
            fn int_range() -> Option<(f64, f64)> {
                Some((<$t>::MIN as f64, <$t>::MAX as f64))
            }
            fn f(self) -> f64 {
                self as f64
            }
        }
    };
}
out_int!(u8);
out_int!(u16);
out_int!(i16);
out_int!(i32);
impl Out for f32 {
    const NAME: &'static str = "f32";
    fn int_range() -> Option<(f64, f64)> {
        None
    }
    fn f(self) -> f64 {
        self as f64
    }
    fn rel_tol() -> f64 {
        1.2e-7 // one ulp of f32
    }
}
impl Out for f64 {
    const NAME: &'static str = "f64";
    fn int_range() -> Option<(f64, f64)> {
        None
    }
    fn f(self) -> f64 {
        self
    }
    fn rel_tol() -> f64 {
        1e-12
    }
}

/// raw samples: every stored value under every garbage pattern above the high bit
fn raw_samples(alloc: u32, bs: u32) -> Vec<u32> {
    let amask: u32 = if alloc == 32 { u32::MAX } else { (1u32 << alloc) - 1 };
    let mut pats: Vec<u32> = vec![0];
    if alloc > bs {
        let up = alloc - bs;
        let ones = (1u32 << up) - 1;
        for p in [ones, 0xAAAA_AAAA & ones, 1] {
            if !pats.contains(&p) {
                pats.push(p);
            }
        }
    }
    let mut out = vec![];
    for g in pats {
        for v in 0..(1u32 << bs) {
            out.push((v | (g << bs)) & amask);
        }
    }
    out
}

struct Unit {
    path: &'static str,
    alloc: u32,
    bs: u32,
    signed: bool,
    slope: (f64, &'static str),
    intercept: (f64, &'static str),
    voi: Voi,
    voi_index: usize,
}

impl Unit {
    fn id(&self) -> String {
        format!("{}/a{}/bs{}/{}/m{}/b{}/v{}", self.path, self.alloc, self.bs, if self.signed { "s" } else { "u" }, self.slope.1, self.intercept.1, self.voi_index)
    }
    fn class(&self) -> Value {
        json!({"path": self.path, "alloc": self.alloc, "bits_stored_lt_alloc": self.bs < self.alloc, "signed": self.signed,
            "voi": match self.voi { Voi::None => "none", Voi::Win(f, ..) => f.name() }, "negative_slope": self.slope.0 < 0.0})
    }
    fn reference(&self, raws: &[u32], y_max: f64) -> Vec<f64> {
        raws.iter()
            .map(|&r| {
                let x = rescale(stored_value(r, self.bs, self.signed) as f64, self.slope.0, self.intercept.0);
                match self.voi {
                    Voi::None => x,
                    Voi::Win(f, c, w) => window(f, x, c, clamp_width(f, w), y_max),
                }
            })
            .collect()
    }
    fn monotone_required(&self) -> bool {
        self.slope.0 >= 0.0 && !matches!(self.voi, Voi::Win(Func::Sigmoid, ..))
    }
}

/// compare one produced table with the reference under one y_max reading
fn compare<T: Out>(got: &[T], want: &[f64]) -> Result<(), String> {
    if got.len() != want.len() {
        return Err(format!("{} outputs for {} samples", got.len(), want.len()));
    }
    for (i, (g, &y)) in got.iter().zip(want).enumerate() {
        let g = g.f();
        let ok = match T::int_range() {
            Some(_) => {
                let (lo, hi) = trunc_range(y);
                g >= lo && g <= hi
            }
            None => (g - y).abs() <= T::rel_tol() * y.abs().max(1e-30) + 1e-300,
        };
        if !ok {
            return Err(format!("entry {i}: got {g}, PS3.3 value {y}"));
        }
    }
    Ok(())
}

/// Some(true): all representable in T; Some(false): certainly not; None: borderline
fn representable<T: Out>(want: &[f64]) -> Option<bool> {
    let Some((min, max)) = T::int_range() else { return Some(want.iter().all(|y| y.is_finite())) };
    let mut all = true;
    for &y in want {
        if !y.is_finite() {
            return Some(false);
        }
        let (lo, hi) = trunc_range(y);
        if hi < min || lo > max {
            return Some(false);
        }
        if lo < min || hi > max {
            all = false;
        }
    }
    if all {
        Some(true)
    } else {
        None
    }
}

fn judge<T: Out>(l: &mut Local, u: &Unit, raws: &[u32], refs: &[Vec<f64>], produce: &dyn Fn() -> Result<Vec<T>, String>) {
    let case_id = format!("{}/{}", u.id(), T::NAME);
    if !l.want(&case_id) {
        return;
    }
    l.eval();
    l.nontrivial(&case_id);
    let class = |kind: &str| {
        let mut c = u.class();
        c["out"] = json!(T::NAME);
        c["kind"] = json!(kind);
        c
    };
    let detail = |msg: String| json!({"unit": u.id(), "slope": u.slope.0, "intercept": u.intercept.0, "voi": format!("{:?}", u.voi), "message": msg});
    let got = match guard(produce) {
        Ok(r) => r,
        Err(p) => {
            l.outcome("violation-panic");
            l.fail(&case_id, class("panic"), detail(p));
            return;
        }
    };
    match got {
        Err(e) => {
            let is_lut_err = e.contains("CreateLut");
            // allowed only when some entry is not representable under an accepted amplitude reading
            let allowed = is_lut_err && refs.iter().any(|r| representable::<T>(r) != Some(true));
            if allowed {
                l.outcome_with("create-lut-error-unrepresentable", || json!({"case": case_id}));
            } else {
                l.outcome("violation-unexpected-error");
                l.fail(&case_id, class("unexpected-error"), detail(e));
            }
        }
        Ok(v) => {
            let mut last_err = String::new();
            let mut ok = false;
            for r in refs {
                if representable::<T>(r) == Some(false) {
                    last_err = "a table entry is not representable in the output type, yet a table was returned".into();
                    continue;
                }
                match compare::<T>(&v, r) {
                    Ok(()) => {
                        ok = true;
                        break;
                    }
                    Err(m) => last_err = m,
                }
            }
            if !ok {
                l.outcome("violation-value-mismatch");
                l.fail(&case_id, class("value-mismatch"), detail(last_err));
                return;
            }
            if u.monotone_required() {
                let mut idx: Vec<usize> = (0..raws.len()).collect();
                idx.sort_by_key(|&i| stored_value(raws[i], u.bs, u.signed));
                for w in idx.windows(2) {
                    if v[w[1]].f() < v[w[0]].f() {
                        l.outcome("violation-not-monotone");
                        l.fail(&case_id, class("not-monotone"), detail(format!("output {} for stored value {} but {} for {}", v[w[0]].f(), stored_value(raws[w[0]], u.bs, u.signed), v[w[1]].f(), stored_value(raws[w[1]], u.bs, u.signed))));
                        return;
                    }
                }
            }
            l.outcome_with(&format!("matches-{}", match u.voi { Voi::None => "rescale", Voi::Win(f, ..) => f.name() }), || json!({"case": case_id}));
        }
    }
}

fn lut_table<T: Out>(u: &Unit, raws: &[u32]) -> Result<Vec<T>, String> {
    let rs = Rescale::new(u.slope.0, u.intercept.0);
    let lut: Lut<T> = match u.voi {
        Voi::None => Lut::new_rescale(u.bs as u16, u.signed, rs),
        Voi::Win(f, c, w) => {
            let t = WindowLevelTransform::new(dcm_func(f), WindowLevel { center: c, width: w });
            if u.slope.0 == 1.0 && u.intercept.0 == 0.0 {
                // identity rescale: use the window-only constructor
                Lut::new_window(u.bs as u16, u.signed, t)
            } else {
                Lut::new_rescale_and_window(u.bs as u16, u.signed, rs, t)
            }
        }
    }
    .map_err(|e| format!("CreateLutError {e:?}"))?;
    Ok(raws.iter().map(|&r| lut.get(r as u16)).collect())
}

fn run_unit(l: &mut Local, u: &Unit) {
    let raws = raw_samples(u.alloc, u.bs);
    if u.path == "lut" {
        let ym = [u.reference(&raws, documented_y_max(u.bs))];
        judge::<u8>(l, u, &raws, &ym, &|| lut_table::<u8>(u, &raws));
        judge::<u16>(l, u, &raws, &ym, &|| lut_table::<u16>(u, &raws));
        judge::<i16>(l, u, &raws, &ym, &|| lut_table::<i16>(u, &raws));
        judge::<i32>(l, u, &raws, &ym, &|| lut_table::<i32>(u, &raws));
        judge::<f32>(l, u, &raws, &ym, &|| lut_table::<f32>(u, &raws));
        judge::<f64>(l, u, &raws, &ym, &|| lut_table::<f64>(u, &raws));
        return;
    }
    // to_vec_with_options on an image holding every raw sample
    let total = raws.len();
    let cols = total.min(32768);
    let rows = total / cols;
    let mut data = Vec::with_capacity(total * 2);
    for &r in &raws {
        if u.alloc == 8 {
            data.push(r as u8);
        } else {
            data.extend_from_slice(&(r as u16).to_le_bytes());
        }
    }
    let mut img = Img::new(rows as u16, cols as u16, 1, u.alloc as u16, 1, data);
    img.bits_stored = u.bs as u16;
    img.high_bit = u.bs as u16 - 1;
    img.signed = u.signed;
    img.extra = vec![((0x0028, 0x1052), "DS", u.intercept.1.as_bytes().to_vec()), ((0x0028, 0x1053), "DS", u.slope.1.as_bytes().to_vec())];
    let obj = img.to_obj(EXPLICIT_LE);
    let decoded = match guard(|| obj.decode_pixel_data().map_err(|e| short(format!("{e:?}")))) {
        Ok(Ok(d)) => d,
        other => {
            l.check.machinery_error(&format!("C22: cannot decode the native test image of {}: {:?}", u.id(), other.map(|r| r.err())));
            return;
        }
    };
    let opts = match u.voi {
        Voi::None => ConvertOptions::new(),
        Voi::Win(f, c, w) => ConvertOptions::new().with_voi_lut(VoiLutOption::CustomWithFunction(WindowLevel { center: c, width: w }, dcm_func(f))),
    };
    // amplitude: the statement leaves y_max open; accepted readings are the documented Lut rule
    // (2^n - 1, n = power of two following Bits Stored) and the full range of Bits Allocated
    let mut ym = vec![documented_y_max(u.bs)];
    let alloc_max = ((1u64 << u.alloc) - 1) as f64;
    if !ym.contains(&alloc_max) {
        ym.push(alloc_max);
    }
    let ym: Vec<Vec<f64>> = ym.iter().map(|&y| u.reference(&raws, y)).collect();
    macro_rules! tv {
        ($t:ty) => {
            judge::<$t>(l, u, &raws, &ym, &|| decoded.to_vec_with_options::<$t>(&opts).map_err(|e| short(format!("{e:?}"))))
        };
    }
    tv!(u8);
    tv!(u16);
    tv!(i16);
    tv!(i32);
    tv!(f32);
    tv!(f64);
}

fn main() {
    let check = Check::from_args("C22", Level::Exploration);
    check.set_rule("every stored value (whole table) for Bits Stored 1..16 (quick: 1, 4, 5, 8, 12, 16, and for 12 and 16 only slope {1, 2.5} x intercept {0, -1024}) x {unsigned, signed} x garbage patterns in the bits above the high bit {zeros, ones, alternating, 1} x slope {1, 0.5, 2.5, -1} x intercept {0, -1024, 0.5} x {no window, (LINEAR | LINEAR_EXACT | SIGMOID) x 6 (center, width) pairs incl. widths 0 and -5} x output {u8, u16, i16, i32, f32, f64}, through two paths: the Lut constructors + get() on 16-bit raw samples, and DecodedPixelData::to_vec_with_options on native images with 8 and 16 bits allocated carrying Rescale Slope/Intercept attributes; a case is (path, allocation, bits stored, signedness, slope, intercept, window, output type)");
    check.assume("vx-ref formulas (PS3.3 C.11.1.1.2, C.11.2.1.2.1, C.11.2.1.3.1/2, y_min = 0) in f64; widths below 1 (0 for LINEAR_EXACT) are clamped as WindowLevelTransform::new documents; integer outputs are truncated toward zero, with a relative tolerance of 1e-9 on the real value before truncation; floats within one ulp of the output type; y_max is the documented 2^n-1 rule for Lut, and for to_vec either that or the Bits Allocated range");
    let bss: Vec<u32> = if check.quick() { vec![1, 8, 12, 16] } else { (1..=16).collect() };
    let mut units = vec![];
    for path in ["lut", "to_vec"] {
        for alloc in [8u32, 16] {
            if path == "lut" && alloc == 8 {
                continue;
            }
            for &bs in bss.iter().filter(|&&b| b <= alloc) {
                for signed in [false, true] {
                    for slope in SLOPES {
                        for intercept in INTERCEPTS {
                            // quick tier: the large tables get a 2 x 2 rescale grid
                            if check.quick() && bs >= 12 && !((slope.0 == 1.0 || slope.0 == 2.5) && intercept.0 != 0.5) {
                                continue;
                            }
                            for (vi, voi) in vois(bs).into_iter().enumerate() {
                                units.push(Unit { path, alloc, bs, signed, slope, intercept, voi, voi_index: vi });
                            }
                        }
                    }
                }
            }
        }
    }
    // 8-bit allocation: also bits stored below 8 in the quick tier (the 8-bit path is separate code)
    if check.quick() {
        for bs in [4u32, 5] {
            for signed in [false, true] {
                for slope in SLOPES {
                    for intercept in INTERCEPTS {
                        for (vi, voi) in vois(bs).into_iter().enumerate() {
                            units.push(Unit { path: "to_vec", alloc: 8, bs, signed, slope, intercept, voi, voi_index: vi });
                        }
                    }
                }
            }
        }
    }
    // largest tables first so that the tail of the run is short
    units.sort_by_key(|u| std::cmp::Reverse(u.bs));
    check.extra("units", json!(units.len()));
    check.extra("table_entries", json!(units.iter().map(|u| raw_samples(u.alloc, u.bs).len() as u64 * 6).sum::<u64>()));
    check.par_range(units.len() as u64, |l, i| run_unit(l, &units[i as usize]));
    check.finish();
}
