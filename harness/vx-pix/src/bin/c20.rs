//! C20 — RLE Lossless decoding reproduces the encoded samples, for every PackBits segmentation.
use dicom_core::value::{PixelFragmentSequence, Value as DValue};
use dicom_core::{DataElement, Tag, VR};
use dicom_pixeldata::PixelDecoder;
use vx_kit::{guard, json, Check, Level, Local, Value};
use vx_pix::xcode::{images, img_class, merge};
use vx_pix::*;
use vx_ref::ds::{RElem, RVal, Ts};
use vx_ref::pix::offset_table;
use vx_ref::rle::{all_literal, assemble, canonical, encode_plane, planes, segmentations, Piece};

/// one coding of one plane: pieces + where no-op bytes go
#[derive(Clone, Debug)]
struct PlaneCoding {
    pieces: Vec<Piece>,
    noops: Vec<bool>,
}

fn noop_variants(npieces: usize) -> Vec<Vec<bool>> {
    let b = npieces + 1;
    let mut out = vec![vec![]];
    if b <= 3 {
        for m in 1u32..(1 << b) {
            out.push((0..b).map(|i| m & (1 << i) != 0).collect());
        }
    } else {
        for i in 0..b {
            out.push((0..b).map(|j| j == i).collect());
        }
        out.push(vec![true; b]);
    }
    out
}

struct RleImage {
    /// planes[frame][plane]
    planes: Vec<Vec<Vec<u8>>>,
}

impl RleImage {
    fn new(img: &Img) -> RleImage {
        let bps = img.bits_alloc as usize / 8;
        let px = img.rows as usize * img.cols as usize;
        let planes = img.data.chunks(img.frame_bytes()).map(|f| planes(f, px, img.spp as usize, bps, false)).collect();
        RleImage { planes }
    }
    /// fragments with plane (fi, pi) coded as `special`, every other plane canonically
    fn fragments(&self, special: &[((usize, usize), PlaneCoding)]) -> Vec<Vec<u8>> {
        self.planes
            .iter()
            .enumerate()
            .map(|(fi, fr)| {
                let segs: Vec<Vec<u8>> = fr
                    .iter()
                    .enumerate()
                    .map(|(pi, p)| match special.iter().find(|(k, _)| *k == (fi, pi)) {
                        Some((_, c)) => encode_plane(p, &c.pieces, &c.noops),
                        None => encode_plane(p, &canonical(p, 128), &[]),
                    })
                    .collect();
                assemble(&segs)
            })
            .collect()
    }
}

fn rle_object(img: &Img, frags: &[Vec<u8>], table: bool, planar_attr: Option<u16>) -> FileObj {
    let mut meta_img = img.clone();
    meta_img.data = vec![];
    meta_img.planar = planar_attr;
    let mut o = meta_img.to_obj(RLE_LOSSLESS);
    let lens: Vec<usize> = frags.iter().map(|f| f.len()).collect();
    let t = if table { offset_table(&lens, &vec![1; lens.len()]) } else { vec![] };
    o.put(DataElement::new(Tag(0x7FE0, 0x0010), VR::OB, DValue::PixelSequence(PixelFragmentSequence::new(t, frags.to_vec()))));
    o
}

fn rle_object_via_file(img: &Img, frags: &[Vec<u8>]) -> Result<FileObj, String> {
    let mut meta_img = img.clone();
    meta_img.data = vec![];
    let mut elems: Vec<RElem> = meta_img.to_ref();
    elems.retain(|e| e.tag != T_PIXEL_DATA);
    let lens: Vec<usize> = frags.iter().map(|f| f.len()).collect();
    elems.push(RElem { tag: T_PIXEL_DATA, vr: *b"OB", val: RVal::Pix { offsets: offset_table(&lens, &vec![1; lens.len()]), frags: frags.to_vec() } });
    let file = vx_ref::ds::encode_file(true, &vx_ref::ds::std_meta(RLE_LOSSLESS, SC_IMAGE_STORAGE, INSTANCE_UID), Ts::ExplicitLE, &elems);
    read_file(&file)
}

/// decode whole + every frame; compare with the original little-endian pixel-interleaved bytes
fn verdict(obj: &FileObj, img: &Img) -> Result<(), (String, String)> {
    let e = |a: &str, m: String| (a.to_string(), m);
    let whole = match guard(|| obj.decode_pixel_data().map(|d| d.data().to_vec()).map_err(|x| short(format!("{x:?}")))) {
        Ok(Ok(d)) => d,
        Ok(Err(m)) => return Err(e("whole-err", m)),
        Err(p) => return Err(e("whole-panic", p)),
    };
    let fb = img.frame_bytes();
    let mut per_frame = vec![];
    for f in 0..img.frames {
        match guard(|| obj.decode_pixel_data_frame(f).map(|d| d.data().to_vec()).map_err(|x| short(format!("{x:?}")))) {
            Ok(Ok(d)) => per_frame.push(d),
            Ok(Err(m)) => return Err(e("frame-err", format!("frame {f}: {m}"))),
            Err(p) => return Err(e("frame-panic", format!("frame {f}: {p}"))),
        }
    }
    if whole != img.data {
        let kind = if whole.len() != img.data.len() { "whole-length" } else { "whole-bytes" };
        return Err(e(kind, format!("expected {} got {}", hex(&img.data[..img.data.len().min(48)]), hex(&whole[..whole.len().min(48)]))));
    }
    for (f, d) in per_frame.iter().enumerate() {
        if d[..] != img.data[f * fb..(f + 1) * fb] {
            return Err(e("frame-bytes", format!("frame {f}: expected {} got {}", hex(&img.data[f * fb..(f * fb + fb).min(f * fb + 48)]), hex(&d[..d.len().min(48)]))));
        }
    }
    if per_frame.concat() != whole {
        return Err(e("whole-vs-frames", String::new()));
    }
    Ok(())
}

fn run_case(l: &mut Local, case_id: &str, class: &Value, img: &Img, obj: Result<FileObj, String>, coding: &str) {
    if !l.want(case_id) {
        return;
    }
    l.eval();
    let obj = match obj {
        Ok(o) => o,
        Err(m) => {
            l.check.machinery_error(&format!("C20: reference-encoded RLE file unreadable ({case_id}): {m}"));
            return;
        }
    };
    l.nontrivial(&case_id);
    match verdict(&obj, img) {
        Ok(()) => l.outcome_with(&format!("decoded-exactly-b{}-spp{}", img.bits_alloc, img.spp), || json!({"case": case_id, "image": img.label(), "coding": coding})),
        Err((kind, msg)) => {
            l.outcome(&format!("violation-{kind}"));
            l.fail(case_id, merge(class, json!({"kind": kind})), json!({"image": img.label(), "coding": coding, "message": msg}));
        }
    }
}

fn tiny(check: &Check) {
    let imgs = images(check.pick(4, 6), false);
    check.extra("tiny_images", json!(imgs.len()));
    check.par_range(imgs.len() as u64, |l, i| {
        let img = &imgs[i as usize];
        let r = RleImage::new(img);
        let class = merge(&img_class(img), json!({"family": "tiny"}));
        // canonical coding, object variants
        let canon = r.fragments(&[]);
        run_case(l, &format!("tiny/{i}/canonical"), &class, img, Ok(rle_object(img, &canon, true, img.planar)), "canonical");
        run_case(l, &format!("tiny/{i}/canonical-no-table"), &class, img, Ok(rle_object(img, &canon, false, img.planar)), "canonical, empty offset table");
        run_case(l, &format!("tiny/{i}/canonical-file"), &class, img, rle_object_via_file(img, &canon), "canonical, read from a vx-ref file");
        if img.spp == 3 {
            run_case(l, &format!("tiny/{i}/canonical-planar1"), &class, img, Ok(rle_object(img, &canon, true, Some(1))), "canonical, Planar Configuration 1");
        }
        if img.data.len() > 12 {
            return; // larger index-coded shapes: canonical coding only
        }
        // every segmentation of one plane at a time (+ no-op placements), other planes canonical
        let mut all: Vec<Vec<Vec<PlaneCoding>>> = vec![];
        for (fi, fr) in r.planes.iter().enumerate() {
            let mut per_plane = vec![];
            for (pi, p) in fr.iter().enumerate() {
                let mut codings = vec![];
                for (si, pieces) in segmentations(p).into_iter().enumerate() {
                    for (ni, noops) in noop_variants(pieces.len()).into_iter().enumerate() {
                        let c = PlaneCoding { pieces: pieces.clone(), noops };
                        let frags = r.fragments(&[((fi, pi), c.clone())]);
                        run_case(l, &format!("tiny/{i}/f{fi}p{pi}/s{si}n{ni}"), &class, img, Ok(rle_object(img, &frags, true, img.planar)), &format!("frame {fi} plane {pi}: {:?} noops {:?}", c.pieces, c.noops));
                        if ni == 0 {
                            codings.push(c);
                        }
                    }
                }
                per_plane.push(codings);
            }
            all.push(per_plane);
        }
        // full cross product over all planes when small
        let product: usize = all.iter().flatten().map(|c| c.len()).product();
        let nplanes = all.iter().map(|f| f.len()).sum::<usize>();
        if nplanes > 1 && product > 1 && product <= 64 {
            let flat: Vec<((usize, usize), &Vec<PlaneCoding>)> =
                all.iter().enumerate().flat_map(|(fi, f)| f.iter().enumerate().map(move |(pi, c)| ((fi, pi), c))).collect();
            for code in 0..product {
                let mut c = code;
                let special: Vec<((usize, usize), PlaneCoding)> = flat
                    .iter()
                    .map(|(k, opts)| {
                        let o = opts[c % opts.len()].clone();
                        c /= opts.len();
                        (*k, o)
                    })
                    .collect();
                let frags = r.fragments(&special);
                run_case(l, &format!("tiny/{i}/cross{code}"), &class, img, Ok(rle_object(img, &frags, true, img.planar)), &format!("cross product #{code}"));
            }
        }
    });
}

fn long_runs(check: &Check) {
    let lens = [127usize, 128, 129, 255, 256, 257];
    let mut cases: Vec<(usize, u16, u16, &str)> = vec![];
    for &n in &lens {
        for bits in [8u16, 16] {
            for spp in [1u16, 3] {
                for pat in ["equal", "distinct", "half"] {
                    cases.push((n, bits, spp, pat));
                }
            }
        }
    }
    check.extra("long_run_images", json!(cases.len()));
    check.par_range(cases.len() as u64, |l, i| {
        let (n, bits, spp, pat) = cases[i as usize];
        let bps = bits as usize / 8;
        let nsamp = n * spp as usize;
        let mut data = Vec::with_capacity(nsamp * bps);
        for k in 0..nsamp {
            let px = k / spp as usize;
            let s = k % spp as usize;
            let v: u16 = match pat {
                "equal" => 0x8001 + s as u16 * 0x0101,
                "distinct" => ((px * 37 + 1) as u16 & 0xFF) | ((((px * 91 + 7) as u16) & 0xFF) << 8),
                _ => {
                    if px < n / 2 {
                        0x8001 + s as u16 * 0x0101
                    } else {
                        ((px * 37 + 1) as u16 & 0xFF) | ((((px * 91 + 7) as u16) & 0xFF) << 8)
                    }
                }
            };
            if bps == 1 {
                data.push(v as u8);
            } else {
                data.extend_from_slice(&v.to_le_bytes());
            }
        }
        let img = Img::new(1, n as u16, 1, bits, spp, data);
        let r = RleImage::new(&img);
        let class = merge(&img_class(&img), json!({"family": "long-runs", "pattern": pat, "plane_len": n}));
        let nplanes = r.planes[0].len();
        let codings: Vec<(&str, Box<dyn Fn(&[u8]) -> Vec<Piece>>)> = vec![
            ("canonical-128", Box::new(|p: &[u8]| canonical(p, 128))),
            ("canonical-127", Box::new(|p: &[u8]| canonical(p, 127))),
            ("canonical-2", Box::new(|p: &[u8]| canonical(p, 2))),
            ("literal-128", Box::new(|p: &[u8]| all_literal(p.len(), 128, 0))),
            ("literal-1+128", Box::new(|p: &[u8]| all_literal(p.len(), 128, 1))),
            ("literal-127", Box::new(|p: &[u8]| all_literal(p.len(), 127, 0))),
            ("literal-64", Box::new(|p: &[u8]| all_literal(p.len(), 64, 0))),
            ("literal-1", Box::new(|p: &[u8]| all_literal(p.len(), 1, 0))),
        ];
        for (name, f) in &codings {
            for noop in [false, true] {
                let special: Vec<((usize, usize), PlaneCoding)> = (0..nplanes)
                    .map(|pi| {
                        let pieces = f(&r.planes[0][pi]);
                        let noops = if noop { vec![true; pieces.len() + 1] } else { vec![] };
                        ((0, pi), PlaneCoding { pieces, noops })
                    })
                    .collect();
                let frags = r.fragments(&special);
                run_case(l, &format!("long/{i}/{name}/noop{}", noop as u8), &class, &img, Ok(rle_object(&img, &frags, true, img.planar)), name);
            }
        }
    });
}

/// Large frames: uniform (extremely compressible) and textured, coded with maximal replicate runs
/// and with maximal literal runs; the decoder's plausibility bound between decoded size and
/// encoded length only matters at this scale.
fn large(check: &Check) {
    // (name, rows, cols, bits, spp)
    let shapes: [(&str, u16, u16, u16, u16); 5] = [
        ("mono8-64KiB", 256, 256, 8, 1),
        ("mono8-513KiB", 513, 1024, 8, 1),
        ("mono8-1MiB", 1024, 1024, 8, 1),
        ("mono16-512x512", 512, 512, 16, 1),
        ("rgb8-512x400", 400, 512, 8, 3),
    ];
    // frame contents per object: one blank, one textured, blank + textured, blank + blank
    let frame_lists: [&[&str]; 4] = [&["blank"], &["textured"], &["blank", "textured"], &["blank", "blank"]];
    let codings = ["replicate-128", "literal-128", "canonical-127"];
    let mut units = vec![];
    for sh in shapes {
        for fl in frame_lists {
            for c in codings {
                units.push((sh, fl, c));
            }
        }
    }
    check.extra("large_objects", json!(units.len()));
    check.par_range(units.len() as u64, |l, i| {
        let ((name, rows, cols, bits, spp), fl, coding) = units[i as usize];
        let bps = bits as usize / 8;
        let fb = rows as usize * cols as usize * spp as usize * bps;
        let mut data = Vec::with_capacity(fb * fl.len());
        for (fi, kind) in fl.iter().enumerate() {
            if *kind == "blank" {
                // one constant sample value (both bytes differ for 16 bit)
                for k in 0..fb {
                    data.push(if bps == 2 && k % 2 == 1 { 0x80 } else { 0x01 + fi as u8 });
                }
            } else {
                // rows of short runs and ramps: literal and replicate pieces of many lengths
                for k in 0..fb {
                    let px = k / (bps * spp as usize);
                    data.push(if (px / 97) % 3 == 0 { (px / 97) as u8 } else { (px * 31 + k % (bps * spp as usize) * 7) as u8 });
                }
            }
        }
        let img = Img::new(rows, cols, fl.len() as u32, bits, spp, data);
        let r = RleImage::new(&img);
        let special: Vec<((usize, usize), PlaneCoding)> = r
            .planes
            .iter()
            .enumerate()
            .flat_map(|(fi, fr)| {
                fr.iter().enumerate().map(move |(pi, p)| {
                    let pieces = match coding {
                        "replicate-128" => canonical(p, 128),
                        "canonical-127" => canonical(p, 127),
                        _ => all_literal(p.len(), 128, 0),
                    };
                    ((fi, pi), PlaneCoding { pieces, noops: vec![] })
                })
            })
            .collect();
        let frags = r.fragments(&special);
        let class = merge(&img_class(&img), json!({"family": "large", "shape": name, "frames": fl.join("+"), "coding": coding}));
        let ratio = img.data.len() as f64 / frags.iter().map(|f| f.len()).sum::<usize>() as f64;
        run_case(l, &format!("large/{name}/{}/{coding}", fl.join("+")), &class, &img, Ok(rle_object(&img, &frags, true, img.planar)), &format!("{coding}, decoded/encoded = {ratio:.1}"));
    });
}

fn main() {
    let check = Check::from_args("C20", Level::Exploration);
    check.set_rule("tiny family: every image of the C19 universe (<= 4 samples quick, <= 6 thorough; 8|16 bit; 1|3 samples; 1-3 frames) encoded by the vx-ref Annex G encoder: canonical coding x {offset table, empty table, read from a vx-ref file, planar attribute 1}, then every PackBits segmentation (all compositions x literal|replicate for equal pieces) of each byte plane in turn x no-op placements (all subsets of boundaries when <= 3 boundaries, else each single boundary and all), other planes canonical, and the full cross product over planes when it has <= 64 members; long-run family: 1 x n images, n in {127,128,129,255,256,257}, 8|16 bit, 1|3 samples, patterns equal/distinct/half, 8 chunkings x no-ops everywhere; large family: 5 shapes (8-bit 64 KiB, 513 KiB, 1 MiB; 16-bit 512x512; RGB 512x400) x frames {blank, textured, blank+textured, blank+blank} x coding {maximal replicate runs of 128, maximal literal runs of 128, canonical cut at 127}, whole-object and per-frame decode; a case is distinct by id; non-trivial = an RLE object was built and decoded");
    check.assume("vx-ref RLE encoder (written from PS3.5 Annex G, self-tested against its own reference decoder) is the trusted base; expected output is the original samples little-endian and pixel-interleaved");
    tiny(&check);
    long_runs(&check);
    large(&check);
    check.finish();
}
