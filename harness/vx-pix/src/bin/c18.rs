//! C18 — encapsulated pixel data: offset table, fragments, total length, frame retrieval.
use dicom_core::value::fragments::Fragments;
use dicom_core::value::{PixelFragmentSequence, Value as DValue};
use dicom_core::{DataElement, Tag, VR};
use dicom_encoding::adapters::PixelDataObject;
use dicom_object::InMemDicomObject;
use dicom_pixeldata::encapsulation::{encapsulate, encapsulate_single_frame};
use vx_kit::{guard, json, Check, Level, Local};
use vx_pix::xcode::*;
use vx_pix::*;
use vx_ref::ds::RVal;
use vx_ref::pix::{frames_by_offsets, offset_table};

const FRAME_SIZES: [usize; 6] = [1, 2, 3, 4, 7, 8];
const FRAGMENT_SIZES: [u32; 6] = [0, 1, 2, 3, 4, 8];

fn frame_bytes(k: usize, len: usize) -> Vec<u8> {
    // non-zero, frame-specific, position-specific bytes (zero padding stays recognisable)
    (0..len).map(|i| ((k * 16 + (i % 15) + 1) & 0xFF) as u8 | 0x01).collect()
}

/// Put an encapsulated pixel data value into an object, write it, parse it strictly, and check
/// (a) fragment items even, (b) offset table vs item positions, (c) frame data vs `frames`
/// (`exact`: fragment bytes of frame i must be frame i plus zero padding), (d) total length,
/// (e) frame_pixel_data(i). Returns the outcome name or Err((aspect, message)).
fn check_encapsulated(obj: &FileObj, frames: Option<&[Vec<u8>]>, nframes: usize, one_fragment_per_frame: bool) -> Result<String, (String, String)> {
    let e = |a: &str, m: String| (a.to_string(), m);
    let pd = obj.get(Tag(0x7FE0, 0x0010)).ok_or_else(|| e("no-pixel-data", String::new()))?;
    let DValue::PixelSequence(seq) = pd.value() else { return Err(e("not-encapsulated", String::new())) };
    let mem_table: Vec<u32> = seq.offset_table().to_vec();
    let mem_frags: Vec<Vec<u8>> = seq.fragments().to_vec();
    // written stream
    let bytes = match guard(|| write_file(obj)) {
        Ok(Ok(b)) => b,
        Ok(Err(m)) => return Err(e("write-err", m)),
        Err(p) => return Err(e("write-panic", p)),
    };
    let (_ts, elems) = parse_written(&bytes).map_err(|m| {
        let aspect = if m.contains("odd length") { "fragment-odd-length" } else { "stream-invalid" };
        e(aspect, m)
    })?;
    let (w_table, w_frags) = match find(&elems, T_PIXEL_DATA).map(|x| &x.val) {
        Some(RVal::Pix { offsets, frags }) => (offsets.clone(), frags.clone()),
        _ => return Err(e("stream-not-encapsulated", String::new())),
    };
    if w_frags.len() != mem_frags.len() {
        return Err(e("fragment-count", format!("{} fragments in memory, {} written", mem_frags.len(), w_frags.len())));
    }
    for (i, (m, w)) in mem_frags.iter().zip(&w_frags).enumerate() {
        let padded_ok = w.len() == m.len() + m.len() % 2 && w[..m.len()] == m[..] && w[m.len()..].iter().all(|&b| b == 0);
        if !padded_ok {
            return Err(e("fragment-bytes", format!("fragment {i}: memory {} written {}", hex(&m[..m.len().min(32)]), hex(&w[..w.len().min(32)]))));
        }
    }
    if w_table != mem_table {
        return Err(e("table-written-differs", format!("memory {mem_table:?} written {w_table:?}")));
    }
    let w_lens: Vec<usize> = w_frags.iter().map(|f| f.len()).collect();
    // (b) offset table
    if w_table.len() != nframes {
        return Err(e("table-entries", format!("{} entries for {nframes} frames: {w_table:?}", w_table.len())));
    }
    if w_table[0] != 0 {
        return Err(e("table-first-entry", format!("table {w_table:?}, written fragment lengths {w_lens:?}")));
    }
    let ranges = frames_by_offsets(&w_lens, &w_table).map_err(|m| e("table-offsets", format!("{m}; table {w_table:?}")))?;
    if ranges.iter().any(|r| r.is_empty()) {
        return Err(e("table-offsets", format!("a frame without fragments: table {w_table:?} lengths {w_lens:?}")));
    }
    if one_fragment_per_frame {
        let want = offset_table(&w_lens, &vec![1; nframes]);
        if want != w_table {
            return Err(e("table-offsets", format!("expected {want:?} got {w_table:?}")));
        }
    }
    // (c) content
    if let Some(frames) = frames {
        for (i, r) in ranges.iter().enumerate() {
            let cat: Vec<u8> = w_frags[r.clone()].concat();
            let f = &frames[i];
            if cat.len() < f.len() || cat[..f.len()] != f[..] || cat[f.len()..].iter().any(|&b| b != 0) {
                return Err(e("frame-content", format!("frame {i} ({} bytes) vs its fragments {}", f.len(), hex(&cat[..cat.len().min(40)]))));
            }
        }
    }
    // (d) total length
    let mut total_note = "no-total-length";
    if let Some(b) = prim(&elems, T_TOTAL_LENGTH) {
        let v = if b.len() == 8 { u64::from_le_bytes(b.try_into().unwrap()) } else { u64::MAX };
        let mem_sum: u64 = mem_frags.iter().map(|f| f.len() as u64).sum();
        let w_sum: u64 = w_lens.iter().map(|&l| l as u64).sum();
        if v != mem_sum && v != w_sum {
            return Err(e("total-length", format!("Encapsulated Pixel Data Value Total Length = {v}, fragment lengths sum to {mem_sum} (in memory) / {w_sum} (written)")));
        }
        total_note = "total-length-ok";
    }
    // (e) frame retrieval
    for (i, r) in ranges.iter().enumerate() {
        let want: Vec<u8> = mem_frags[r.clone()].concat();
        match guard(|| obj.frame_pixel_data(i as u32).map(|c| c.to_vec())) {
            Ok(Some(got)) if got == want => {}
            Ok(got) => return Err(e("frame-pixel-data", format!("frame {i}: expected {} got {:?}", hex(&want[..want.len().min(32)]), got.map(|g| hex(&g[..g.len().min(32)]))))),
            Err(p) => return Err(e("frame-pixel-data-panic", p)),
        }
    }
    if guard(|| obj.frame_pixel_data(nframes as u32).is_some()).unwrap_or(true) && mem_frags.len() == nframes {
        // out-of-range frame must not be served when fragments map 1:1 to frames
        return Err(e("frame-pixel-data", format!("frame {nframes} of {nframes} returned data")));
    }
    Ok(format!("ok-{}-{}", if mem_frags.len() == nframes { "1-fragment-per-frame" } else { "multi-fragment" }, total_note))
}

fn helper_object(value: DValue<InMemDicomObject>, nframes: usize) -> FileObj {
    let mut img = Img::new(1, 1, nframes as u32, 8, 1, vec![]);
    img.frames_attr = true;
    let mut o = img.to_obj(JPEG_BASELINE);
    o.put(DataElement::new(Tag(0x7FE0, 0x0010), VR::OB, value));
    o
}

fn helper_case(l: &mut Local, case_id: &str, entry: &str, sizes: &[usize], fs: u32) {
    if !l.want(case_id) {
        return;
    }
    l.eval();
    let frames: Vec<Vec<u8>> = sizes.iter().enumerate().map(|(k, &n)| frame_bytes(k, n)).collect();
    let n = frames.len();
    let eff = |len: usize| -> usize {
        let f = if fs == 0 { len } else { fs as usize };
        f + f % 2
    };
    let multi_fragment = frames.iter().any(|f| f.len() > eff(f.len()));
    let class = json!({"part": "helper", "entry": entry, "frames": n, "multiframe": n > 1, "fragment_size": fs,
        "multi_fragment": multi_fragment, "odd_frame": sizes.iter().any(|s| s % 2 == 1), "big": sizes[0] > 1000});
    let fr = frames.clone();
    let built = guard(move || -> DValue<InMemDicomObject> {
        // the helpers return a `Value<EmptyObject>`; move its fragment sequence into an object value
        let unwrap = |v: DValue| match v {
            DValue::PixelSequence(seq) => DValue::PixelSequence(seq),
            _ => panic!("encapsulate did not return a pixel sequence"),
        };
        match entry {
            "encapsulate" => unwrap(encapsulate(fr)),
            "encapsulate_single_frame" => unwrap(encapsulate_single_frame(fr.into_iter().next().unwrap(), fs)),
            _ => {
                let v: Vec<Fragments> = fr.into_iter().map(|f| Fragments::new(f, fs)).collect();
                DValue::PixelSequence(PixelFragmentSequence::from(v))
            }
        }
    });
    let value = match built {
        Ok(v) => v,
        Err(p) => {
            if n > 1 && multi_fragment && p.contains("More than 1 fragment per frame") {
                // documented precondition of the helper: several frames => one fragment each
                l.outcome("documented-panic-multi-fragment-multi-frame");
                return;
            }
            l.outcome("helper-panic");
            l.fail(case_id, vx_pix::xcode::merge(&class, json!({"aspect": "helper-panic"})), json!({"sizes": sizes, "message": p}));
            return;
        }
    };
    l.nontrivial(&case_id);
    let obj = helper_object(value, n);
    match check_encapsulated(&obj, Some(&frames), n, !multi_fragment) {
        Ok(o) => l.outcome_with(&o, || json!({"case": case_id, "sizes": sizes, "fragment_size": fs})),
        Err((aspect, msg)) => {
            l.outcome(&format!("violation-{aspect}"));
            l.fail(case_id, vx_pix::xcode::merge(&class, json!({"aspect": aspect})), json!({"sizes": if sizes[0] > 1000 { vec![sizes[0]] } else { sizes.to_vec() }, "message": msg}));
        }
    }
}

fn size_lists() -> Vec<Vec<usize>> {
    let mut out: Vec<Vec<usize>> = vec![];
    for n in 1..=4usize {
        let total = FRAME_SIZES.len().pow(n as u32);
        for mut code in 0..total {
            let mut v = vec![];
            for _ in 0..n {
                v.push(FRAME_SIZES[code % FRAME_SIZES.len()]);
                code /= FRAME_SIZES.len();
            }
            out.push(v);
        }
    }
    out
}

fn run_helper(check: &Check) {
    let lists = size_lists();
    check.extra("helper_size_lists", json!(lists.len()));
    check.par_range(lists.len() as u64, |l, i| {
        let sizes = &lists[i as usize];
        for fs in FRAGMENT_SIZES {
            helper_case(l, &format!("helper/fragments/{i}/fs{fs}"), "Fragments::new+from", sizes, fs);
            if sizes.len() == 1 {
                helper_case(l, &format!("helper/single/{i}/fs{fs}"), "encapsulate_single_frame", sizes, fs);
            }
        }
        helper_case(l, &format!("helper/encapsulate/{i}"), "encapsulate", sizes, 0);
    });
    // boundary: 2^24 + 1 bytes (the fragment count is computed through f32)
    let big = (1usize << 24) + 1;
    let fss: Vec<u32> = if check.quick() { vec![0, 4096] } else { vec![0, 8, 4096, 1 << 24] };
    check.par_range(fss.len() as u64, |l, i| {
        let fs = fss[i as usize];
        helper_case(l, &format!("helper/big/fs{fs}"), "encapsulate_single_frame", &[big], fs);
    });
}

/// Objects built directly from an offset table (vx-ref) and fragments, with 1..3 fragments per
/// frame: the path of frame_pixel_data that gathers fragments by offsets.
fn run_manual(check: &Check) {
    let sizes = [1usize, 2, 4];
    let mut per_frame: Vec<Vec<usize>> = vec![];
    for n in 1..=3usize {
        for mut code in 0..sizes.len().pow(n as u32) {
            let mut v = vec![];
            for _ in 0..n {
                v.push(sizes[code % 3]);
                code /= 3;
            }
            per_frame.push(v);
        }
    }
    let max_frames = check.pick(2, 3);
    let mut lists: Vec<Vec<usize>> = vec![];
    for n in 1..=max_frames {
        for mut code in 0..per_frame.len().pow(n as u32) {
            let mut v = vec![];
            for _ in 0..n {
                v.push(code % per_frame.len());
                code /= per_frame.len();
            }
            lists.push(v);
        }
    }
    check.extra("manual_objects", json!(lists.len()));
    check.par_range(lists.len() as u64, |l, i| {
        let case_id = format!("manual/{i}");
        if !l.want(&case_id) {
            return;
        }
        l.eval();
        l.nontrivial(&case_id);
        let shape: Vec<&Vec<usize>> = lists[i as usize].iter().map(|&k| &per_frame[k]).collect();
        let mut frags: Vec<Vec<u8>> = vec![];
        for (fi, f) in shape.iter().enumerate() {
            for (gi, &len) in f.iter().enumerate() {
                frags.push((0..len).map(|k| (fi * 64 + gi * 16 + k + 1) as u8).collect());
            }
        }
        let written_lens: Vec<usize> = frags.iter().map(|f| f.len() + f.len() % 2).collect();
        let counts: Vec<usize> = shape.iter().map(|f| f.len()).collect();
        let table = offset_table(&written_lens, &counts);
        let obj = helper_object(DValue::PixelSequence(PixelFragmentSequence::new(table, frags.clone())), shape.len());
        let multi = counts.iter().any(|&c| c > 1);
        let class = json!({"part": "manual", "frames": shape.len(), "multiframe": shape.len() > 1, "multi_fragment": multi,
            "odd_fragment": frags.iter().any(|f| f.len() % 2 == 1)});
        // frame content is checked through frame_pixel_data against the in-memory fragments
        match check_encapsulated(&obj, None, shape.len(), !multi) {
            Ok(o) => l.outcome_with(&format!("manual-{o}"), || json!({"case": case_id, "fragments_per_frame": shape})),
            Err((aspect, msg)) => {
                l.outcome(&format!("violation-{aspect}"));
                l.fail(&case_id, merge(&class, json!({"aspect": aspect})), json!({"fragments_per_frame": shape, "message": msg}));
            }
        }
    });
}

/// Direct use of every registered pixel data writer: `encode` called k = 1..4 times on the SAME
/// `dst` / `offset_table` (documented to append), each call with a native image of 1..3 frames;
/// after every call the accumulated value is put into an object the way a caller of the adapter
/// API would (pixel data, Number of Frames, then the returned operations) and checked like every
/// other encapsulated value; `encode_frame` is driven frame by frame on a non-empty `dst`.
fn run_direct(check: &Check) {
    use dicom_core::ops::ApplyOp;
    use dicom_encoding::adapters::EncodeOptions;
    use dicom_encoding::TransferSyntaxIndex;
    use dicom_transfer_syntax_registry::TransferSyntaxRegistry;
    // (rows, cols, bits, spp): odd frame, even frame, 16 bit, colour (odd frame)
    let kinds: [(u16, u16, u16, u16); 4] = [(1, 1, 8, 1), (2, 1, 8, 1), (1, 1, 16, 1), (1, 1, 8, 3)];
    let mut seqs: Vec<Vec<u32>> = vec![];
    for k in 1..=4usize {
        for mut code in 0..3usize.pow(k as u32) {
            let mut v = vec![];
            for _ in 0..k {
                v.push((code % 3) as u32 + 1);
                code /= 3;
            }
            seqs.push(v);
        }
    }
    let targets = encoder_targets();
    let mut units = vec![];
    for (ti, t) in targets.iter().enumerate() {
        for (ki, k) in kinds.iter().enumerate() {
            for (si, sq) in seqs.iter().enumerate() {
                units.push((ti, *t, ki, *k, si, sq.clone()));
            }
        }
    }
    check.extra("direct_encode_sequences", json!(units.len()));
    let make = |kind: (u16, u16, u16, u16), frames: u32, call: usize| -> Img {
        let n = kind.0 as usize * kind.1 as usize * kind.3 as usize * frames as usize;
        let mut data = index_bytes(kind.2, n);
        for b in data.iter_mut() {
            *b = b.wrapping_add((call * 53) as u8) | 1;
        }
        Img::new(kind.0, kind.1, frames, kind.2, kind.3, data)
    };
    check.par_range(units.len() as u64, |l, i| {
        let (ti, target, ki, kind, si, sq) = &units[i as usize];
        let Some(writer) = TransferSyntaxRegistry.get(target).and_then(|t| t.pixel_data_writer()) else { return };
        let mut dst: Vec<Vec<u8>> = vec![];
        let mut table: Vec<u32> = vec![];
        let mut all_frames: Vec<Vec<u8>> = vec![];
        for (call, &nf) in sq.iter().enumerate() {
            let case_id = format!("direct/t{ti}/k{ki}/s{si}/call{call}");
            let wanted = l.want(&case_id);
            let img = make(*kind, nf, call);
            let src = img.to_obj(EXPLICIT_LE);
            let (d0, t0) = (dst.clone(), table.clone());
            let r = guard(|| writer.encode(&src, EncodeOptions::default(), &mut dst, &mut table).map_err(|e| short(format!("{e:?}"))));
            all_frames.extend(img.data.chunks(img.frame_bytes()).map(|c| c.to_vec()));
            if !wanted {
                if !matches!(r, Ok(Ok(_))) {
                    return;
                }
                continue;
            }
            l.eval();
            let class = json!({"part": "direct", "entry": "encode", "target": target, "calls": call + 1, "appending": call > 0,
                "frames_in_call": nf, "bits": kind.2, "spp": kind.3, "frame_bytes_odd": img.frame_bytes() % 2 == 1});
            let fail = |l: &mut Local, aspect: &str, msg: String| {
                l.outcome(&format!("violation-{aspect}"));
                l.fail(&case_id, merge(&class, json!({"aspect": aspect})), json!({"frames_per_call": sq, "image": img.label(), "message": msg}));
            };
            let ops = match r {
                Ok(Ok(ops)) => ops,
                Ok(Err(e)) => {
                    l.outcome_with("encoder-refused", || json!({"case": case_id, "error": e}));
                    return;
                }
                Err(p) => return fail(l, "encode-panic", p),
            };
            l.nontrivial(&case_id);
            let total = all_frames.len();
            if dst.len() != total || table.len() != total || dst[..d0.len()] != d0[..] || table[..t0.len()] != t0[..] {
                return fail(l, "append", format!("before the call {} fragments / table {t0:?}; after it {} fragments / table {table:?}; {total} frames encoded so far", d0.len(), dst.len()));
            }
            // assemble the object as a user of the adapter API would
            let mut obj = src.clone();
            obj.put(DataElement::new(Tag(0x7FE0, 0x0010), VR::OB, DValue::PixelSequence(PixelFragmentSequence::new(table.clone(), dst.clone()))));
            obj.put(DataElement::new(Tag(0x0028, 0x0008), VR::IS, dicom_core::PrimitiveValue::from(total.to_string())));
            for op in ops {
                if let Err(e) = guard(|| obj.apply(op).map_err(|e| short(format!("{e:?}")))).and_then(|r| r) {
                    return fail(l, "operation-not-applicable", e);
                }
            }
            if let Some(ts) = TransferSyntaxRegistry.get(target) {
                obj.meta_mut().set_transfer_syntax(ts);
            }
            let frames: Option<&[Vec<u8>]> = (*target == ENCAP_UNCOMPRESSED).then_some(&all_frames[..]);
            match check_encapsulated(&obj, frames, total, true) {
                Ok(o) => l.outcome_with(&format!("direct-{o}"), || json!({"case": case_id, "frames_per_call": sq, "target": target})),
                Err((aspect, msg)) => return fail(l, &aspect, msg),
            }
        }
    });
    // encode_frame: appends exactly the fragment of that frame to a non-empty buffer
    let mut funits = vec![];
    for (ti, t) in targets.iter().enumerate() {
        for (ki, k) in kinds.iter().enumerate() {
            for nf in 1..=3u32 {
                for prefix in [0usize, 3] {
                    funits.push((ti, *t, ki, *k, nf, prefix));
                }
            }
        }
    }
    check.par_range(funits.len() as u64, |l, i| {
        let (ti, target, ki, kind, nf, prefix) = funits[i as usize];
        let case_id = format!("direct-frame/t{ti}/k{ki}/f{nf}/p{prefix}");
        if !l.want(&case_id) {
            return;
        }
        l.eval();
        let Some(writer) = TransferSyntaxRegistry.get(target).and_then(|t| t.pixel_data_writer()) else { return };
        let img = make(kind, nf, 0);
        let src = img.to_obj(EXPLICIT_LE);
        let class = json!({"part": "direct", "entry": "encode_frame", "target": target, "frames_in_call": nf, "bits": kind.2, "spp": kind.3, "prefix": prefix});
        let (mut dst, mut table) = (vec![], vec![]);
        let whole = guard(|| writer.encode(&src, EncodeOptions::default(), &mut dst, &mut table).map(|_| ()).map_err(|e| short(format!("{e:?}"))));
        if !matches!(whole, Ok(Ok(()))) {
            l.outcome("encoder-refused");
            return;
        }
        l.nontrivial(&case_id);
        for f in 0..nf {
            let pre: Vec<u8> = [0xAA, 0xBB, 0xCC][..prefix].to_vec();
            let mut buf = pre.clone();
            let r = guard(|| writer.encode_frame(&src, f, EncodeOptions::default(), &mut buf).map(|_| ()).map_err(|e| short(format!("{e:?}"))));
            let ok = matches!(r, Ok(Ok(()))) && buf.len() >= prefix && buf[..prefix] == pre[..] && buf[prefix..] == dst[f as usize][..];
            if !ok {
                l.outcome("violation-encode-frame");
                l.fail(&case_id, merge(&class, json!({"aspect": "encode-frame"})), json!({"image": img.label(), "frame": f, "result": format!("{r:?}"),
                    "buffer": hex(&buf[..buf.len().min(40)]), "fragment_from_encode": hex(&dst[f as usize][..dst[f as usize].len().min(40)])}));
                return;
            }
        }
        l.outcome("direct-encode-frame-appends-the-fragment");
    });
}

fn run_transcode(check: &Check) {
    let imgs = images(check.pick(4, 6), true);
    let targets = encoder_targets();
    check.extra("transcode_images", json!(imgs.len()));
    check.extra("encoder_targets", json!(targets));
    check.par_range(imgs.len() as u64, |l, i| {
        let img = &imgs[i as usize];
        let base = img_class(img);
        for origin in ["api", "file"] {
            for (si, src) in NATIVE.iter().enumerate() {
                for (ti, target) in targets.iter().enumerate() {
                    let case_id = format!("transcode/img{i}/{origin}/src{si}/t{ti}");
                    if !l.want(&case_id) {
                        continue;
                    }
                    l.eval();
                    let class = merge(&base, json!({"part": "transcode", "origin": origin, "src_ts": src.0, "target": target}));
                    let mut obj = match guard(|| source_obj(img, origin, *src)) {
                        Ok(Ok(o)) => o,
                        other => {
                            l.check.machinery_error(&format!("C18 source object ({case_id}): {:?}", other.map(|r| r.err())));
                            continue;
                        }
                    };
                    match guard(|| transcode_to(&mut obj, target)) {
                        Ok(Ok(())) => {}
                        Ok(Err(e)) => {
                            // an encoder may refuse an image; nothing was encapsulated then
                            l.outcome_with("encoder-refused", || json!({"case": case_id, "image": img.label(), "target": target, "error": e}));
                            continue;
                        }
                        Err(p) => {
                            l.outcome("violation-encode-panic");
                            l.fail(&case_id, merge(&class, json!({"aspect": "encode-panic"})), json!({"image": img.label(), "message": p}));
                            continue;
                        }
                    }
                    l.nontrivial(&(img.label(), origin, src.0, target));
                    // uncompressed: the fragment of frame i must be frame i
                    let frames: Option<Vec<Vec<u8>>> =
                        (*target == ENCAP_UNCOMPRESSED).then(|| img.data.chunks(img.frame_bytes()).map(|c| c.to_vec()).collect());
                    match check_encapsulated(&obj, frames.as_deref(), img.frames as usize, true) {
                        Ok(o) => l.outcome_with(&o, || json!({"case": case_id, "image": img.label(), "target": target})),
                        Err((aspect, msg)) => {
                            l.outcome(&format!("violation-{aspect}"));
                            l.fail(&case_id, merge(&class, json!({"aspect": aspect})), json!({"image": img.label(), "message": msg}));
                        }
                    }
                }
            }
        }
    });
}

fn main() {
    let check = Check::from_args("C18", Level::Exploration);
    check.set_rule("helper part: every list of 1..4 frames with sizes from {1,2,3,4,7,8} x fragment size {0,1,2,3,4,8} through Fragments::new + From<Vec<Fragments>>, encapsulate (fragment size 0) and encapsulate_single_frame (one frame), plus one frame of 2^24+1 bytes; manual part: objects of 1..2 (thorough: 3) frames with 1..3 fragments each of 1|2|4 bytes and the offset table computed by vx-ref (frame_pixel_data gathering fragments by offsets); direct part: PixelDataWriter::encode of every registry entry with a writer called k = 1..4 times on the same dst/offset_table with 1..3 frames per call (120 call sequences) x 4 image kinds (odd/even frame, 16 bit, colour), checked after every call, and encode_frame frame by frame on an empty and a non-empty buffer; transcoding part: the C19 image universe x origin {API, vx-ref file} x 3 native source syntaxes x every registry entry with a pixel data encoder; each result is put in an object, written, parsed by the strict vx-ref parser and compared with the in-memory value; a case is distinct by its id; non-trivial = an encapsulated value was produced");
    check.assume("vx-ref strict parser and offset computation (PS3.5 A.4) are the trusted base; several frames with several fragments each is a documented panic of the helper and is not counted as a violation; Encapsulated Pixel Data Value Total Length may count padded or unpadded fragment lengths");
    run_helper(&check);
    run_manual(&check);
    run_direct(&check);
    run_transcode(&check);
    check.finish();
}
