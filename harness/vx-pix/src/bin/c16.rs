//! C16 — every registered transfer syntax is described consistently (two feature sets).
#[path = "../c16probe.rs"]
mod c16probe;

use std::collections::{BTreeMap, BTreeSet};
use vx_kit::{json, Check, Level, Local, Value};
use vx_ref::ds::{self, RElem, Ts};

/// UIDs and constant names listed in transfer-syntax-registry/src/entries.rs (the source of truth
/// for "every registry entry"), extracted textually.
fn entries_from_source() -> Result<(BTreeSet<String>, BTreeSet<String>), String> {
    let repo = std::env::var("VERIF_REPO").unwrap_or_else(|_| "/repo".into());
    let p = format!("{repo}/transfer-syntax-registry/src/entries.rs");
    let txt = std::fs::read_to_string(&p).map_err(|e| format!("{p}: {e}"))?;
    let mut uids = BTreeSet::new();
    let mut names = BTreeSet::new();
    for line in txt.lines() {
        let t = line.trim_start();
        if let Some(rest) = t.strip_prefix("pub const ") {
            if let Some(n) = rest.split(':').next() {
                names.insert(n.trim().to_string());
            }
        }
        let mut s = line;
        while let Some(i) = s.find("\"1.2.840.10008.1.2") {
            let r = &s[i + 1..];
            let end = r.find('"').unwrap_or(r.len());
            uids.insert(r[..end].to_string());
            s = &r[end..];
        }
    }
    Ok((uids, names))
}

fn expected_ts(uid: &str) -> Ts {
    match uid {
        "1.2.840.10008.1.2" => Ts::ImplicitLE,
        "1.2.840.10008.1.2.2" => Ts::ExplicitBE,
        _ => Ts::ExplicitLE,
    }
}

fn ref_element(tag: (u16, u16)) -> RElem {
    match tag {
        (0x0008, 0x0060) => RElem::prim(tag, "CS", b"CT"),
        (0x0028, 0x0010) => RElem::prim(tag, "US", &0x0102u16.to_le_bytes()),
        (0x7FE0, 0x0010) => RElem::prim(tag, "OW", &[0x02, 0x01, 0x04, 0x03]),
        _ => unreachable!(),
    }
}

fn hex(b: &[u8]) -> String {
    b.iter().map(|x| format!("{x:02X}")).collect::<Vec<_>>().join("")
}

/// truth table written from the method docs of `TransferSyntax`
fn truth(codec: &str, adapter: bool, reader: bool, writer: bool) -> BTreeMap<&'static str, bool> {
    let mut m = BTreeMap::new();
    let (none, ds, enc) = (codec == "None", codec == "Dataset", codec == "EncapsulatedPixelData");
    // complete implementation: can both decode and encode in this transfer syntax
    m.insert("is_fully_supported", none || (ds && adapter) || (enc && reader && writer));
    // no codecs are required
    m.insert("is_codec_free", none);
    // neither reading nor writing of data sets is supported
    m.insert("is_unsupported", ds && !adapter);
    // expects pixel data to be encapsulated
    m.insert("is_encapsulated_pixel_data", enc);
    // reading and writing the pixel data is unsupported
    m.insert("is_unsupported_pixel_encapsulation", (ds && !adapter) || (enc && !reader && !writer));
    // can fully decode both data sets and pixel data
    m.insert("can_decode_all", none || (ds && adapter) || (enc && reader));
    // can decode the data set
    m.insert("can_decode_dataset", none || (ds && adapter) || enc);
    m
}

fn check_build(l: &mut Local, build: &str, obs: &Value, src_uids: &BTreeSet<String>, src_names: &BTreeSet<String>) {
    let entries = obs["entries"].as_array().cloned().unwrap_or_default();
    let fail = |l: &mut Local, case: &str, uid: &str, aspect: &str, msg: String| {
        l.outcome(&format!("violation-{aspect}"));
        l.fail(case, json!({"build": build, "aspect": aspect, "uid": uid}), json!({"message": msg}));
    };
    // registry-level: uniqueness and agreement with the source list
    let case = format!("{build}/registry");
    if l.want(&case) {
        l.eval();
        l.nontrivial(&case);
        let uids: Vec<String> = entries.iter().map(|e| e["uid"].as_str().unwrap_or("").to_string()).collect();
        let set: BTreeSet<String> = uids.iter().cloned().collect();
        let mut ok = true;
        if set.len() != uids.len() || obs["count"].as_u64() != Some(uids.len() as u64) {
            ok = false;
            fail(l, &case, "*", "uid-unique", format!("{} entries, {} distinct UIDs", uids.len(), set.len()));
        }
        if &set != src_uids {
            ok = false;
            let missing: Vec<_> = src_uids.difference(&set).collect();
            let extra: Vec<_> = set.difference(src_uids).collect();
            fail(l, &case, "*", "entries-vs-source", format!("in entries.rs but not registered: {missing:?}; registered but not in entries.rs: {extra:?}"));
        }
        if src_names.len() != src_uids.len() {
            ok = false;
            fail(l, &case, "*", "uid-unique", format!("entries.rs declares {} constants but {} distinct UIDs", src_names.len(), src_uids.len()));
        }
        for (k, v) in obs["unknown_lookups"].as_object().cloned().unwrap_or_default() {
            if !v.is_null() {
                ok = false;
                fail(l, &case, "*", "lookup-unknown", format!("lookup of unregistered UID (hex {k}) returned {v}"));
            }
        }
        if ok {
            l.outcome_with("registry-consistent", || json!({"build": build, "entries": uids.len()}));
        }
    }
    for e in &entries {
        let uid = e["uid"].as_str().unwrap_or("").to_string();
        let codec = e["codec"].as_str().unwrap_or("");
        let (adapter, reader, writer) = (e["dataset_adapter"] == true, e["reader"] == true, e["writer"] == true);
        // 1. lookup with every suffix
        for (sfx, got) in e["lookups"].as_object().cloned().unwrap_or_default() {
            let case = format!("{build}/{uid}/lookup/{sfx}");
            if !l.want(&case) {
                continue;
            }
            l.eval();
            l.nontrivial(&case);
            if got.as_str() == Some(uid.as_str()) {
                l.outcome("lookup-ok");
            } else {
                fail(l, &case, &uid, "lookup", format!("get(uid + hex {sfx:?}) returned {got}"));
            }
        }
        // 2. flags, capability truth table, codec accessors
        let case = format!("{build}/{uid}/describe");
        if l.want(&case) {
            l.eval();
            l.nontrivial(&case);
            let mut ok = true;
            let want_big = uid == "1.2.840.10008.1.2.2";
            if e["big_endian"].as_bool() != Some(want_big) {
                ok = false;
                fail(l, &case, &uid, "endianness", format!("endianness() big = {}", e["big_endian"]));
            }
            for (q, want) in truth(codec, adapter, reader, writer) {
                if e["q"][q].as_bool() != Some(want) {
                    ok = false;
                    fail(l, &case, &uid, "capability", format!("{q}() = {} but codec is {codec}(adapter={adapter}, reader={reader}, writer={writer}) => expected {want}", e["q"][q]));
                }
            }
            if e["pixel_data_reader_some"].as_bool() != Some(reader) || e["pixel_data_writer_some"].as_bool() != Some(writer) {
                ok = false;
                fail(l, &case, &uid, "capability", format!("pixel_data_reader/writer().is_some() = {}/{} but codec holds reader={reader} writer={writer}", e["pixel_data_reader_some"], e["pixel_data_writer_some"]));
            }
            if codec == "Dataset" && adapter && e["adapter_roundtrip"]["same"] != true {
                ok = false;
                fail(l, &case, &uid, "dataset-adapter", format!("bytes through adapt_writer/adapt_reader: {}", e["adapter_roundtrip"]));
            }
            if ok {
                l.outcome_with(&format!("described-{codec}-a{}r{}w{}", adapter as u8, reader as u8, writer as u8), || json!({"build": build, "uid": uid, "name": e["name"]}));
            }
        }
        // 3. data set decoder/encoder present and really of the right syntax
        let case = format!("{build}/{uid}/dataset-codec");
        if l.want(&case) {
            l.eval();
            l.nontrivial(&case);
            let can = e["q"]["can_decode_dataset"] == true;
            if !can {
                l.outcome("dataset-not-decodable");
                continue;
            }
            let mut ok = true;
            if e["decoder_some"] != true || e["encoder_some"] != true || e["decoder_plain_some"] != true || e["encoder_plain_some"] != true {
                ok = false;
                fail(l, &case, &uid, "codec-missing", format!("can_decode_dataset but decoder_for={} encoder_for={} decoder={} encoder={}", e["decoder_some"], e["encoder_some"], e["decoder_plain_some"], e["encoder_plain_some"]));
            }
            let ts = expected_ts(&uid);
            let elems = e["elements"].as_array().cloned().unwrap_or_default();
            if ok && elems.len() != 3 {
                ok = false;
                fail(l, &case, &uid, "element-roundtrip", "probe elements missing".into());
            }
            for el in &elems {
                let tag = (el["tag"][0].as_u64().unwrap_or(0) as u16, el["tag"][1].as_u64().unwrap_or(0) as u16);
                if let Some(err) = el["error"].as_str() {
                    ok = false;
                    fail(l, &case, &uid, "element-roundtrip", format!("{tag:04X?}: {err}"));
                    continue;
                }
                let r = ref_element(tag);
                let want = hex(&ds::encode_items(ts, std::slice::from_ref(&r)));
                let hdr = ds::header_size(ts, r.vr);
                let want_vr = if ts.explicit() { ds::vr_str(r.vr) } else if tag == (0x7FE0, 0x0010) { "OW".to_string() } else { ds::vr_str(r.vr) };
                let value_hex = want[hdr * 2..].to_string();
                let mut problems = vec![];
                if el["encoded"].as_str() != Some(want.as_str()) {
                    problems.push(format!("encoded {} expected {} ({:?})", el["encoded"], want, ts));
                }
                if el["header_bytes_reported"].as_u64() != Some(hdr as u64) || el["decoded_header_bytes"].as_u64() != Some(hdr as u64) {
                    problems.push(format!("header byte counts {} / {} expected {hdr}", el["header_bytes_reported"], el["decoded_header_bytes"]));
                }
                if el["decoded_tag"] != el["tag"] || el["decoded_len"].as_u64() != Some((value_hex.len() / 2) as u64) || el["decoded_value"].as_str() != Some(value_hex.as_str()) {
                    problems.push(format!("decoded tag/len/value {} {} {}", el["decoded_tag"], el["decoded_len"], el["decoded_value"]));
                }
                if el["decoded_vr"].as_str() != Some(want_vr.as_str()) {
                    problems.push(format!("decoded VR {} expected {want_vr}", el["decoded_vr"]));
                }
                if tag == (0x0028, 0x0010) && el["decoded_us"].as_u64() != Some(0x0102) {
                    problems.push(format!("basic decoder read US {} expected 258", el["decoded_us"]));
                }
                if !problems.is_empty() {
                    ok = false;
                    fail(l, &case, &uid, "element-roundtrip", format!("{tag:04X?}: {}", problems.join("; ")));
                }
            }
            if ok {
                l.outcome_with(&format!("dataset-codec-{ts:?}"), || json!({"build": build, "uid": uid}));
            }
        }
    }
}

fn main() {
    let check = Check::from_args("C16", Level::Exploration);
    check.set_rule("every entry of TransferSyntaxRegistry::iter() in two builds (registry default features, observed by the separately built c16_default probe; tools' features rle+jpeg+deflate, observed in-process) x {5 UID suffixes, flag/capability description, data set codec with 3 probe elements}; plus registry-level uniqueness against the constants of entries.rs and 8 unregistered look-ups; a case is distinct by (build, uid, aspect[, suffix])");
    check.assume("the probe (c16probe.rs) only records observations; expectations are written in c16.rs from PS3.5 (which UID is implicit / big endian), vx-ref element encoding and the TransferSyntax method docs");
    let (src_uids, src_names) = match entries_from_source() {
        Ok(x) => x,
        Err(e) => vx_kit::report::machinery(&format!("cannot read entries.rs: {e}")),
    };
    check.extra("entries_rs_constants", json!(src_names.len()));
    let tools = c16probe::probe();
    // the default-feature probe is a sibling binary built by pre/c16.sh
    let exe = std::env::current_exe().unwrap();
    let sib = exe.parent().unwrap().join("c16_default");
    let out = std::process::Command::new(&sib).output().unwrap_or_else(|e| vx_kit::report::machinery(&format!("cannot run {}: {e}", sib.display())));
    if !out.status.success() {
        vx_kit::report::machinery(&format!("{} exited with {:?}", sib.display(), out.status));
    }
    let default: Value = serde_json::from_slice(&out.stdout).unwrap_or_else(|e| vx_kit::report::machinery(&format!("c16_default output: {e}")));
    let summary = |o: &Value| -> Value {
        let mut m: BTreeMap<String, u64> = BTreeMap::new();
        for e in o["entries"].as_array().unwrap() {
            *m.entry(format!("{}(a={},r={},w={})", e["codec"].as_str().unwrap(), e["dataset_adapter"], e["reader"], e["writer"])).or_insert(0) += 1;
        }
        json!(m)
    };
    check.extra("codec_kinds_default_features", summary(&default));
    check.extra("codec_kinds_tools_features", summary(&tools));
    if summary(&default) == summary(&tools) {
        check.machinery_error("the two builds offer identical codecs: the default-feature probe was not built with default features");
    }
    {
        let mut l = check.local();
        check_build(&mut l, "default-features", &default, &src_uids, &src_names);
        check_build(&mut l, "tools-features", &tools, &src_uids, &src_names);
    }
    check.finish();
}
