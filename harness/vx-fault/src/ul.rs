//! C34, upper-layer part (filled in below).
use vx_kit::Check;
pub fn run(_check: &Check) {}
