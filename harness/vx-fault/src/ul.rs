//! C34, upper-layer part: write_pdu, read_pdu_from_wire(_async), association establish / send /
//! receive / release / abort (client and server, sync and async, through the `verif-hooks`
//! generic-transport constructors), PDataWriter::{write, finish}, AsyncPDataWriter, PDataReader.
//!
//! Every operation runs over a scripted duplex transport (a `SpyRead` fed with reference-encoded
//! PDUs and a `TapWrite`); faults are injected on the write side (Err at call i, Err after b bytes,
//! Ok(0) at call i) and on the read side (Err at call i, Err after b bytes). The async transports
//! are always ready (Pending is the subject of C26/C27, not a failure).

use crate::*;
use bytes::BytesMut;
use dicom_ul::association::{
    read_pdu_from_wire, read_pdu_from_wire_async, AsyncAssociation, AsyncPDataWriter, CloseSocket, PDataReader, PDataWriter,
    SyncAssociation,
};
use dicom_ul::pdu::Pdu;
use dicom_ul::{read_pdu, write_pdu, ClientAssociationOptions, ServerAssociationOptions};
use std::pin::Pin;
use std::sync::OnceLock;
use std::task::{Context, Poll};
use tokio::io::{AsyncRead, AsyncReadExt, AsyncWrite, AsyncWriteExt, ReadBuf};
use vx_kit::Check;
use vx_ref::pdu::{self as rp, RAssocHead, RPcAc, RPcRq, RPdu, RPdv, RUserItem};

const ABSTRACT: &str = "1.2.840.10008.1.1";
const IMPLICIT: &str = "1.2.840.10008.1.2";
/// maximum PDU length used on both sides (so that the ~20 KiB P-DATA PDU is admissible)
const MAXLEN: u32 = 32_768 - 6;
const SMALL_MAX: u32 = 1_024 - 6;

// ---------------------------------------------------------------------------------------------
// transports
// ---------------------------------------------------------------------------------------------

pub struct Duplex {
    pub r: SpyRead,
    pub w: TapWrite,
}
impl Read for Duplex {
    fn read(&mut self, buf: &mut [u8]) -> io::Result<usize> {
        self.r.read(buf)
    }
}
impl Write for Duplex {
    fn write(&mut self, buf: &[u8]) -> io::Result<usize> {
        self.w.write(buf)
    }
    fn flush(&mut self) -> io::Result<()> {
        self.w.flush()
    }
}
impl CloseSocket for Duplex {
    fn close(&mut self) -> io::Result<()> {
        Ok(())
    }
}

/// Always-ready async view of a scripted reader.
pub struct ARead(pub SpyRead);
impl AsyncRead for ARead {
    fn poll_read(mut self: Pin<&mut Self>, _cx: &mut Context<'_>, buf: &mut ReadBuf<'_>) -> Poll<io::Result<()>> {
        let dst = buf.initialize_unfilled();
        match self.0.read(dst) {
            Ok(n) => {
                buf.advance(n);
                Poll::Ready(Ok(()))
            }
            Err(e) => Poll::Ready(Err(e)),
        }
    }
}
/// Always-ready async view of a scripted writer.
pub struct AWrite(pub TapWrite);
impl AsyncWrite for AWrite {
    fn poll_write(mut self: Pin<&mut Self>, _cx: &mut Context<'_>, buf: &[u8]) -> Poll<io::Result<usize>> {
        Poll::Ready(self.0.write(buf))
    }
    fn poll_flush(mut self: Pin<&mut Self>, _cx: &mut Context<'_>) -> Poll<io::Result<()>> {
        Poll::Ready(self.0.flush())
    }
    fn poll_shutdown(self: Pin<&mut Self>, _cx: &mut Context<'_>) -> Poll<io::Result<()>> {
        Poll::Ready(Ok(()))
    }
}
pub struct ADuplex {
    pub r: ARead,
    pub w: AWrite,
}
impl AsyncRead for ADuplex {
    fn poll_read(mut self: Pin<&mut Self>, cx: &mut Context<'_>, buf: &mut ReadBuf<'_>) -> Poll<io::Result<()>> {
        Pin::new(&mut self.r).poll_read(cx, buf)
    }
}
impl AsyncWrite for ADuplex {
    fn poll_write(mut self: Pin<&mut Self>, cx: &mut Context<'_>, buf: &[u8]) -> Poll<io::Result<usize>> {
        Pin::new(&mut self.w).poll_write(cx, buf)
    }
    fn poll_flush(mut self: Pin<&mut Self>, cx: &mut Context<'_>) -> Poll<io::Result<()>> {
        Pin::new(&mut self.w).poll_flush(cx)
    }
    fn poll_shutdown(mut self: Pin<&mut Self>, cx: &mut Context<'_>) -> Poll<io::Result<()>> {
        Pin::new(&mut self.w).poll_shutdown(cx)
    }
}

fn rt() -> &'static tokio::runtime::Runtime {
    static RT: OnceLock<tokio::runtime::Runtime> = OnceLock::new();
    // multi-thread flavour: `Drop for AsyncPDataWriter` calls `block_in_place`
    RT.get_or_init(|| tokio::runtime::Builder::new_multi_thread().worker_threads(2).enable_all().build().expect("tokio runtime"))
}
fn block<F: std::future::Future>(f: F) -> F::Output {
    rt().block_on(f)
}

// ---------------------------------------------------------------------------------------------
// duplex fault enumeration
// ---------------------------------------------------------------------------------------------

struct DRun {
    result: Result<Result<(), String>, String>,
    w_fired: bool,
    r_fired: bool,
    accepted: Vec<u8>,
    w_calls: usize,
    w_log: Vec<(bool, usize)>,
    r_calls: usize,
    delivered: usize,
}

fn run_duplex<F>(op: &F, input: &[u8], segs: &[usize], wf: Option<WriteFault>, rf: Option<ReadFault>) -> DRun
where
    F: Fn(SpyRead, TapWrite) -> Result<(), String>,
{
    let mut sr = if segs.is_empty() { ScriptRead::whole(input.to_vec()) } else { ScriptRead::segmented(input.to_vec(), segs.to_vec()) };
    match rf {
        Some(ReadFault::ErrAtCall(i)) => sr.fail_at_call = Some(i),
        Some(ReadFault::ErrAfterBytes(b)) => sr.fail_after_bytes = Some(b),
        None => {}
    }
    let fired = Arc::new(AtomicBool::new(false));
    let calls = Arc::new(Mutex::new(0usize));
    let delivered = Arc::new(Mutex::new(0usize));
    let spy = SpyRead { inner: sr, fired: fired.clone(), calls: calls.clone(), delivered: delivered.clone() };
    let w = TapWrite::new(wf);
    let h = w.clone();
    let result = guard(|| op(spy, w));
    let w_log = h.log.lock().unwrap().clone();
    let r_calls = *calls.lock().unwrap();
    let d = *delivered.lock().unwrap();
    DRun {
        result,
        w_fired: h.inner.fault_fired(),
        r_fired: fired.load(Ordering::SeqCst),
        accepted: h.inner.bytes(),
        w_calls: h.inner.call_count(),
        w_log,
        r_calls,
        delivered: d,
    }
}

#[derive(Clone, Copy)]
enum DFault {
    W(WriteFault),
    R(ReadFault),
}

/// Enumerate every write and read fault point of one operation over a duplex transport.
pub fn enumerate_duplex<F, V>(l: &mut Local, base_id: &str, class: &Value, all_limit: usize, input: &[u8], segs: &[usize], op: &F, validate: &V)
where
    F: Fn(SpyRead, TapWrite) -> Result<(), String>,
    V: Fn(&[u8]) -> Result<(), String>,
{
    let r0 = run_duplex(op, input, segs, None, None);
    match &r0.result {
        Ok(Ok(())) => {}
        Ok(Err(e)) => {
            l.check.machinery_error(&format!("{base_id}: fault-free run returned Err: {}", short(e)));
            return;
        }
        Err(p) => {
            l.check.machinery_error(&format!("{base_id}: fault-free run panicked: {}", short(p)));
            return;
        }
    }
    if let Err(m) = validate(&r0.accepted) {
        l.check.machinery_error(&format!("{base_id}: fault-free output does not parse: {}", short(&m)));
        return;
    }
    let free_id = format!("{base_id}/free");
    if l.want(&free_id) {
        l.eval();
        l.outcome_with("fault-free-ok", || {
            json!({"case": free_id, "write_calls": r0.w_calls, "written": r0.accepted.len(), "read_calls": r0.r_calls, "read": r0.delivered})
        });
    }
    let mut plan: Vec<DFault> = vec![];
    let wb: Vec<usize> = r0.w_log.iter().map(|x| x.1).collect();
    for i in 0..r0.w_calls {
        plan.push(DFault::W(WriteFault::ErrAtCall(i)));
    }
    for b in byte_points(r0.accepted.len(), &wb, all_limit) {
        plan.push(DFault::W(WriteFault::ErrAfterBytes(b)));
    }
    for i in 0..r0.w_calls {
        plan.push(DFault::W(WriteFault::ZeroAtCall(i)));
    }
    for i in 0..r0.r_calls {
        plan.push(DFault::R(ReadFault::ErrAtCall(i)));
    }
    let mut rbounds: Vec<usize> = vec![];
    let mut acc = 0;
    for s in segs {
        acc += s;
        rbounds.push(acc);
    }
    rbounds.extend((0..=r0.delivered / 8192).map(|k| k * 8192));
    for b in byte_points(r0.delivered, &rbounds, all_limit) {
        plan.push(DFault::R(ReadFault::ErrAfterBytes(b)));
    }
    for f in plan {
        let (label, dir, kind) = match f {
            DFault::W(w) => (fault_label(w), "write", fault_kind(w)),
            DFault::R(r) => (
                read_fault_label(r),
                "read",
                match r {
                    ReadFault::ErrAtCall(_) => "err-at-call",
                    ReadFault::ErrAfterBytes(_) => "err-after-bytes",
                },
            ),
        };
        let case_id = format!("{base_id}/{label}");
        if !l.want(&case_id) {
            continue;
        }
        l.eval();
        let run = match f {
            DFault::W(w) => run_duplex(op, input, segs, Some(w), None),
            DFault::R(r) => run_duplex(op, input, segs, None, Some(r)),
        };
        let fired = run.w_fired || run.r_fired;
        if run.w_fired {
            crate::fired(2);
        }
        if run.r_fired {
            crate::fired(3);
        }
        let call_kind = match f {
            DFault::W(WriteFault::ErrAtCall(i)) | DFault::W(WriteFault::ZeroAtCall(i)) => {
                if r0.w_log.get(i).map(|x| x.0).unwrap_or(false) { "flush" } else { "write" }
            }
            DFault::W(_) => "write",
            DFault::R(_) => "read",
        };
        let cls = |extra: Value| merge(&merge(class, json!({"dir": dir, "fault": kind, "fault_call": call_kind})), extra);
        let detail = |msg: &str| {
            json!({"fault": label, "fault_free": {"write_calls": r0.w_calls, "written": r0.accepted.len(), "read_calls": r0.r_calls, "read": r0.delivered},
                   "this_run": {"write_calls": run.w_calls, "written": run.accepted.len(), "read_calls": run.r_calls, "read": run.delivered},
                   "message": msg, "input_head": hex_head(input), "fault_free_output_head": hex_head(&r0.accepted)})
        };
        match &run.result {
            Err(p) => {
                l.nontrivial(&case_id);
                l.outcome(&format!("{dir}-fault/panic"));
                l.fail(&case_id, cls(json!({"kind": "panic"})), detail(&short(p)));
            }
            Ok(Ok(())) if fired => {
                l.nontrivial(&case_id);
                l.outcome(&format!("{dir}-fault/ok-despite-fault"));
                l.fail(
                    &case_id,
                    cls(json!({"kind": "ok-despite-fault", "accepted_all_bytes": run.accepted == r0.accepted})),
                    detail("operation sequence returned Ok although the transport failed"),
                );
            }
            Ok(Err(e)) if fired => {
                l.nontrivial(&case_id);
                l.outcome_with(&format!("{dir}-fault/err-reported"), || json!({"case": case_id, "error": short(e)}));
            }
            Ok(Ok(())) => {
                if run.accepted != r0.accepted || run.delivered != r0.delivered {
                    l.nontrivial(&case_id);
                    l.outcome(&format!("{dir}-fault/ok-on-truncated-transfer"));
                    l.fail(&case_id, cls(json!({"kind": "ok-on-truncated-transfer"})), detail("Ok returned with fewer bytes transferred than the fault-free run and no Err seen"));
                } else {
                    l.outcome(&format!("{dir}-fault/not-reached-ok"));
                }
            }
            Ok(Err(e)) => match f {
                DFault::R(_) => l.outcome("read-fault/err-before-fault-point"),
                DFault::W(_) => l.check.machinery_error(&format!("{case_id}: fault not fired but operation returned Err: {}", short(e))),
            },
        }
    }
}

fn err_s<E: std::fmt::Debug>(e: E) -> String {
    format!("{e:?}").chars().take(240).collect()
}

// ---------------------------------------------------------------------------------------------
// PDUs
// ---------------------------------------------------------------------------------------------

fn noise(n: usize) -> Vec<u8> {
    let mut x: u32 = 0x1234_5678;
    (0..n)
        .map(|_| {
            x = x.wrapping_mul(1_664_525).wrapping_add(1_013_904_223);
            (x >> 24) as u8
        })
        .collect()
}

fn user_items() -> Vec<RUserItem> {
    vec![
        RUserItem::MaxLength(MAXLEN),
        RUserItem::ImplClassUid(b"1.2.3.4".to_vec()),
        RUserItem::ImplVersionName(b"VXFAULT".to_vec()),
    ]
}

fn arq() -> RPdu {
    let mut head = RAssocHead::new("ANY-SCP", "VX-SCU");
    head.user_info = Some(user_items());
    RPdu::AssociateRq {
        head,
        pcs: vec![RPcRq { id: 1, abstract_syntax: ABSTRACT.as_bytes().to_vec(), transfer_syntaxes: vec![IMPLICIT.as_bytes().to_vec()] }],
    }
}
fn aac() -> RPdu {
    let mut head = RAssocHead::new("ANY-SCP", "VX-SCU");
    head.user_info = Some(user_items());
    RPdu::AssociateAc { head, pcs: vec![RPcAc { id: 1, result: 0, transfer_syntax: IMPLICIT.as_bytes().to_vec() }] }
}

/// (name, PDU) for each PDU kind
pub fn pdus() -> Vec<(&'static str, RPdu)> {
    vec![
        ("ARQ", arq()),
        ("AAC", aac()),
        ("ARJ", RPdu::AssociateRj { result: 1, source: 1, reason: 1 }),
        ("DATA-1", RPdu::PData(vec![RPdv::new(1, false, true, vec![1, 2, 3, 4, 5, 6])])),
        ("DATA-2pdv", RPdu::PData(vec![RPdv::new(1, true, true, vec![9; 10]), RPdv::new(1, false, false, vec![7; 5])])),
        ("DATA-20k", RPdu::PData(vec![RPdv::new(1, false, true, noise(20_000))])),
        ("RRQ", RPdu::ReleaseRq),
        ("RRP", RPdu::ReleaseRp),
        ("ABORT", RPdu::Abort { source: 2, reason: 0 }),
    ]
}

fn enc(p: &RPdu) -> Vec<u8> {
    rp::encode(p).expect("reference encode")
}

/// dicom-ul value of a reference PDU (obtained the way users obtain one: by decoding)
fn to_ul(p: &RPdu) -> Pdu {
    let b = enc(p);
    read_pdu(&mut &b[..], MAXLEN, true).expect("reference PDU decodes").expect("complete PDU")
}

fn kind_of(p: &Pdu) -> &'static str {
    match p {
        Pdu::AssociationRQ(_) => "ARQ",
        Pdu::AssociationAC(_) => "AAC",
        Pdu::AssociationRJ(_) => "ARJ",
        Pdu::PData { .. } => "DATA",
        Pdu::ReleaseRQ => "RRQ",
        Pdu::ReleaseRP => "RRP",
        Pdu::AbortRQ { .. } => "ABORT",
        Pdu::Unknown { .. } => "UNK",
    }
}

fn pdata_bytes(p: &Pdu) -> Vec<u8> {
    match p {
        Pdu::PData { data } => data.iter().flat_map(|v| v.data.clone()).collect(),
        _ => vec![],
    }
}
fn rpdata_bytes(p: &RPdu) -> Vec<u8> {
    match p {
        RPdu::PData(v) => v.iter().flat_map(|v| v.data.clone()).collect(),
        _ => vec![],
    }
}

/// the written stream must parse (strictly) into PDUs of exactly these kinds, with nothing left over
fn expect_kinds(bytes: &[u8], kinds: &[&str]) -> Result<Vec<RPdu>, String> {
    let (ps, rest) = rp::parse_stream(bytes, &rp::ParseOpts::default())?;
    if rest != 0 {
        return Err(format!("{rest} trailing bytes"));
    }
    let got: Vec<&str> = ps.iter().map(|p| p.kind()).collect();
    if got != kinds {
        return Err(format!("PDU kinds {got:?}, expected {kinds:?}"));
    }
    Ok(ps)
}

fn check_received(got: &Pdu, want: &RPdu) -> Result<(), String> {
    if kind_of(got) != want.kind() {
        return Err(format!("received {} expected {}", kind_of(got), want.kind()));
    }
    if pdata_bytes(got) != rpdata_bytes(want) {
        return Err("received P-DATA bytes differ".into());
    }
    Ok(())
}

// ---------------------------------------------------------------------------------------------
// jobs
// ---------------------------------------------------------------------------------------------

#[derive(Clone, Copy, Debug, PartialEq, Eq)]
pub enum Side {
    Client,
    Server,
}
#[derive(Clone, Copy, Debug, PartialEq, Eq)]
pub enum AOp {
    Establish,
    Send(usize),
    Receive(usize),
    Release,
    Abort,
    SendPdata,
    ReceivePdata,
}

pub enum Job {
    WritePdu(usize),
    ReadWire { pdu: usize, asynchronous: bool },
    ReadWireTwo { asynchronous: bool },
    Assoc { side: Side, asynchronous: bool, op: AOp },
    PDataWrite { asynchronous: bool, len: usize },
    PDataRead { asynchronous: bool, shape: usize },
}

pub fn jobs() -> Vec<Job> {
    let n = pdus().len();
    let mut j = vec![];
    for i in 0..n {
        j.push(Job::WritePdu(i));
        for a in [false, true] {
            j.push(Job::ReadWire { pdu: i, asynchronous: a });
        }
    }
    for a in [false, true] {
        j.push(Job::ReadWireTwo { asynchronous: a });
        for side in [Side::Client, Side::Server] {
            j.push(Job::Assoc { side, asynchronous: a, op: AOp::Establish });
            for i in 0..n {
                // PDUs an established association may carry (the association PDUs are sent by establish)
                if i >= 3 {
                    j.push(Job::Assoc { side, asynchronous: a, op: AOp::Send(i) });
                    j.push(Job::Assoc { side, asynchronous: a, op: AOp::Receive(i) });
                }
            }
            for op in [AOp::Release, AOp::Abort, AOp::SendPdata, AOp::ReceivePdata] {
                j.push(Job::Assoc { side, asynchronous: a, op });
            }
        }
        // P-Data writer: empty, one byte, exactly one full PDU, one byte more, three PDUs
        let cap = (SMALL_MAX - 6) as usize;
        for len in [0usize, 1, cap, cap + 1, 2 * cap + 37] {
            j.push(Job::PDataWrite { asynchronous: a, len });
        }
        for shape in 0..3 {
            j.push(Job::PDataRead { asynchronous: a, shape });
        }
    }
    j
}

pub fn job_name(j: &Job) -> String {
    let names: Vec<&str> = pdus().iter().map(|p| p.0).collect();
    let sa = |a: bool| if a { "async" } else { "sync" };
    match j {
        Job::WritePdu(i) => format!("write_pdu/{}", names[*i]),
        Job::ReadWire { pdu, asynchronous } => format!("read_pdu_from_wire{}/{}", if *asynchronous { "_async" } else { "" }, names[*pdu]),
        Job::ReadWireTwo { asynchronous } => format!("read_pdu_from_wire{}/two-pdus", if *asynchronous { "_async" } else { "" }),
        Job::Assoc { side, asynchronous, op } => {
            let o = match op {
                AOp::Establish => "establish".to_string(),
                AOp::Send(i) => format!("send/{}", names[*i]),
                AOp::Receive(i) => format!("receive/{}", names[*i]),
                AOp::Release => "release".into(),
                AOp::Abort => "abort".into(),
                AOp::SendPdata => "send_pdata+finish".into(),
                AOp::ReceivePdata => "receive_pdata".into(),
            };
            format!("{side:?}-{}/{o}", sa(*asynchronous)).to_lowercase()
        }
        Job::PDataWrite { asynchronous, len } => format!("{}::write_all+finish/len{len}", if *asynchronous { "AsyncPDataWriter" } else { "PDataWriter" }),
        Job::PDataRead { asynchronous, shape } => format!("PDataReader-{}::read_to_end/shape{shape}", sa(*asynchronous)),
    }
}

fn client_opts() -> ClientAssociationOptions<'static> {
    ClientAssociationOptions::new().calling_ae_title("VX-SCU").called_ae_title("ANY-SCP").with_presentation_context(ABSTRACT, vec![IMPLICIT]).max_pdu_length(MAXLEN)
}
fn server_opts() -> ServerAssociationOptions<'static, dicom_ul::association::server::AcceptAny, dicom_ul::association::server::DefaultNegotiation> {
    ServerAssociationOptions::new().accept_any().ae_title("ANY-SCP").with_abstract_syntax(ABSTRACT).max_pdu_length(MAXLEN)
}

fn pdata_stream(shape: usize) -> (Vec<u8>, Vec<u8>) {
    // (wire bytes, expected payload)
    let payload = noise(match shape {
        0 => 10,
        1 => 3000,
        _ => 2500,
    });
    let chunks: Vec<&[u8]> = match shape {
        0 => vec![&payload[..]],
        1 => payload.chunks(1000).collect(),
        _ => vec![&payload[..1], &payload[1..1201], &payload[1201..]],
    };
    let n = chunks.len();
    let pd: Vec<RPdu> = chunks.iter().enumerate().map(|(i, c)| RPdu::PData(vec![RPdv::new(1, false, i + 1 == n, c.to_vec())])).collect();
    let (bytes, _) = rp::encode_stream(&pd).expect("encode stream");
    (bytes, payload)
}

fn check_pdata_output(bytes: &[u8], skip: usize, payload: &[u8]) -> Result<(), String> {
    let (ps, rest) = rp::parse_stream(bytes, &rp::ParseOpts::default())?;
    if rest != 0 {
        return Err(format!("{rest} trailing bytes"));
    }
    let ps = &ps[skip..];
    let mut got: Vec<u8> = vec![];
    for (i, p) in ps.iter().enumerate() {
        match p {
            RPdu::PData(v) => {
                for pdv in v {
                    if pdv.is_last() != (i + 1 == ps.len()) {
                        return Err("last-fragment flag misplaced".into());
                    }
                    got.extend_from_slice(&pdv.data);
                }
            }
            o => return Err(format!("unexpected {} PDU", o.kind())),
        }
    }
    if got != payload {
        return Err("P-DATA payload differs".into());
    }
    Ok(())
}

pub fn run_job(l: &mut Local, job: &Job, all_limit: usize) {
    let name = job_name(job);
    let base_id = format!("ul/{name}");
    let ps = pdus();
    let op_class = name.split('/').next().unwrap_or("").to_string();
    let class = json!({"part": "ul", "op": op_class, "ts": "-", "object": name.splitn(2, '/').nth(1).unwrap_or("")});
    let no_out = |b: &[u8]| if b.is_empty() { Ok(()) } else { Err(format!("{} unexpected bytes written", b.len())) };
    match job {
        Job::WritePdu(i) => {
            let want = ps[*i].1.clone();
            let pdu = to_ul(&want);
            let op = |_r: SpyRead, mut w: TapWrite| write_pdu(&mut w, &pdu).map_err(err_s);
            let validate = |b: &[u8]| {
                let got = rp::parse(b, &rp::ParseOpts::default())?;
                if got != want {
                    return Err(format!("written PDU differs from the reference: {}", got.summary()));
                }
                Ok(())
            };
            enumerate_duplex(l, &base_id, &class, all_limit, &[], &[], &op, &validate);
        }
        Job::ReadWire { pdu, asynchronous } => {
            let want = ps[*pdu].1.clone();
            let input = enc(&want);
            let asy = *asynchronous;
            let op = |r: SpyRead, _w: TapWrite| -> Result<(), String> {
                let mut buf = BytesMut::new();
                let got = if asy {
                    let mut ar = ARead(r);
                    block(read_pdu_from_wire_async(&mut ar, &mut buf, MAXLEN, true)).map_err(err_s)?
                } else {
                    let mut r = r;
                    read_pdu_from_wire(&mut r, &mut buf, MAXLEN, true).map_err(err_s)?
                };
                check_received(&got, &want)
            };
            enumerate_duplex(l, &base_id, &class, all_limit, &input, &[], &op, &no_out);
        }
        Job::ReadWireTwo { asynchronous } => {
            let a = ps[3].1.clone();
            let b = ps[7].1.clone();
            let mut input = enc(&a);
            let first = input.len();
            input.extend(enc(&b));
            let asy = *asynchronous;
            // delivered with a cut inside the second PDU, so the second call must read again
            let segs = vec![first + 2, input.len() - first - 2];
            let op = |r: SpyRead, _w: TapWrite| -> Result<(), String> {
                let mut buf = BytesMut::new();
                if asy {
                    let mut ar = ARead(r);
                    let g1 = block(read_pdu_from_wire_async(&mut ar, &mut buf, MAXLEN, true)).map_err(err_s)?;
                    check_received(&g1, &a)?;
                    let g2 = block(read_pdu_from_wire_async(&mut ar, &mut buf, MAXLEN, true)).map_err(err_s)?;
                    check_received(&g2, &b)
                } else {
                    let mut r = r;
                    let g1 = read_pdu_from_wire(&mut r, &mut buf, MAXLEN, true).map_err(err_s)?;
                    check_received(&g1, &a)?;
                    let g2 = read_pdu_from_wire(&mut r, &mut buf, MAXLEN, true).map_err(err_s)?;
                    check_received(&g2, &b)
                }
            };
            enumerate_duplex(l, &base_id, &class, all_limit, &input, &segs, &op, &no_out);
        }
        Job::Assoc { side, asynchronous, op: aop } => run_assoc(l, &base_id, &class, all_limit, *side, *asynchronous, *aop),
        Job::PDataWrite { asynchronous, len } => {
            let payload = noise(*len);
            let asy = *asynchronous;
            let op = |_r: SpyRead, w: TapWrite| -> Result<(), String> {
                if asy {
                    block(async {
                        let mut pw = AsyncPDataWriter::verif_new(AWrite(w), 1, SMALL_MAX);
                        pw.write_all(&payload).await.map_err(err_s)?;
                        pw.finish().await.map_err(err_s)
                    })
                } else {
                    let mut pw = PDataWriter::verif_new(w, 1, SMALL_MAX);
                    pw.write_all(&payload).map_err(err_s)?;
                    pw.finish().map_err(err_s)
                }
            };
            let validate = |b: &[u8]| check_pdata_output(b, 0, &payload);
            enumerate_duplex(l, &base_id, &class, all_limit, &[], &[], &op, &validate);
        }
        Job::PDataRead { asynchronous, shape } => {
            let (input, payload) = pdata_stream(*shape);
            let asy = *asynchronous;
            let op = |r: SpyRead, _w: TapWrite| -> Result<(), String> {
                let mut rb = BytesMut::new();
                let mut out = vec![];
                if asy {
                    block(async {
                        let mut pr = PDataReader::new(ARead(r), MAXLEN, &mut rb);
                        AsyncReadExt::read_to_end(&mut pr, &mut out).await.map_err(err_s)
                    })?;
                } else {
                    let mut pr = PDataReader::new(r, MAXLEN, &mut rb);
                    Read::read_to_end(&mut pr, &mut out).map_err(err_s)?;
                }
                if out != payload {
                    return Err("payload read differs".into());
                }
                Ok(())
            };
            enumerate_duplex(l, &base_id, &class, all_limit, &input, &[], &op, &no_out);
        }
    }
}

fn run_assoc(l: &mut Local, base_id: &str, class: &Value, all_limit: usize, side: Side, asy: bool, aop: AOp) {
    let ps = pdus();
    // what the peer "sent": the association PDU this side waits for, then the operation's input
    let first = match side {
        Side::Client => enc(&aac()),
        Side::Server => enc(&arq()),
    };
    let (pd_wire, pd_payload) = pdata_stream(1);
    let op_input: Vec<u8> = match aop {
        AOp::Receive(i) => enc(&ps[i].1),
        AOp::Release => enc(&RPdu::ReleaseRp),
        AOp::ReceivePdata => pd_wire.clone(),
        _ => vec![],
    };
    let mut input = first.clone();
    input.extend(&op_input);
    // the peer's PDUs arrive one read at a time
    let segs: Vec<usize> = if op_input.is_empty() { vec![first.len()] } else { vec![first.len(), op_input.len()] };
    let send_payload = noise(2500);
    let first_out = match side {
        Side::Client => "ARQ",
        Side::Server => "AAC",
    };
    let validate = |b: &[u8]| -> Result<(), String> {
        match aop {
            AOp::Establish | AOp::Receive(_) | AOp::ReceivePdata => expect_kinds(b, &[first_out]).map(|_| ()),
            AOp::Send(i) => {
                let got = expect_kinds(b, &[first_out, ps[i].1.kind()])?;
                if got[1] != ps[i].1 {
                    return Err(format!("sent PDU differs: {}", got[1].summary()));
                }
                Ok(())
            }
            AOp::Release => expect_kinds(b, &[first_out, "RRQ"]).map(|_| ()),
            AOp::Abort => expect_kinds(b, &[first_out, "ABORT"]).map(|_| ()),
            AOp::SendPdata => check_pdata_output(b, 1, &send_payload),
        }
    };
    macro_rules! drive_sync {
        ($assoc:expr) => {{
            let mut a = $assoc;
            match aop {
                AOp::Establish => Ok(()),
                AOp::Send(i) => SyncAssociation::send(&mut a, &to_ul(&ps[i].1)).map_err(err_s),
                AOp::Receive(i) => {
                    let got = SyncAssociation::receive(&mut a).map_err(err_s)?;
                    check_received(&got, &ps[i].1)
                }
                AOp::Release => SyncAssociation::release(a).map_err(err_s),
                AOp::Abort => SyncAssociation::abort(a).map_err(err_s),
                AOp::SendPdata => {
                    let mut pw = SyncAssociation::send_pdata(&mut a, 1);
                    pw.write_all(&send_payload).map_err(err_s)?;
                    pw.finish().map_err(err_s)
                }
                AOp::ReceivePdata => {
                    let mut out = vec![];
                    let mut pr = SyncAssociation::receive_pdata(&mut a);
                    Read::read_to_end(&mut pr, &mut out).map_err(err_s)?;
                    if out != pd_payload {
                        return Err("payload read differs".into());
                    }
                    Ok(())
                }
            }
        }};
    }
    macro_rules! drive_async {
        ($assoc:expr) => {{
            let mut a = $assoc;
            match aop {
                AOp::Establish => Ok(()),
                AOp::Send(i) => AsyncAssociation::send(&mut a, &to_ul(&ps[i].1)).await.map_err(err_s),
                AOp::Receive(i) => {
                    let got = AsyncAssociation::receive(&mut a).await.map_err(err_s)?;
                    check_received(&got, &ps[i].1)
                }
                AOp::Release => AsyncAssociation::release(a).await.map_err(err_s),
                AOp::Abort => AsyncAssociation::abort(a).await.map_err(err_s),
                AOp::SendPdata => {
                    let mut pw = AsyncAssociation::send_pdata(&mut a, 1);
                    pw.write_all(&send_payload).await.map_err(err_s)?;
                    pw.finish().await.map_err(err_s)
                }
                AOp::ReceivePdata => {
                    let mut out = vec![];
                    let mut pr = AsyncAssociation::receive_pdata(&mut a);
                    AsyncReadExt::read_to_end(&mut pr, &mut out).await.map_err(err_s)?;
                    if out != pd_payload {
                        return Err("payload read differs".into());
                    }
                    Ok(())
                }
            }
        }};
    }
    let op = |r: SpyRead, w: TapWrite| -> Result<(), String> {
        match (side, asy) {
            (Side::Client, false) => {
                let a = client_opts().verif_establish_over(Duplex { r, w }).map_err(err_s)?;
                drive_sync!(a)
            }
            (Side::Server, false) => {
                let a = server_opts().verif_establish_over(Duplex { r, w }).map_err(err_s)?;
                drive_sync!(a)
            }
            (Side::Client, true) => block(async {
                let a = client_opts().verif_establish_over_async(ADuplex { r: ARead(r), w: AWrite(w) }).await.map_err(err_s)?;
                drive_async!(a)
            }),
            (Side::Server, true) => block(async {
                let a = server_opts().verif_establish_over_async(ADuplex { r: ARead(r), w: AWrite(w) }).await.map_err(err_s)?;
                drive_async!(a)
            }),
        }
    };
    enumerate_duplex(l, base_id, class, all_limit, &input, &segs, &op, &validate);
}

pub fn run(check: &Check, all_limit: usize) {
    let js = jobs();
    check.extra("ul_jobs", json!(js.len()));
    check.par_range(js.len() as u64, |l, i| {
        run_job(l, &js[i as usize], all_limit);
    });
}
