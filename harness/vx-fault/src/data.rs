//! C34, data part: write_dataset_with_ts(_options), FileDicomObject::{write_all, write_dataset},
//! FileMetaTable::write; from_reader, read_dataset_with_ts, FileMetaTable::from_reader.

use crate::*;
use dicom_core::value::{PrimitiveValue, C};
use dicom_object::meta::FileMetaTableBuilder;
use dicom_object::{FileMetaTable, InMemDicomObject};
use dicom_parser::dataset::write::{DataSetWriterOptions, ExplicitLengthSqItemStrategy};
use std::collections::HashMap;
use vx_data::{normalize, pixel_variants, reduced_atoms, ref_ts, to_obj, to_ref, ts_by_uid, Atom, Node, SQ_STD, SQ_STD2, TS4};
use vx_kit::Check;
use vx_ref::ds::{self as rds, RElem, RVal};

const SOP_CLASS: &str = "1.2.840.10008.5.1.4.1.1.7";
const SOP_INSTANCE: &str = "1.2.3.4.5";

/// ~20 KiB value with little redundancy (so that the deflated stream also exceeds the 8 KiB
/// `BufWriter` capacity), odd length (padding path).
fn big_atom() -> Atom {
    let mut x: u32 = 0x2545_F491;
    let bytes: Vec<u8> = (0..20_001)
        .map(|_| {
            x = x.wrapping_mul(1_664_525).wrapping_add(1_013_904_223);
            (x >> 24) as u8
        })
        .collect();
    Atom {
        tag: vx_data::std_tag("OB"),
        vr: "OB",
        value: PrimitiveValue::U8(C::from_vec(bytes.clone())),
        le: bytes,
        shape: "big-20001",
        tclass: "std",
    }
}

pub struct Obj {
    pub name: String,
    pub nodes: Vec<Node>,
}

pub fn objects(check: &Check) -> Vec<Obj> {
    let ar = reduced_atoms();
    let mut out = vec![];
    let atoms: Vec<Atom> = if check.thorough() { vx_data::atoms() } else { ar.clone() };
    for a in atoms {
        // pixel data atoms and xs atoms need context; keep those that normalise alone
        if let Some(n) = normalize(vec![Node::Prim(a.clone())]) {
            out.push(Obj { name: vx_data::labels(&n), nodes: n });
        }
    }
    // one nested: a sequence with two items, the second holding an inner sequence, then an atom
    let inner = Node::Seq { tag: SQ_STD2, items: vec![vec![Node::Prim(ar[11].clone())], vec![]], tclass: "std" };
    let nested = normalize(vec![
        Node::Seq { tag: SQ_STD, items: vec![vec![Node::Prim(ar[0].clone())], vec![inner]], tclass: "std" },
        Node::Prim(ar[3].clone()),
    ])
    .unwrap();
    out.push(Obj { name: "nested".into(), nodes: nested });
    // encapsulated pixel data
    let pv = pixel_variants();
    let picks: Vec<usize> = if check.thorough() { (0..pv.len()).collect() } else { vec![pv.len() - 4] };
    for i in picks {
        let n = normalize(vec![Node::Prim(ar[11].clone()), pv[i].clone()]).unwrap();
        out.push(Obj { name: format!("encapsulated/{}", vx_data::labels(&n)), nodes: n });
    }
    // one ~20 KiB value
    out.push(Obj { name: "big".into(), nodes: vec![Node::Prim(ar[0].clone()), Node::Prim(big_atom())] });
    out
}

fn vr_map(expected: &[RElem]) -> HashMap<(u16, u16), [u8; 2]> {
    fn walk(e: &[RElem], m: &mut HashMap<(u16, u16), [u8; 2]>) {
        for x in e {
            m.insert(x.tag, x.vr);
            if let RVal::Seq { items, .. } = &x.val {
                for it in items {
                    walk(&it.elems, m);
                }
            }
        }
    }
    let mut m = HashMap::new();
    walk(expected, &mut m);
    m
}

/// strict parse of a data set stream with the reference parser (deflated: independent inflate first)
fn parse_ds(ti: usize, bytes: &[u8], expected: &[RElem]) -> Result<Vec<RElem>, String> {
    let plain = if ti == 3 { rds::inflate_raw(bytes)? } else { bytes.to_vec() };
    let m = vr_map(expected);
    let oracle = move |t: (u16, u16)| m.get(&t).copied();
    rds::parse(ref_ts(ti), &plain, &oracle).map_err(|e| e.to_string())
}

fn tags_of(t: &[RElem]) -> Vec<(u16, u16)> {
    t.iter().map(|e| e.tag).collect()
}

fn validate_ds(ti: usize, bytes: &[u8], expected: &[RElem]) -> Result<(), String> {
    let tree = parse_ds(ti, bytes, expected)?;
    if tags_of(&tree) != tags_of(expected) {
        return Err(format!("top-level tags differ: {:?} vs {:?}", tags_of(&tree), tags_of(expected)));
    }
    Ok(())
}

fn validate_file(ti: usize, bytes: &[u8], expected: &[RElem]) -> Result<(), String> {
    let head = rds::parse_file_head(bytes).map_err(|e| e.to_string())?;
    if head.ts_uid != TS4[ti] {
        return Err(format!("transfer syntax in meta: {}", head.ts_uid));
    }
    validate_ds(ti, &bytes[head.dataset_offset..], expected)
}

/// Does the accepted prefix still carry the complete data set (only trailer bytes of the
/// compressed framing missing)? Used to keep the known-finding class narrow.
fn payload_complete(ti: usize, accepted_ds: &[u8], expected: &[RElem]) -> bool {
    if ti != 3 {
        return validate_ds(ti, accepted_ds, expected).is_ok();
    }
    // truncated deflate: inflate what is there, tolerate the missing final block
    let plain = inflate_prefix(accepted_ds);
    let m = vr_map(expected);
    let oracle = move |t: (u16, u16)| m.get(&t).copied();
    match rds::parse(ref_ts(ti), &plain, &oracle) {
        Ok(tree) => tags_of(&tree) == tags_of(expected),
        Err(_) => false,
    }
}

/// Inflate as much of a (possibly truncated) raw deflate stream as possible.
pub fn inflate_prefix(b: &[u8]) -> Vec<u8> {
    use std::io::Read;
    let mut d = flate2::read::DeflateDecoder::new(b);
    let mut out = vec![];
    let mut chunk = [0u8; 4096];
    loop {
        match d.read(&mut chunk) {
            Ok(0) | Err(_) => break,
            Ok(n) => out.extend_from_slice(&chunk[..n]),
        }
    }
    out
}

fn err_s<E: std::fmt::Debug>(e: E) -> String {
    format!("{e:?}").chars().take(240).collect()
}

fn meta_for(uid: &str) -> FileMetaTable {
    FileMetaTableBuilder::new()
        .transfer_syntax(uid)
        .media_storage_sop_class_uid(SOP_CLASS)
        .media_storage_sop_instance_uid(SOP_INSTANCE)
        .build()
        .expect("meta table")
}

#[derive(Clone, Copy, Debug, PartialEq, Eq)]
pub enum WOp {
    WithTs,
    WithTsOptionsNoChange,
    WithTsOptionsSetUndefined,
    FileWriteAll,
    FileWriteDataset,
}
impl WOp {
    fn name(self) -> &'static str {
        match self {
            WOp::WithTs => "write_dataset_with_ts",
            WOp::WithTsOptionsNoChange => "write_dataset_with_ts_options/NoChange",
            WOp::WithTsOptionsSetUndefined => "write_dataset_with_ts_options/SetUndefined",
            WOp::FileWriteAll => "FileDicomObject::write_all",
            WOp::FileWriteDataset => "FileDicomObject::write_dataset",
        }
    }
}

#[derive(Clone, Copy, Debug, PartialEq, Eq)]
pub enum ROp {
    FromReader,
    ReadDatasetWithTs,
}

pub enum Job {
    Write { obj: usize, ti: usize, op: WOp },
    Read { obj: usize, ti: usize, op: ROp },
    MetaWrite { variant: usize },
    MetaRead { variant: usize },
}

fn meta_variant(v: usize) -> FileMetaTable {
    let b = FileMetaTableBuilder::new()
        .transfer_syntax(TS4[1])
        .media_storage_sop_class_uid(SOP_CLASS)
        .media_storage_sop_instance_uid(SOP_INSTANCE);
    let b = match v {
        0 => b,
        1 => b.source_application_entity_title("SRC").sending_application_entity_title("SND").receiving_application_entity_title("RCV"),
        _ => b.private_information_creator_uid("1.2.3").private_information(vec![1u8, 2, 3]),
    };
    b.build().expect("meta table")
}

pub fn jobs(check: &Check, objs: &[Obj]) -> Vec<Job> {
    let mut j = vec![];
    let wops: Vec<WOp> = vec![WOp::WithTs, WOp::WithTsOptionsNoChange, WOp::WithTsOptionsSetUndefined, WOp::FileWriteAll, WOp::FileWriteDataset];
    for o in 0..objs.len() {
        for ti in 0..4 {
            for op in &wops {
                j.push(Job::Write { obj: o, ti, op: *op });
            }
            j.push(Job::Read { obj: o, ti, op: ROp::FromReader });
            j.push(Job::Read { obj: o, ti, op: ROp::ReadDatasetWithTs });
        }
    }
    for v in 0..3 {
        j.push(Job::MetaWrite { variant: v });
        j.push(Job::MetaRead { variant: v });
    }
    let _ = check;
    j
}

pub fn run_job(l: &mut Local, objs: &[Obj], job: &Job, all_limit: usize) {
    match job {
        Job::Write { obj, ti, op } => {
            let o = &objs[*obj];
            let (ti, op) = (*ti, *op);
            let uid = TS4[ti];
            let ts = ts_by_uid(uid);
            let expected = to_ref(&o.nodes, 0);
            let mem: InMemDicomObject = to_obj(&o.nodes);
            let file = mem.clone().with_exact_meta(meta_for(uid));
            let base_id = format!("data/w/{}/ts{ti}/obj{obj}", op.name());
            let class = json!({"part": "data", "op": op.name(), "ts": uid, "object": obj_class(&o.name)});
            let run = |w: TapWrite| -> Result<(), String> {
                match op {
                    WOp::WithTs => mem.write_dataset_with_ts(w, ts).map_err(err_s),
                    WOp::WithTsOptionsNoChange => mem
                        .write_dataset_with_ts_options(w, ts, DataSetWriterOptions::default().explicit_length_sq_item_strategy(ExplicitLengthSqItemStrategy::NoChange))
                        .map_err(err_s),
                    WOp::WithTsOptionsSetUndefined => mem
                        .write_dataset_with_ts_options(w, ts, DataSetWriterOptions::default().explicit_length_sq_item_strategy(ExplicitLengthSqItemStrategy::SetUndefined))
                        .map_err(err_s),
                    WOp::FileWriteAll => file.write_all(w).map_err(err_s),
                    WOp::FileWriteDataset => file.write_dataset(w).map_err(err_s),
                }
            };
            let is_file = op == WOp::FileWriteAll;
            let validate = |b: &[u8]| if is_file { validate_file(ti, b, &expected) } else { validate_ds(ti, b, &expected) };
            let annotate = |acc: &[u8], base: &WriteBase| {
                let ds_part: &[u8] = if is_file {
                    match rds::parse_file_head(&base.bytes) {
                        Ok(h) if acc.len() >= h.dataset_offset => &acc[h.dataset_offset..],
                        _ => &[],
                    }
                } else {
                    acc
                };
                json!({"payload_complete": payload_complete(ti, ds_part, &expected)})
            };
            enumerate_write(l, &base_id, &class, all_limit, &run, &validate, &annotate);
        }
        Job::Read { obj, ti, op } => {
            let o = &objs[*obj];
            let (ti, op) = (*ti, *op);
            let uid = TS4[ti];
            let ts = ts_by_uid(uid);
            let expected = to_ref(&o.nodes, 0);
            // input produced by the independent reference encoder
            let mut ds = rds::encode_items(ref_ts(ti), &expected);
            if ti == 3 {
                ds = rds::deflate_raw(&ds);
            }
            let (name, data) = match op {
                ROp::FromReader => {
                    let mut f = vec![0u8; 128];
                    f.extend(b"DICM");
                    f.extend(rds::encode_meta(&rds::std_meta(uid, SOP_CLASS, SOP_INSTANCE)));
                    f.extend(&ds);
                    ("from_reader", f)
                }
                ROp::ReadDatasetWithTs => ("read_dataset_with_ts", ds),
            };
            let base_id = format!("data/r/{name}/ts{ti}/obj{obj}");
            let class = json!({"part": "data", "op": name, "ts": uid, "object": obj_class(&o.name)});
            let ntop = expected.len();
            let run = |r: SpyRead| -> Result<(), String> {
                match op {
                    ROp::FromReader => {
                        let f = dicom_object::from_reader(r).map_err(err_s)?;
                        if f.iter().count() != ntop {
                            return Err(format!("read {} elements, expected {ntop}", f.iter().count()));
                        }
                        Ok(())
                    }
                    ROp::ReadDatasetWithTs => {
                        let f = InMemDicomObject::read_dataset_with_ts(r, ts).map_err(err_s)?;
                        if f.iter().count() != ntop {
                            return Err(format!("read {} elements, expected {ntop}", f.iter().count()));
                        }
                        Ok(())
                    }
                }
            };
            enumerate_read(l, &base_id, &class, all_limit, &data, &run);
        }
        Job::MetaWrite { variant } => {
            let m = meta_variant(*variant);
            let base_id = format!("data/w/FileMetaTable::write/v{variant}");
            let class = json!({"part": "data", "op": "FileMetaTable::write", "ts": "-", "object": format!("meta-v{variant}")});
            let run = |w: TapWrite| m.write(w).map_err(err_s);
            let validate = |b: &[u8]| {
                let mut f = vec![0u8; 128];
                f.extend(b"DICM");
                f.extend(b);
                let h = rds::parse_file_head(&f).map_err(|e| e.to_string())?;
                if h.dataset_offset != f.len() {
                    return Err("meta group length does not cover the output".into());
                }
                Ok(())
            };
            let annotate = |_: &[u8], _: &WriteBase| json!({"payload_complete": false});
            enumerate_write(l, &base_id, &class, all_limit, &run, &validate, &annotate);
        }
        Job::MetaRead { variant } => {
            let mut meta = rds::std_meta(TS4[1], SOP_CLASS, SOP_INSTANCE);
            if *variant >= 1 {
                meta.push(RElem::prim((0x0002, 0x0016), "AE", b"SRC"));
            }
            if *variant >= 2 {
                meta.push(RElem::prim((0x0002, 0x0100), "UI", b"1.2.3"));
                meta.push(RElem::prim((0x0002, 0x0102), "OB", &[1, 2, 3]));
            }
            let mut data = b"DICM".to_vec();
            data.extend(rds::encode_meta(&meta));
            let base_id = format!("data/r/FileMetaTable::from_reader/v{variant}");
            let class = json!({"part": "data", "op": "FileMetaTable::from_reader", "ts": "-", "object": format!("meta-v{variant}")});
            let run = |r: SpyRead| -> Result<(), String> {
                let t = FileMetaTable::from_reader(r).map_err(err_s)?;
                if t.transfer_syntax() != TS4[1] {
                    return Err("transfer syntax not read".into());
                }
                Ok(())
            };
            enumerate_read(l, &base_id, &class, all_limit, &data, &run);
        }
    }
}

/// coarse object class for the class descriptor (the object index is in the case id)
fn obj_class(name: &str) -> String {
    if name == "nested" || name == "big" {
        name.to_string()
    } else if name.starts_with("encapsulated") {
        "encapsulated".to_string()
    } else {
        "atom".to_string()
    }
}

pub fn job_name(objs: &[Obj], j: &Job) -> String {
    match j {
        Job::Write { obj, ti, op } => format!("w {} ts{ti} {}", op.name(), objs[*obj].name),
        Job::Read { obj, ti, op } => format!("r {op:?} ts{ti} {}", objs[*obj].name),
        Job::MetaWrite { variant } => format!("meta-w {variant}"),
        Job::MetaRead { variant } => format!("meta-r {variant}"),
    }
}

/// rough cost of a job, used only to order the work
pub fn job_weight(objs: &[Obj], j: &Job) -> u64 {
    match j {
        Job::Write { obj, ti, .. } | Job::Read { obj, ti, .. } => {
            let size: u64 = match objs[*obj].name.as_str() {
                "big" => 50,
                "nested" => 3,
                n if n.starts_with("encapsulated") => 3,
                _ => 1,
            };
            size * if *ti == 3 { 10 } else { 1 }
        }
        _ => 1,
    }
}
