//! shared helpers of this crate's checks
