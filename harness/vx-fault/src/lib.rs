//! vx-fault: fault-point enumeration engine of C34 (DESIGN.md section 3, C34).
//!
//! A *write operation* is a closure that receives a scripted writer and returns `Ok`/`Err`.
//! A fault-free run records the number of calls W the operation made on the writer, the bytes B
//! it produced and the byte offset at which every call started. Then every fault point is
//! executed from scratch: `Err` at call i (all i < W), `Err` after exactly b accepted bytes
//! (b < B), `Ok(0)` at call i. Reads are symmetric (`Err` at call i, `Err` after b bytes).
//! Oracle: whenever the injected fault really fired, the operation must return `Err`; it must
//! never panic.

use serde_json::{json, Map, Value};
use std::io::{self, Read, Write};
use std::sync::atomic::{AtomicBool, Ordering};
use std::sync::{Arc, Mutex};
use vx_kit::io::{ScriptRead, ScriptWrite, WriteFault};
use vx_kit::{guard, Local};

pub mod data;
pub mod ul;

/// faults that really fired, per (part, direction): data-write, data-read, ul-write, ul-read
pub static FIRED: [std::sync::atomic::AtomicU64; 4] = [
    std::sync::atomic::AtomicU64::new(0),
    std::sync::atomic::AtomicU64::new(0),
    std::sync::atomic::AtomicU64::new(0),
    std::sync::atomic::AtomicU64::new(0),
];
pub fn fired(slot: usize) {
    FIRED[slot].fetch_add(1, Ordering::Relaxed);
}

// ---------------------------------------------------------------------------------------------
// scripted writer with a call log
// ---------------------------------------------------------------------------------------------

/// `ScriptWrite` plus a log of (is_flush, offset before the call) for every call.
#[derive(Clone)]
pub struct TapWrite {
    pub inner: ScriptWrite,
    pub log: Arc<Mutex<Vec<(bool, usize)>>>,
}

impl TapWrite {
    pub fn new(fault: Option<WriteFault>) -> Self {
        TapWrite { inner: ScriptWrite::new(fault), log: Arc::new(Mutex::new(vec![])) }
    }
    fn have(&self) -> usize {
        self.inner.out.lock().unwrap().len()
    }
}

impl Write for TapWrite {
    fn write(&mut self, buf: &[u8]) -> io::Result<usize> {
        let off = self.have();
        self.log.lock().unwrap().push((false, off));
        self.inner.write(buf)
    }
    fn flush(&mut self) -> io::Result<()> {
        let off = self.have();
        self.log.lock().unwrap().push((true, off));
        self.inner.flush()
    }
}

/// `ScriptRead` plus a flag telling whether an `Err` was really handed to the caller.
pub struct SpyRead {
    pub inner: ScriptRead,
    pub fired: Arc<AtomicBool>,
    pub calls: Arc<Mutex<usize>>,
    pub delivered: Arc<Mutex<usize>>,
}

impl Read for SpyRead {
    fn read(&mut self, buf: &mut [u8]) -> io::Result<usize> {
        *self.calls.lock().unwrap() += 1;
        match self.inner.read(buf) {
            Ok(n) => {
                *self.delivered.lock().unwrap() += n;
                Ok(n)
            }
            Err(e) => {
                self.fired.store(true, Ordering::SeqCst);
                Err(e)
            }
        }
    }
}

// ---------------------------------------------------------------------------------------------
// fault plans
// ---------------------------------------------------------------------------------------------

pub fn fault_label(f: WriteFault) -> String {
    match f {
        WriteFault::ErrAtCall(i) => format!("ec{i}"),
        WriteFault::ErrAfterBytes(b) => format!("eb{b}"),
        WriteFault::ZeroAtCall(i) => format!("zc{i}"),
    }
}
pub fn fault_kind(f: WriteFault) -> &'static str {
    match f {
        WriteFault::ErrAtCall(_) => "err-at-call",
        WriteFault::ErrAfterBytes(_) => "err-after-bytes",
        WriteFault::ZeroAtCall(_) => "zero-at-call",
    }
}

/// Byte offsets b < total at which a fault is injected: all of them when `total <= all_limit`,
/// otherwise the first and last 64, every call boundary +-1, and every 97th byte.
pub fn byte_points(total: usize, boundaries: &[usize], all_limit: usize) -> Vec<usize> {
    if total <= all_limit {
        return (0..total).collect();
    }
    let mut v: Vec<usize> = vec![];
    v.extend(0..64.min(total));
    v.extend(total.saturating_sub(64)..total);
    for &b in boundaries {
        for d in [b.wrapping_sub(1), b, b + 1] {
            if d < total {
                v.push(d);
            }
        }
    }
    v.extend((0..total).step_by(97));
    v.sort();
    v.dedup();
    v
}

pub struct WriteBase {
    pub calls: usize,
    pub bytes: Vec<u8>,
    /// (is_flush, offset before the call)
    pub log: Vec<(bool, usize)>,
}

pub struct WriteRun {
    /// Err(panic message) | Ok(operation result)
    pub result: Result<Result<(), String>, String>,
    pub accepted: Vec<u8>,
    pub calls: usize,
    pub fired: bool,
    pub log: Vec<(bool, usize)>,
}

pub fn run_write<F>(op: &F, fault: Option<WriteFault>) -> WriteRun
where
    F: Fn(TapWrite) -> Result<(), String>,
{
    let w = TapWrite::new(fault);
    let handle = w.clone();
    let result = guard(|| op(w));
    let log = handle.log.lock().unwrap().clone();
    WriteRun {
        result,
        accepted: handle.inner.bytes(),
        calls: handle.inner.call_count(),
        fired: handle.inner.fault_fired(),
        log,
    }
}

pub fn merge(base: &Value, extra: Value) -> Value {
    let mut m: Map<String, Value> = base.as_object().cloned().unwrap_or_default();
    if let Some(e) = extra.as_object() {
        for (k, v) in e {
            m.insert(k.clone(), v.clone());
        }
    }
    Value::Object(m)
}

pub(crate) fn short(s: &str) -> String {
    s.chars().take(240).collect()
}
pub fn hex_head(b: &[u8]) -> String {
    b.iter().take(96).map(|x| format!("{x:02X}")).collect::<Vec<_>>().join("")
}

/// Enumerate every write fault point of one operation.
///
/// * `validate(bytes)`: the fault-free output must be parseable (machinery error otherwise);
/// * `annotate(accepted, base)`: extra class keys for a failing case (e.g. whether the accepted
///   bytes still carry the complete payload).
pub fn enumerate_write<F, V, A>(
    l: &mut Local,
    base_id: &str,
    class: &Value,
    all_limit: usize,
    op: &F,
    validate: &V,
    annotate: &A,
) where
    F: Fn(TapWrite) -> Result<(), String>,
    V: Fn(&[u8]) -> Result<(), String>,
    A: Fn(&[u8], &WriteBase) -> Value,
{
    // fault-free run (always executed: the plan depends on it)
    let r0 = run_write(op, None);
    let base = match &r0.result {
        Ok(Ok(())) => WriteBase { calls: r0.calls, bytes: r0.accepted.clone(), log: r0.log.clone() },
        Ok(Err(e)) => {
            l.check.machinery_error(&format!("{base_id}: fault-free write returned Err: {}", short(e)));
            return;
        }
        Err(p) => {
            l.check.machinery_error(&format!("{base_id}: fault-free write panicked: {}", short(p)));
            return;
        }
    };
    if let Err(m) = validate(&base.bytes) {
        l.check.machinery_error(&format!("{base_id}: fault-free output does not parse: {}", short(&m)));
        return;
    }
    let free_id = format!("{base_id}/free");
    if l.want(&free_id) {
        l.eval();
        l.outcome_with("fault-free-ok", || json!({"case": free_id, "calls": base.calls, "bytes": base.bytes.len()}));
    }
    let boundaries: Vec<usize> = base.log.iter().map(|(_, o)| *o).collect();
    let mut plan: Vec<WriteFault> = vec![];
    for i in 0..base.calls {
        plan.push(WriteFault::ErrAtCall(i));
    }
    for b in byte_points(base.bytes.len(), &boundaries, all_limit) {
        plan.push(WriteFault::ErrAfterBytes(b));
    }
    for i in 0..base.calls {
        plan.push(WriteFault::ZeroAtCall(i));
    }
    for f in plan {
        let case_id = format!("{base_id}/{}", fault_label(f));
        if !l.want(&case_id) {
            continue;
        }
        l.eval();
        let run = run_write(op, Some(f));
        if run.fired {
            fired(0);
        }
        let call_kind = match f {
            WriteFault::ErrAtCall(i) | WriteFault::ZeroAtCall(i) => {
                if base.log.get(i).map(|x| x.0).unwrap_or(false) { "flush" } else { "write" }
            }
            WriteFault::ErrAfterBytes(_) => "write",
        };
        let cls = |extra: Value| merge(&merge(class, json!({"dir": "write", "fault": fault_kind(f), "fault_call": call_kind})), extra);
        let detail = |run: &WriteRun, msg: &str| {
            json!({"fault": fault_label(f), "fault_free_calls": base.calls, "fault_free_bytes": base.bytes.len(),
                   "accepted_bytes": run.accepted.len(), "calls_made": run.calls, "message": msg,
                   "fault_free_head": hex_head(&base.bytes)})
        };
        match &run.result {
            Err(p) => {
                l.nontrivial(&case_id);
                l.outcome("write-fault/panic");
                l.fail(&case_id, cls(json!({"kind": "panic"})), detail(&run, &short(p)));
            }
            Ok(Ok(())) if run.fired => {
                l.nontrivial(&case_id);
                l.outcome("write-fault/ok-despite-fault");
                let ann = annotate(&run.accepted, &base);
                let complete = run.accepted == base.bytes;
                l.fail(
                    &case_id,
                    merge(&cls(json!({"kind": "ok-despite-fault", "accepted_all_bytes": complete})), ann),
                    detail(&run, "operation returned Ok although the writer failed"),
                );
            }
            Ok(Err(e)) if run.fired => {
                l.nontrivial(&case_id);
                l.outcome_with("write-fault/err-reported", || json!({"case": case_id, "error": short(e)}));
            }
            Ok(Ok(())) => {
                // the fault point was not reached (Ok(0) scheduled on a flush call): same as fault-free
                if run.accepted != base.bytes {
                    l.check.machinery_error(&format!("{case_id}: fault not fired but output differs from the fault-free run"));
                }
                l.outcome("write-fault/not-reached-ok");
            }
            Ok(Err(e)) => {
                l.check.machinery_error(&format!("{case_id}: fault not fired but operation returned Err: {}", short(e)));
            }
        }
    }
}

// ---------------------------------------------------------------------------------------------
// reads
// ---------------------------------------------------------------------------------------------

#[derive(Clone, Copy, Debug)]
pub enum ReadFault {
    ErrAtCall(usize),
    ErrAfterBytes(usize),
}
pub fn read_fault_label(f: ReadFault) -> String {
    match f {
        ReadFault::ErrAtCall(i) => format!("rc{i}"),
        ReadFault::ErrAfterBytes(b) => format!("rb{b}"),
    }
}

pub struct ReadRun {
    pub result: Result<Result<(), String>, String>,
    pub fired: bool,
    pub calls: usize,
    pub delivered: usize,
}

pub fn run_read<F>(op: &F, data: &[u8], fault: Option<ReadFault>) -> ReadRun
where
    F: Fn(SpyRead) -> Result<(), String>,
{
    let mut sr = ScriptRead::whole(data.to_vec());
    match fault {
        Some(ReadFault::ErrAtCall(i)) => sr.fail_at_call = Some(i),
        Some(ReadFault::ErrAfterBytes(b)) => sr.fail_after_bytes = Some(b),
        None => {}
    }
    let fired = Arc::new(AtomicBool::new(false));
    let calls = Arc::new(Mutex::new(0usize));
    let delivered = Arc::new(Mutex::new(0usize));
    let spy = SpyRead { inner: sr, fired: fired.clone(), calls: calls.clone(), delivered: delivered.clone() };
    let result = guard(|| op(spy));
    let c = *calls.lock().unwrap();
    let d = *delivered.lock().unwrap();
    ReadRun { result, fired: fired.load(Ordering::SeqCst), calls: c, delivered: d }
}

/// Enumerate every read fault point of one operation over the byte string `data`.
pub fn enumerate_read<F>(l: &mut Local, base_id: &str, class: &Value, all_limit: usize, data: &[u8], op: &F)
where
    F: Fn(SpyRead) -> Result<(), String>,
{
    let r0 = run_read(op, data, None);
    match &r0.result {
        Ok(Ok(())) => {}
        Ok(Err(e)) => {
            l.check.machinery_error(&format!("{base_id}: fault-free read returned Err: {}", short(e)));
            return;
        }
        Err(p) => {
            l.check.machinery_error(&format!("{base_id}: fault-free read panicked: {}", short(p)));
            return;
        }
    }
    let free_id = format!("{base_id}/free");
    if l.want(&free_id) {
        l.eval();
        l.outcome_with("fault-free-ok", || json!({"case": free_id, "read_calls": r0.calls, "bytes": r0.delivered}));
    }
    let mut plan = vec![];
    for i in 0..r0.calls {
        plan.push(ReadFault::ErrAtCall(i));
    }
    // boundaries: every multiple of the 8 KiB BufReader capacity
    let boundaries: Vec<usize> = (0..=r0.delivered / 8192).map(|k| k * 8192).collect();
    for b in byte_points(r0.delivered, &boundaries, all_limit) {
        plan.push(ReadFault::ErrAfterBytes(b));
    }
    for f in plan {
        let case_id = format!("{base_id}/{}", read_fault_label(f));
        if !l.want(&case_id) {
            continue;
        }
        l.eval();
        let run = run_read(op, data, Some(f));
        if run.fired {
            fired(1);
        }
        let kind = match f {
            ReadFault::ErrAtCall(_) => "err-at-call",
            ReadFault::ErrAfterBytes(_) => "err-after-bytes",
        };
        let cls = |extra: Value| merge(&merge(class, json!({"dir": "read", "fault": kind})), extra);
        let detail = |msg: &str| {
            json!({"fault": read_fault_label(f), "fault_free_calls": r0.calls, "fault_free_bytes": r0.delivered,
                   "delivered": run.delivered, "calls_made": run.calls, "message": msg, "input_head": hex_head(data)})
        };
        match &run.result {
            Err(p) => {
                l.nontrivial(&case_id);
                l.outcome("read-fault/panic");
                l.fail(&case_id, cls(json!({"kind": "panic"})), detail(&short(p)));
            }
            Ok(Ok(())) if run.fired => {
                l.nontrivial(&case_id);
                l.outcome("read-fault/ok-despite-fault");
                l.fail(&case_id, cls(json!({"kind": "ok-despite-fault"})), detail("operation returned Ok although the reader failed"));
            }
            Ok(Err(e)) if run.fired => {
                l.nontrivial(&case_id);
                l.outcome_with("read-fault/err-reported", || json!({"case": case_id, "error": short(e)}));
            }
            Ok(Ok(())) => {
                // the operation finished without calling the reader at the fault point; it must then
                // have consumed the complete input, otherwise success was reported on a short read
                if run.delivered != r0.delivered {
                    l.nontrivial(&case_id);
                    l.outcome("read-fault/ok-on-truncated-input");
                    l.fail(&case_id, cls(json!({"kind": "ok-on-truncated-input"})), detail("Ok returned with fewer bytes than the fault-free run and no Err seen"));
                } else {
                    l.outcome("read-fault/not-reached-ok");
                }
            }
            Ok(Err(_)) => {
                // short delivery before the fault point made the operation give up on its own
                l.outcome("read-fault/err-before-fault-point");
            }
        }
    }
}
