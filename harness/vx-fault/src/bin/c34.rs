//! C34 — I/O failures are always reported (fault-point enumeration).
use vx_fault::{data, ul};
use vx_kit::{json, Check, Level};

fn main() {
    let check = Check::from_args("C34", Level::FaultEnumeration);
    check.set_rule("for every (operation, transfer syntax, object / PDU) a fault-free run over a scripted transport records the call count W, the byte count B and the offset of every call; then every fault point is executed from scratch: writer Err at call i (all i<W, write and flush calls), Err after exactly b accepted bytes (all b<B when B<=limit, else first/last 64 bytes, every call boundary +-1 and every 97th byte), Ok(0) at call i; reader Err at call i and after b delivered bytes. A case is (operation, ts, object, fault point); non-trivial = the injected fault really fired inside the operation");
    check.assume("scripted transports of vx-kit deliver/accept bytes exactly as scripted; vx-ref parser/encoder (PS3.5, PS3.8) judge that fault-free output is parseable and provide the read inputs");
    let all_limit = check.pick(512usize, 1 << 20);
    check.extra("all_byte_offsets_up_to", json!(all_limit));
    // data part
    let objs = data::objects(&check);
    let mut jobs = data::jobs(&check, &objs);
    // heavy jobs (deflated syntax, large objects) first: shorter tail on 16 cores
    jobs.sort_by_key(|j| std::cmp::Reverse(data::job_weight(&objs, j)));
    check.extra("data_objects", json!(objs.len()));
    check.extra("data_jobs", json!(jobs.len()));
    check.par_range(jobs.len() as u64, |l, i| {
        let t0 = std::time::Instant::now();
        data::run_job(l, &objs, &jobs[i as usize], all_limit);
        if std::env::var("VX_TIMING").is_ok() && t0.elapsed().as_secs_f64() > 0.5 {
            eprintln!("job {i} {}: {:.1}s", data::job_name(&objs, &jobs[i as usize]), t0.elapsed().as_secs_f64());
        }
    });
    // upper-layer part
    ul::run(&check, all_limit);
    let f: Vec<u64> = vx_fault::FIRED.iter().map(|a| a.load(std::sync::atomic::Ordering::Relaxed)).collect();
    check.extra("faults_fired", json!({"data_write": f[0], "data_read": f[1], "ul_write": f[2], "ul_read": f[3]}));
    if !check.replaying() && f.iter().any(|n| *n == 0) {
        check.machinery_error(&format!("vacuous: no fault fired in one of data-write/data-read/ul-write/ul-read: {f:?}"));
    }
    check.finish();
}
