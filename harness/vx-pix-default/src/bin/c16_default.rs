//! Prints the C16 observations of the registry built with its default features (see vx-pix c16).
#[path = "../../../vx-pix/src/c16probe.rs"]
mod c16probe;
fn main() {
    println!("{}", c16probe::probe());
}
