//! vx-ref: independent oracles written from PS3.5 / PS3.8 / PS3.18, with no dicom-rs dependency.
pub mod ds;
pub mod lut;
pub mod pdu;
pub mod pix;
pub mod rle;
pub mod annex_f;
