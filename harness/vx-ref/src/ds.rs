//! Reference data set model, encoder and strict parser (PS3.5 section 7, Annex A.4).
//!
//! Primitive values are held as their *little-endian, unpadded* bytes together with the VR.

use std::fmt;

#[derive(Clone, Copy, PartialEq, Eq, Debug, Hash, PartialOrd, Ord)]
pub enum Ts {
    ImplicitLE,
    ExplicitLE,
    ExplicitBE,
}

impl Ts {
    pub const ALL: [Ts; 3] = [Ts::ImplicitLE, Ts::ExplicitLE, Ts::ExplicitBE];
    pub fn uid(self) -> &'static str {
        match self {
            Ts::ImplicitLE => "1.2.840.10008.1.2",
            Ts::ExplicitLE => "1.2.840.10008.1.2.1",
            Ts::ExplicitBE => "1.2.840.10008.1.2.2",
        }
    }
    pub fn big(self) -> bool {
        self == Ts::ExplicitBE
    }
    pub fn explicit(self) -> bool {
        self != Ts::ImplicitLE
    }
}

pub type Tag = (u16, u16);
pub type Vr = [u8; 2];

pub const VRS: [&str; 34] = [
    "AE", "AS", "AT", "CS", "DA", "DS", "DT", "FL", "FD", "IS", "LO", "LT", "OB", "OD", "OF", "OL",
    "OV", "OW", "PN", "SH", "SL", "SQ", "SS", "ST", "SV", "TM", "UC", "UI", "UL", "UN", "UR", "US",
    "UT", "UV",
];

/// The VRs with a 16-bit length field in explicit VR (PS3.5 table 7.1-2).
pub const SHORT_VRS: [&str; 21] = [
    "AE", "AS", "AT", "CS", "DA", "DS", "DT", "FL", "FD", "IS", "LO", "LT", "PN", "SH", "SL", "SS",
    "ST", "TM", "UI", "UL", "US",
];

pub fn vr(s: &str) -> Vr {
    let b = s.as_bytes();
    [b[0], b[1]]
}
pub fn vr_str(v: Vr) -> String {
    String::from_utf8_lossy(&v).into_owned()
}
pub fn is_short(v: Vr) -> bool {
    SHORT_VRS.iter().any(|s| s.as_bytes() == v)
}
/// Width in bytes of the unit that is byte-swapped in big endian (1 = no swapping).
pub fn swap_width(v: Vr) -> usize {
    match &v {
        b"US" | b"SS" | b"OW" | b"AT" => 2,
        b"UL" | b"SL" | b"FL" | b"OF" | b"OL" => 4,
        b"FD" | b"OD" | b"SV" | b"UV" | b"OV" => 8,
        _ => 1,
    }
}
/// Padding byte for odd-length values: NUL for UI and binary VRs, space for the other text VRs.
pub fn pad_byte(v: Vr) -> u8 {
    match &v {
        b"UI" | b"OB" | b"OW" | b"OD" | b"OF" | b"OL" | b"OV" | b"UN" | b"US" | b"SS" | b"UL"
        | b"SL" | b"FL" | b"FD" | b"SV" | b"UV" | b"AT" => 0,
        _ => b' ',
    }
}

#[derive(Clone, PartialEq, Eq, Debug, Hash)]
pub enum RVal {
    /// little-endian, unpadded value bytes
    Prim(Vec<u8>),
    /// items; `explicit` = the sequence itself has a defined length
    Seq { items: Vec<RItem>, explicit: bool },
    /// encapsulated pixel data: offset table entries and fragments
    Pix { offsets: Vec<u32>, frags: Vec<Vec<u8>> },
}

#[derive(Clone, PartialEq, Eq, Debug, Hash)]
pub struct RItem {
    pub elems: Vec<RElem>,
    pub explicit: bool,
}

#[derive(Clone, PartialEq, Eq, Debug, Hash)]
pub struct RElem {
    pub tag: Tag,
    pub vr: Vr,
    pub val: RVal,
}

impl RElem {
    pub fn prim(tag: Tag, v: &str, bytes: &[u8]) -> RElem {
        RElem { tag, vr: vr(v), val: RVal::Prim(bytes.to_vec()) }
    }
}

fn put_u16(out: &mut Vec<u8>, v: u16, big: bool) {
    if big {
        out.extend_from_slice(&v.to_be_bytes())
    } else {
        out.extend_from_slice(&v.to_le_bytes())
    }
}
fn put_u32(out: &mut Vec<u8>, v: u32, big: bool) {
    if big {
        out.extend_from_slice(&v.to_be_bytes())
    } else {
        out.extend_from_slice(&v.to_le_bytes())
    }
}
fn put_tag(out: &mut Vec<u8>, t: Tag, big: bool) {
    put_u16(out, t.0, big);
    put_u16(out, t.1, big);
}

/// Byte size of an element header in the given syntax.
pub fn header_size(ts: Ts, v: Vr) -> usize {
    if !ts.explicit() || is_short(v) {
        8
    } else {
        12
    }
}

/// Encode one element header. `len` is written as is (0xFFFF_FFFF = undefined).
/// Returns None when a 16-bit length field cannot hold `len`.
pub fn encode_header(ts: Ts, tag: Tag, v: Vr, len: u32) -> Option<Vec<u8>> {
    let big = ts.big();
    let mut out = vec![];
    put_tag(&mut out, tag, big);
    if !ts.explicit() {
        put_u32(&mut out, len, big);
    } else if is_short(v) {
        if len > 0xFFFF {
            return None;
        }
        out.extend_from_slice(&v);
        put_u16(&mut out, len as u16, big);
    } else {
        out.extend_from_slice(&v);
        out.extend_from_slice(&[0, 0]);
        put_u32(&mut out, len, big);
    }
    Some(out)
}

pub fn encode_item_header(ts: Ts, len: u32) -> Vec<u8> {
    let mut out = vec![];
    put_tag(&mut out, (0xFFFE, 0xE000), ts.big());
    put_u32(&mut out, len, ts.big());
    out
}
pub fn item_delim(ts: Ts) -> Vec<u8> {
    let mut out = vec![];
    put_tag(&mut out, (0xFFFE, 0xE00D), ts.big());
    put_u32(&mut out, 0, ts.big());
    out
}
pub fn seq_delim(ts: Ts) -> Vec<u8> {
    let mut out = vec![];
    put_tag(&mut out, (0xFFFE, 0xE0DD), ts.big());
    put_u32(&mut out, 0, ts.big());
    out
}

/// value bytes as they appear on the wire: padded to even length, swapped for big endian
pub fn wire_value(ts: Ts, v: Vr, le_bytes: &[u8]) -> Vec<u8> {
    let mut b = le_bytes.to_vec();
    if ts.big() {
        let w = swap_width(v);
        if w > 1 {
            for ch in b.chunks_exact_mut(w) {
                ch.reverse();
            }
        }
    }
    if b.len() % 2 == 1 {
        b.push(pad_byte(v));
    }
    b
}

pub fn encode_items(ts: Ts, elems: &[RElem]) -> Vec<u8> {
    let mut out = vec![];
    for e in elems {
        encode_elem(ts, e, &mut out);
    }
    out
}

fn encode_elem(ts: Ts, e: &RElem, out: &mut Vec<u8>) {
    match &e.val {
        RVal::Prim(b) => {
            let w = wire_value(ts, e.vr, b);
            out.extend(encode_header(ts, e.tag, e.vr, w.len() as u32).expect("value too long for 16-bit VR"));
            out.extend(w);
        }
        RVal::Seq { items, explicit } => {
            let mut body = vec![];
            for it in items {
                let ib = encode_items(ts, &it.elems);
                if it.explicit {
                    body.extend(encode_item_header(ts, ib.len() as u32));
                    body.extend(ib);
                } else {
                    body.extend(encode_item_header(ts, 0xFFFF_FFFF));
                    body.extend(ib);
                    body.extend(item_delim(ts));
                }
            }
            if *explicit {
                out.extend(encode_header(ts, e.tag, e.vr, body.len() as u32).unwrap());
                out.extend(body);
            } else {
                out.extend(encode_header(ts, e.tag, e.vr, 0xFFFF_FFFF).unwrap());
                out.extend(body);
                out.extend(seq_delim(ts));
            }
        }
        RVal::Pix { offsets, frags } => {
            out.extend(encode_header(ts, e.tag, e.vr, 0xFFFF_FFFF).unwrap());
            out.extend(encode_item_header(ts, (offsets.len() * 4) as u32));
            for o in offsets {
                put_u32(out, *o, ts.big());
            }
            for f in frags {
                let mut f = f.clone();
                if f.len() % 2 == 1 {
                    f.push(0);
                }
                out.extend(encode_item_header(ts, f.len() as u32));
                out.extend(f);
            }
            out.extend(seq_delim(ts));
        }
    }
}

#[derive(Debug, Clone, PartialEq, Eq)]
pub struct ParseError {
    pub at: usize,
    pub msg: String,
}
impl fmt::Display for ParseError {
    fn fmt(&self, f: &mut fmt::Formatter<'_>) -> fmt::Result {
        write!(f, "at byte {}: {}", self.at, self.msg)
    }
}

/// Parsed element: like RElem, but primitive values keep their wire padding
/// (`Prim` holds the even-length value converted to little endian).
pub struct Parser<'a> {
    pub ts: Ts,
    pub data: &'a [u8],
    pub pos: usize,
    /// VR oracle for Implicit VR: returns the VR to assume for a tag (None = UN)
    pub vr_of: &'a dyn Fn(Tag) -> Option<Vr>,
    /// strictness: require even lengths
    pub require_even: bool,
}

fn perr<T>(at: usize, msg: impl Into<String>) -> Result<T, ParseError> {
    Err(ParseError { at, msg: msg.into() })
}

impl<'a> Parser<'a> {
    pub fn new(ts: Ts, data: &'a [u8], vr_of: &'a dyn Fn(Tag) -> Option<Vr>) -> Self {
        Parser { ts, data, pos: 0, vr_of, require_even: true }
    }
    fn u16(&mut self) -> Result<u16, ParseError> {
        if self.pos + 2 > self.data.len() {
            return perr(self.pos, "truncated (u16)");
        }
        let b = [self.data[self.pos], self.data[self.pos + 1]];
        self.pos += 2;
        Ok(if self.ts.big() { u16::from_be_bytes(b) } else { u16::from_le_bytes(b) })
    }
    fn u32(&mut self) -> Result<u32, ParseError> {
        if self.pos + 4 > self.data.len() {
            return perr(self.pos, "truncated (u32)");
        }
        let mut b = [0u8; 4];
        b.copy_from_slice(&self.data[self.pos..self.pos + 4]);
        self.pos += 4;
        Ok(if self.ts.big() { u32::from_be_bytes(b) } else { u32::from_le_bytes(b) })
    }
    fn tag(&mut self) -> Result<Tag, ParseError> {
        Ok((self.u16()?, self.u16()?))
    }

    /// Parse elements until `end` (absolute offset) or, if `until_item_delim`, an item delimiter.
    pub fn parse_elems(&mut self, end: Option<usize>, until_item_delim: bool) -> Result<Vec<RElem>, ParseError> {
        let mut out: Vec<RElem> = vec![];
        loop {
            if let Some(e) = end {
                if self.pos == e {
                    return Ok(out);
                }
                if self.pos > e {
                    return perr(self.pos, format!("content overruns its defined length end {e}"));
                }
            } else if !until_item_delim && self.pos == self.data.len() {
                return Ok(out);
            }
            let start = self.pos;
            let tag = self.tag()?;
            if tag == (0xFFFE, 0xE00D) {
                let l = self.u32()?;
                if l != 0 {
                    return perr(start, "item delimiter with non-zero length");
                }
                if until_item_delim {
                    return Ok(out);
                }
                return perr(start, "unexpected item delimiter");
            }
            if tag.0 == 0xFFFE {
                return perr(start, format!("unexpected delimiter/item tag {tag:04X?} in element position"));
            }
            if let Some(prev) = out.last() {
                if prev.tag >= tag {
                    return perr(start, format!("tags not ascending: {:04X?} after {:04X?}", tag, prev.tag));
                }
            }
            let (v, len) = if self.ts.explicit() {
                if self.pos + 2 > self.data.len() {
                    return perr(self.pos, "truncated (vr)");
                }
                let v: Vr = [self.data[self.pos], self.data[self.pos + 1]];
                self.pos += 2;
                if !VRS.iter().any(|s| s.as_bytes() == v) {
                    return perr(start, format!("unknown VR code {:?}", vr_str(v)));
                }
                if is_short(v) {
                    (v, self.u16()? as u32)
                } else {
                    let r = self.u16()?;
                    if r != 0 {
                        return perr(start, "reserved bytes not zero");
                    }
                    (v, self.u32()?)
                }
            } else {
                let l = self.u32()?;
                let v = (self.vr_of)(tag).unwrap_or(*b"UN");
                (v, l)
            };
            let is_pix = tag == (0x7FE0, 0x0010);
            if len == 0xFFFF_FFFF {
                if is_pix && (&v == b"OB" || &v == b"OW") {
                    out.push(RElem { tag, vr: v, val: self.parse_pix()? });
                } else if &v == b"SQ" || &v == b"UN" || !self.ts.explicit() {
                    let items = self.parse_items(None)?;
                    let v2 = if !self.ts.explicit() && &v != b"SQ" { *b"SQ" } else { v };
                    out.push(RElem { tag, vr: v2, val: RVal::Seq { items, explicit: false } });
                } else {
                    return perr(start, format!("undefined length on VR {}", vr_str(v)));
                }
            } else if &v == b"SQ" {
                let e = self.pos + len as usize;
                if e > self.data.len() {
                    return perr(start, "sequence length exceeds data");
                }
                let items = self.parse_items(Some(e))?;
                out.push(RElem { tag, vr: v, val: RVal::Seq { items, explicit: true } });
            } else {
                if self.require_even && len % 2 == 1 {
                    return perr(start, format!("odd value length {len}"));
                }
                let e = self.pos + len as usize;
                if e > self.data.len() {
                    return perr(start, format!("value length {len} exceeds data"));
                }
                let mut b = self.data[self.pos..e].to_vec();
                self.pos = e;
                if self.ts.big() {
                    let w = swap_width(v);
                    if w > 1 {
                        for ch in b.chunks_exact_mut(w) {
                            ch.reverse();
                        }
                    }
                }
                out.push(RElem { tag, vr: v, val: RVal::Prim(b) });
            }
        }
    }

    fn parse_items(&mut self, end: Option<usize>) -> Result<Vec<RItem>, ParseError> {
        let mut items = vec![];
        loop {
            if let Some(e) = end {
                if self.pos == e {
                    return Ok(items);
                }
                if self.pos > e {
                    return perr(self.pos, "items overrun sequence length");
                }
            }
            let start = self.pos;
            let tag = self.tag()?;
            let len = self.u32()?;
            match tag {
                (0xFFFE, 0xE0DD) => {
                    if end.is_some() {
                        return perr(start, "sequence delimiter inside defined-length sequence");
                    }
                    if len != 0 {
                        return perr(start, "sequence delimiter with non-zero length");
                    }
                    return Ok(items);
                }
                (0xFFFE, 0xE000) => {
                    if len == 0xFFFF_FFFF {
                        let elems = self.parse_elems(None, true)?;
                        items.push(RItem { elems, explicit: false });
                    } else {
                        let e = self.pos + len as usize;
                        if e > self.data.len() {
                            return perr(start, "item length exceeds data");
                        }
                        if self.require_even && len % 2 == 1 {
                            return perr(start, "odd item length");
                        }
                        let elems = self.parse_elems(Some(e), false)?;
                        items.push(RItem { elems, explicit: true });
                    }
                }
                _ => return perr(start, format!("expected item or sequence delimiter, got {tag:04X?}")),
            }
        }
    }

    fn parse_pix(&mut self) -> Result<RVal, ParseError> {
        let mut offsets = vec![];
        let mut frags = vec![];
        let mut first = true;
        loop {
            let start = self.pos;
            let tag = self.tag()?;
            let len = self.u32()?;
            match tag {
                (0xFFFE, 0xE0DD) => {
                    if len != 0 {
                        return perr(start, "sequence delimiter with non-zero length");
                    }
                    if first {
                        return perr(start, "encapsulated pixel data without offset table item");
                    }
                    return Ok(RVal::Pix { offsets, frags });
                }
                (0xFFFE, 0xE000) => {
                    if len == 0xFFFF_FFFF {
                        return perr(start, "fragment with undefined length");
                    }
                    if len % 2 == 1 {
                        return perr(start, "fragment with odd length");
                    }
                    let e = self.pos + len as usize;
                    if e > self.data.len() {
                        return perr(start, "fragment length exceeds data");
                    }
                    if first {
                        if len % 4 != 0 {
                            return perr(start, "offset table length not a multiple of 4");
                        }
                        for _ in 0..len / 4 {
                            offsets.push(self.u32()?);
                        }
                        first = false;
                    } else {
                        frags.push(self.data[self.pos..e].to_vec());
                        self.pos = e;
                    }
                }
                _ => return perr(start, format!("expected fragment item, got {tag:04X?}")),
            }
        }
    }
}

/// Strictly parse a whole data set.
pub fn parse(ts: Ts, data: &[u8], vr_of: &dyn Fn(Tag) -> Option<Vr>) -> Result<Vec<RElem>, ParseError> {
    let mut p = Parser::new(ts, data, vr_of);
    let r = p.parse_elems(None, false)?;
    if p.pos != data.len() {
        return perr(p.pos, "trailing bytes");
    }
    Ok(r)
}

/// Byte offsets (relative to the first byte after the offset-table item) of every fragment item
/// tag in an encoded encapsulated pixel data element body; used by C18.
pub fn fragment_item_offsets(frag_lens_padded: &[usize]) -> Vec<usize> {
    let mut out = vec![];
    let mut off = 0;
    for l in frag_lens_padded {
        out.push(off);
        off += 8 + l;
    }
    out
}

/// Part 10 file: 128-byte preamble + DICM + meta group (always Explicit VR LE) + data set.
pub struct RMeta {
    pub elems: Vec<RElem>, // without (0002,0000); it is computed
}

pub fn encode_meta(meta: &[RElem]) -> Vec<u8> {
    let body = encode_items(Ts::ExplicitLE, meta);
    let mut out = encode_items(
        Ts::ExplicitLE,
        &[RElem::prim((0x0002, 0x0000), "UL", &(body.len() as u32).to_le_bytes())],
    );
    out.extend(body);
    out
}

pub fn std_meta(ts_uid: &str, sop_class: &str, sop_instance: &str) -> Vec<RElem> {
    vec![
        RElem::prim((0x0002, 0x0001), "OB", &[0, 1]),
        RElem::prim((0x0002, 0x0002), "UI", sop_class.as_bytes()),
        RElem::prim((0x0002, 0x0003), "UI", sop_instance.as_bytes()),
        RElem::prim((0x0002, 0x0010), "UI", ts_uid.as_bytes()),
        RElem::prim((0x0002, 0x0012), "UI", b"1.2.3.4.5.6"),
        RElem::prim((0x0002, 0x0013), "SH", b"VXREF"),
    ]
}

pub fn encode_file(preamble: bool, meta: &[RElem], ts: Ts, ds: &[RElem]) -> Vec<u8> {
    let mut out = vec![];
    if preamble {
        out.extend(std::iter::repeat(0u8).take(128));
    }
    out.extend(b"DICM");
    out.extend(encode_meta(meta));
    out.extend(encode_items(ts, ds));
    out
}

/// Parsed Part 10 file.
pub struct RFile {
    pub meta: Vec<RElem>,
    pub group_length: u32,
    pub ts_uid: String,
    pub dataset_offset: usize,
}

/// Parse preamble+magic+meta group strictly. Returns meta and offset of the data set.
pub fn parse_file_head(data: &[u8]) -> Result<RFile, ParseError> {
    if data.len() < 132 || &data[128..132] != b"DICM" {
        return perr(0, "no preamble+DICM");
    }
    let none = |_t: Tag| None;
    let mut p = Parser::new(Ts::ExplicitLE, &data[132..], &none);
    // group length element
    let t = p.tag()?;
    if t != (0x0002, 0x0000) {
        return perr(132, "first meta element is not group length");
    }
    if &p.data[p.pos..p.pos + 2] != b"UL" {
        return perr(136, "group length VR not UL");
    }
    p.pos += 2;
    if p.u16()? != 4 {
        return perr(138, "group length length != 4");
    }
    let gl = p.u32()?;
    let end = p.pos + gl as usize;
    if end > p.data.len() {
        return perr(140, "group length exceeds file");
    }
    let elems = p.parse_elems(Some(end), false)?;
    if elems.iter().any(|e| e.tag.0 != 2) {
        return perr(144, "non-group-2 element inside meta group length");
    }
    let ts_uid = elems
        .iter()
        .find(|e| e.tag == (2, 0x10))
        .and_then(|e| match &e.val {
            RVal::Prim(b) => Some(String::from_utf8_lossy(b).trim_end_matches(['\0', ' ']).to_string()),
            _ => None,
        })
        .unwrap_or_default();
    Ok(RFile { meta: elems, group_length: gl, ts_uid, dataset_offset: 132 + end })
}

pub fn inflate_raw(data: &[u8]) -> Result<Vec<u8>, String> {
    use std::io::Read;
    let mut d = flate2::read::DeflateDecoder::new(data);
    let mut out = vec![];
    d.read_to_end(&mut out).map_err(|e| e.to_string())?;
    Ok(out)
}
pub fn deflate_raw(data: &[u8]) -> Vec<u8> {
    use std::io::Write;
    let mut e = flate2::write::DeflateEncoder::new(vec![], flate2::Compression::default());
    e.write_all(data).unwrap();
    e.finish().unwrap()
}

#[cfg(test)]
mod tests {
    use super::*;
    #[test]
    fn roundtrip() {
        let ds = vec![
            RElem::prim((8, 0x16), "UI", b"1.2.3"),
            RElem::prim((8, 0x18), "UI", b"1.2"),
            RElem {
                tag: (8, 0x1140),
                vr: vr("SQ"),
                val: RVal::Seq {
                    items: vec![
                        RItem { elems: vec![RElem::prim((8, 0x1150), "UI", b"1")], explicit: true },
                        RItem { elems: vec![], explicit: false },
                    ],
                    explicit: true,
                },
            },
            RElem::prim((0x28, 0x10), "US", &[3, 0]),
            RElem { tag: (0x7fe0, 0x10), vr: vr("OB"), val: RVal::Pix { offsets: vec![0], frags: vec![vec![1, 2, 3]] } },
        ];
        let dict = |t: Tag| match t {
            (8, 0x16) | (8, 0x18) | (8, 0x1150) => Some(vr("UI")),
            (8, 0x1140) => Some(vr("SQ")),
            (0x28, 0x10) => Some(vr("US")),
            _ => None,
        };
        for ts in [Ts::ExplicitLE, Ts::ExplicitBE] {
            let b = encode_items(ts, &ds);
            let p = parse(ts, &b, &dict).unwrap();
            assert_eq!(p.len(), 5);
            assert_eq!(p[0].val, RVal::Prim(b"1.2.3\0".to_vec()));
            assert_eq!(p[3].val, RVal::Prim(vec![3, 0]));
            match &p[4].val {
                RVal::Pix { offsets, frags } => {
                    assert_eq!(offsets, &vec![0]);
                    assert_eq!(frags, &vec![vec![1, 2, 3, 0]]);
                }
                _ => panic!(),
            }
            // truncated fails
            assert!(parse(ts, &b[..b.len() - 1], &dict).is_err());
        }
        let b = encode_items(Ts::ImplicitLE, &ds[..4]);
        let p = parse(Ts::ImplicitLE, &b, &dict).unwrap();
        assert_eq!(p.len(), 4);
        let f = encode_file(true, &std_meta(Ts::ExplicitLE.uid(), "1.2", "1.2.3"), Ts::ExplicitLE, &ds);
        let h = parse_file_head(&f).unwrap();
        assert_eq!(h.ts_uid, Ts::ExplicitLE.uid());
        assert_eq!(inflate_raw(&deflate_raw(b"hello")).unwrap(), b"hello");
    }
}
