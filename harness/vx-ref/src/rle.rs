//! Reference RLE Lossless (PS3.5 Annex G) encoder that can realise *every* PackBits segmentation
//! of a byte plane, and a reference decoder used only for self-tests. No dicom-rs dependency.
//!
//! Annex G in short: a frame is one fragment = 64-byte header (u32 LE count of segments, then up
//! to 15 u32 LE offsets from the start of the header) + the segments. Composite pixel codes are
//! split into byte planes, most significant byte first, sample after sample (R-msb, R-lsb, G-msb, ..);
//! each plane is PackBits-coded: header byte n in 0..=127 -> copy the next n+1 bytes literally;
//! n in -127..=-1 -> repeat the next byte 1-n times (2..=128); n = -128 -> no operation.
//! Each segment has an even number of bytes (padded with one zero byte).

#[derive(Clone, Copy, Debug, PartialEq, Eq, Hash)]
pub enum Piece {
    /// literal run of this many bytes (1..=128)
    Lit(usize),
    /// replicate run of this many equal bytes (2..=128)
    Rep(usize),
}

impl Piece {
    pub fn len(self) -> usize {
        match self {
            Piece::Lit(n) | Piece::Rep(n) => n,
        }
    }
}

/// Every way of cutting `plane` into literal / replicate pieces: all compositions of its length
/// (pieces of at most 128 bytes), and for each piece of >= 2 equal bytes both codings.
/// Meant for short planes (2^(n-1) compositions).
pub fn segmentations(plane: &[u8]) -> Vec<Vec<Piece>> {
    let n = plane.len();
    if n == 0 {
        return vec![vec![]];
    }
    assert!(n <= 16, "segmentations(): plane too long to enumerate");
    let mut out = vec![];
    for mask in 0u32..(1u32 << (n - 1)) {
        // cut after byte i when bit i is set
        let mut lens = vec![];
        let mut cur = 1;
        for i in 0..n - 1 {
            if mask & (1 << i) != 0 {
                lens.push(cur);
                cur = 1;
            } else {
                cur += 1;
            }
        }
        lens.push(cur);
        // pieces that may be replicate runs
        let mut start = 0;
        let mut can_rep = vec![];
        for &l in &lens {
            let s = &plane[start..start + l];
            can_rep.push(l >= 2 && s.iter().all(|&b| b == s[0]));
            start += l;
        }
        let reps: Vec<usize> = (0..lens.len()).filter(|&i| can_rep[i]).collect();
        for choice in 0u32..(1u32 << reps.len()) {
            let mut pieces: Vec<Piece> = lens.iter().map(|&l| Piece::Lit(l)).collect();
            for (k, &i) in reps.iter().enumerate() {
                if choice & (1 << k) != 0 {
                    pieces[i] = Piece::Rep(lens[i]);
                }
            }
            out.push(pieces);
        }
    }
    out.sort_by_key(|p| p.len());
    out
}

/// The usual encoder: maximal runs of >= 2 equal bytes become replicate runs, the rest literal
/// runs, both cut at `max_piece` (<= 128) bytes.
pub fn canonical(plane: &[u8], max_piece: usize) -> Vec<Piece> {
    assert!((2..=128).contains(&max_piece));
    let mut out: Vec<Piece> = vec![];
    let mut i = 0;
    let mut lit = 0usize;
    let flush = |out: &mut Vec<Piece>, lit: &mut usize| {
        while *lit > 0 {
            let l = (*lit).min(max_piece);
            out.push(Piece::Lit(l));
            *lit -= l;
        }
    };
    while i < plane.len() {
        let mut j = i + 1;
        while j < plane.len() && plane[j] == plane[i] {
            j += 1;
        }
        let mut run = j - i;
        if run >= 2 {
            flush(&mut out, &mut lit);
            while run >= 2 {
                let l = run.min(max_piece);
                out.push(Piece::Rep(l));
                run -= l;
            }
            lit += run; // a left-over single byte
        } else {
            lit += 1;
        }
        i = j;
    }
    flush(&mut out, &mut lit);
    out
}

/// Literal runs only, cut at `max_piece`, the first piece `first` bytes long (0 = no short first piece).
pub fn all_literal(n: usize, max_piece: usize, first: usize) -> Vec<Piece> {
    let mut out = vec![];
    let mut left = n;
    if first > 0 && first < n {
        out.push(Piece::Lit(first));
        left -= first;
    }
    while left > 0 {
        let l = left.min(max_piece);
        out.push(Piece::Lit(l));
        left -= l;
    }
    out
}

/// PackBits-code `plane` with the given pieces. `noop_at[k]` inserts a -128 byte before piece k
/// (k == pieces.len(): after the last piece). `noop_at` may be shorter than pieces.len()+1.
pub fn encode_plane(plane: &[u8], pieces: &[Piece], noop_at: &[bool]) -> Vec<u8> {
    assert_eq!(pieces.iter().map(|p| p.len()).sum::<usize>(), plane.len());
    let mut out = vec![];
    let mut pos = 0;
    for (k, p) in pieces.iter().enumerate() {
        if noop_at.get(k).copied().unwrap_or(false) {
            out.push(0x80);
        }
        match *p {
            Piece::Lit(n) => {
                assert!((1..=128).contains(&n));
                out.push((n - 1) as u8);
                out.extend_from_slice(&plane[pos..pos + n]);
            }
            Piece::Rep(n) => {
                assert!((2..=128).contains(&n));
                assert!(plane[pos..pos + n].iter().all(|&b| b == plane[pos]));
                out.push((1i32 - n as i32) as i8 as u8);
                out.push(plane[pos]);
            }
        }
        pos += p.len();
    }
    if noop_at.get(pieces.len()).copied().unwrap_or(false) {
        out.push(0x80);
    }
    out
}

/// Byte planes of one frame in Annex G order. `frame` holds little-endian samples,
/// pixel-interleaved (planar = false) or plane after plane (planar = true).
pub fn planes(frame: &[u8], pixels: usize, spp: usize, bytes_per_sample: usize, planar: bool) -> Vec<Vec<u8>> {
    assert_eq!(frame.len(), pixels * spp * bytes_per_sample);
    let mut out = vec![];
    for s in 0..spp {
        for k in (0..bytes_per_sample).rev() {
            // k = byte index inside the little-endian sample; most significant first
            let mut p = Vec::with_capacity(pixels);
            for px in 0..pixels {
                let sample_index = if planar { s * pixels + px } else { px * spp + s };
                p.push(frame[sample_index * bytes_per_sample + k]);
            }
            out.push(p);
        }
    }
    out
}

/// Assemble one RLE fragment from already PackBits-coded segments.
pub fn assemble(segments: &[Vec<u8>]) -> Vec<u8> {
    assert!(segments.len() <= 15);
    let mut header = vec![0u8; 64];
    header[0..4].copy_from_slice(&(segments.len() as u32).to_le_bytes());
    let mut body = vec![];
    for (i, s) in segments.iter().enumerate() {
        let off = 64 + body.len() as u32;
        header[4 + 4 * i..8 + 4 * i].copy_from_slice(&off.to_le_bytes());
        body.extend_from_slice(s);
        if body.len() % 2 == 1 {
            body.push(0);
        }
    }
    header.extend(body);
    header
}

/// Reference PackBits decoder: decodes until `n` bytes are produced (G.3.2).
pub fn decode_plane(seg: &[u8], n: usize) -> Result<Vec<u8>, String> {
    let mut out = vec![];
    let mut i = 0;
    while out.len() < n {
        let h = *seg.get(i).ok_or("segment exhausted")? as i8;
        i += 1;
        if h >= 0 {
            let l = h as usize + 1;
            out.extend_from_slice(seg.get(i..i + l).ok_or("literal run exceeds segment")?);
            i += l;
        } else if h != -128 {
            let b = *seg.get(i).ok_or("replicate run without byte")?;
            i += 1;
            out.extend(std::iter::repeat(b).take((1 - h as i32) as usize));
        }
    }
    if out.len() != n {
        return Err("run crosses the plane end".into());
    }
    Ok(out)
}

/// Reference decoder of one fragment into little-endian pixel-interleaved bytes.
pub fn decode_frame(fragment: &[u8], pixels: usize, spp: usize, bytes_per_sample: usize) -> Result<Vec<u8>, String> {
    let nseg = u32::from_le_bytes(fragment[0..4].try_into().unwrap()) as usize;
    if nseg != spp * bytes_per_sample {
        return Err("segment count".into());
    }
    let mut out = vec![0u8; pixels * spp * bytes_per_sample];
    for si in 0..nseg {
        let off = u32::from_le_bytes(fragment[4 + 4 * si..8 + 4 * si].try_into().unwrap()) as usize;
        let end = if si + 1 < nseg {
            u32::from_le_bytes(fragment[8 + 4 * si..12 + 4 * si].try_into().unwrap()) as usize
        } else {
            fragment.len()
        };
        let plane = decode_plane(&fragment[off..end], pixels)?;
        let s = si / bytes_per_sample;
        let k = bytes_per_sample - 1 - si % bytes_per_sample;
        for px in 0..pixels {
            out[(px * spp + s) * bytes_per_sample + k] = plane[px];
        }
    }
    Ok(out)
}

#[cfg(test)]
mod tests {
    use super::*;
    #[test]
    fn all_segmentations_decode() {
        for plane in [vec![1u8], vec![1, 1], vec![1, 2, 2, 2], vec![5, 5, 5, 5, 5], vec![1, 1, 2, 2, 3, 3]] {
            let segs = segmentations(&plane);
            assert!(segs.len() >= 1 << (plane.len() - 1));
            for s in &segs {
                for noop in [vec![], vec![true; s.len() + 1]] {
                    let enc = encode_plane(&plane, s, &noop);
                    assert_eq!(decode_plane(&enc, plane.len()).unwrap(), plane);
                }
            }
        }
        assert_eq!(segmentations(&[7, 7]).len(), 3); // L1 L1, L2, R2
    }
    #[test]
    fn canonical_and_frame() {
        let plane: Vec<u8> = std::iter::repeat(9u8).take(257).chain([1, 2, 3, 3]).collect();
        let c = canonical(&plane, 128);
        assert_eq!(c, vec![Piece::Rep(128), Piece::Rep(128), Piece::Lit(3), Piece::Rep(2)]);
        assert_eq!(decode_plane(&encode_plane(&plane, &c, &[]), plane.len()).unwrap(), plane);
        // 16-bit RGB, 2 pixels
        let frame: Vec<u8> = (1..=12).collect();
        let pl = planes(&frame, 2, 3, 2, false);
        assert_eq!(pl[0], vec![2, 8]); // R msb
        assert_eq!(pl[1], vec![1, 7]); // R lsb
        assert_eq!(pl[5], vec![5, 11]); // B lsb
        let segs: Vec<Vec<u8>> = pl.iter().map(|p| encode_plane(p, &canonical(p, 128), &[])).collect();
        let frag = assemble(&segs);
        assert_eq!(frag.len() % 2, 0);
        assert_eq!(decode_frame(&frag, 2, 3, 2).unwrap(), frame);
    }
}
