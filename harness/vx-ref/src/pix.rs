//! Reference computations for pixel data (PS3.5 section 8.1.1, 8.2, Annex A.4): basic offset
//! table, native frame slicing and 1-bit sample unpacking. No dicom-rs dependency.

/// Expected Basic Offset Table for fragments laid out one after the other after the table item:
/// entry i = byte offset of the first byte of the item tag of the first fragment of frame i,
/// counted from the first byte of the first item tag after the table (so entry 0 is 0).
/// `frag_lens` are the item lengths *as written* (even), `frags_per_frame[i]` the number of
/// fragments of frame i.
pub fn offset_table(frag_lens: &[usize], frags_per_frame: &[usize]) -> Vec<u32> {
    assert_eq!(frags_per_frame.iter().sum::<usize>(), frag_lens.len());
    let mut out = vec![];
    let mut off = 0usize;
    let mut k = 0;
    for &n in frags_per_frame {
        out.push(off as u32);
        for _ in 0..n {
            off += 8 + frag_lens[k];
            k += 1;
        }
    }
    out
}

/// Given a written offset table and the written fragment lengths, the fragment index range of
/// every frame; Err when an entry does not point at an item tag.
pub fn frames_by_offsets(frag_lens: &[usize], table: &[u32]) -> Result<Vec<std::ops::Range<usize>>, String> {
    let mut starts = vec![];
    let mut off = 0usize;
    for l in frag_lens {
        starts.push(off);
        off += 8 + l;
    }
    let mut idx = vec![];
    for (i, &t) in table.iter().enumerate() {
        match starts.iter().position(|&s| s == t as usize) {
            Some(p) => idx.push(p),
            None => return Err(format!("offset table entry {i} = {t} is not the offset of an item tag (item offsets {starts:?})")),
        }
    }
    let mut out = vec![];
    for i in 0..idx.len() {
        let end = if i + 1 < idx.len() { idx[i + 1] } else { frag_lens.len() };
        if end < idx[i] {
            return Err("offset table not ascending".into());
        }
        out.push(idx[i]..end);
    }
    Ok(out)
}

/// 1-bit samples (Bits Allocated = 1): sample k is bit (k mod 8) of byte (k div 8), least
/// significant bit first (PS3.5 8.1.1 / Annex D), packed continuously across frame boundaries.
/// Returns samples `first..first+count` expanded to 0 / 255.
pub fn unpack_bits(data: &[u8], first: usize, count: usize) -> Option<Vec<u8>> {
    let mut out = Vec::with_capacity(count);
    for k in first..first + count {
        let byte = *data.get(k / 8)?;
        out.push(((byte >> (k % 8)) & 1) * 255);
    }
    Some(out)
}

/// Native frame `i` of 8/16-bit pixel data.
pub fn native_frame(data: &[u8], frame: usize, frame_bytes: usize) -> Option<&[u8]> {
    data.get(frame * frame_bytes..(frame + 1) * frame_bytes)
}

#[cfg(test)]
mod tests {
    use super::*;
    #[test]
    fn offsets() {
        assert_eq!(offset_table(&[4, 6, 2], &[1, 1, 1]), vec![0, 12, 26]);
        assert_eq!(offset_table(&[4, 6, 2], &[2, 1]), vec![0, 26]);
        assert_eq!(frames_by_offsets(&[4, 6, 2], &[0, 26]).unwrap(), vec![0..2, 2..3]);
        assert!(frames_by_offsets(&[4, 6, 2], &[12, 24]).is_err());
        assert_eq!(unpack_bits(&[0b0000_0101, 0b1], 0, 9).unwrap(), vec![255, 0, 255, 0, 0, 0, 0, 0, 255]);
        assert_eq!(unpack_bits(&[0b0000_0101], 2, 2).unwrap(), vec![255, 0]);
        assert!(unpack_bits(&[0], 0, 9).is_none());
    }
}
