//! Independent structural validator for the DICOM JSON Model (PS3.18 Annex F), written from the
//! standard text. No dicom-rs dependency. It has its own small JSON reader because member *order*
//! is part of what is checked and `serde_json::Value` does not keep it.
//!
//! What is checked (F.2.2 – F.2.7):
//! * a data set is a JSON object; member names are eight upper-case hexadecimal digits, unique and
//!   in ascending order;
//! * every attribute object has a string member `vr` holding a known two-letter VR, and at most one of
//!   `Value`, `BulkDataURI`, `InlineBinary`; no other members;
//! * `Value` is a non-empty array (an empty attribute has none of the three members);
//! * per VR: AT -> strings of eight upper-case hex digits; PN -> objects with only
//!   `Alphabetic`/`Ideographic`/`Phonetic` string members; FL FD SL SS UL US -> JSON numbers
//!   (FL/FD additionally the strings "NaN", "inf", "-inf" — the spelling dicom-rs documents); integer VRs
//!   integral and in range; SV UV -> numbers or decimal strings; IS DS -> numbers or numeric strings;
//!   the string VRs -> strings (or null for an empty value among several); SQ -> array of data set
//!   objects (checked recursively);
//! * OB OD OF OL OV OW UN -> `InlineBinary` (or `BulkDataURI`), a base64 string (RFC 4648, padded).
//!
//! `validate` returns every violation found with a short machine-usable `kind`, plus non-fatal
//! `notes` (things the standard frowns upon but the checked statement does not forbid).

use std::fmt;

/// JSON tree that keeps member order and duplicate members.
#[derive(Clone, Debug, PartialEq)]
pub enum J {
    Null,
    Bool(bool),
    /// the number's source text
    Num(String),
    Str(String),
    Arr(Vec<J>),
    Obj(Vec<(String, J)>),
}

impl J {
    pub fn kind(&self) -> &'static str {
        match self {
            J::Null => "null",
            J::Bool(_) => "bool",
            J::Num(_) => "number",
            J::Str(_) => "string",
            J::Arr(_) => "array",
            J::Obj(_) => "object",
        }
    }
    pub fn get(&self, k: &str) -> Option<&J> {
        match self {
            J::Obj(m) => m.iter().find(|(n, _)| n == k).map(|(_, v)| v),
            _ => None,
        }
    }
}

/// Convert from a `serde_json::Value` (member order as iterated by the map).
pub fn from_serde(v: &serde_json::Value) -> J {
    match v {
        serde_json::Value::Null => J::Null,
        serde_json::Value::Bool(b) => J::Bool(*b),
        serde_json::Value::Number(n) => J::Num(n.to_string()),
        serde_json::Value::String(s) => J::Str(s.clone()),
        serde_json::Value::Array(a) => J::Arr(a.iter().map(from_serde).collect()),
        serde_json::Value::Object(m) => J::Obj(m.iter().map(|(k, v)| (k.clone(), from_serde(v))).collect()),
    }
}

#[derive(Debug, Clone, PartialEq)]
pub struct JsonError {
    pub at: usize,
    pub msg: String,
}
impl fmt::Display for JsonError {
    fn fmt(&self, f: &mut fmt::Formatter<'_>) -> fmt::Result {
        write!(f, "JSON syntax error at byte {}: {}", self.at, self.msg)
    }
}

struct P<'a> {
    s: &'a [u8],
    i: usize,
}

impl<'a> P<'a> {
    fn err<T>(&self, m: &str) -> Result<T, JsonError> {
        Err(JsonError { at: self.i, msg: m.to_string() })
    }
    fn ws(&mut self) {
        while self.i < self.s.len() && matches!(self.s[self.i], b' ' | b'\t' | b'\n' | b'\r') {
            self.i += 1;
        }
    }
    fn value(&mut self, depth: usize) -> Result<J, JsonError> {
        if depth > 200 {
            return self.err("nesting too deep");
        }
        self.ws();
        match self.s.get(self.i) {
            None => self.err("unexpected end"),
            Some(b'{') => {
                self.i += 1;
                let mut m = vec![];
                self.ws();
                if self.s.get(self.i) == Some(&b'}') {
                    self.i += 1;
                    return Ok(J::Obj(m));
                }
                loop {
                    self.ws();
                    if self.s.get(self.i) != Some(&b'"') {
                        return self.err("expected member name");
                    }
                    let k = self.string()?;
                    self.ws();
                    if self.s.get(self.i) != Some(&b':') {
                        return self.err("expected ':'");
                    }
                    self.i += 1;
                    let v = self.value(depth + 1)?;
                    m.push((k, v));
                    self.ws();
                    match self.s.get(self.i) {
                        Some(b',') => self.i += 1,
                        Some(b'}') => {
                            self.i += 1;
                            return Ok(J::Obj(m));
                        }
                        _ => return self.err("expected ',' or '}'"),
                    }
                }
            }
            Some(b'[') => {
                self.i += 1;
                let mut a = vec![];
                self.ws();
                if self.s.get(self.i) == Some(&b']') {
                    self.i += 1;
                    return Ok(J::Arr(a));
                }
                loop {
                    a.push(self.value(depth + 1)?);
                    self.ws();
                    match self.s.get(self.i) {
                        Some(b',') => self.i += 1,
                        Some(b']') => {
                            self.i += 1;
                            return Ok(J::Arr(a));
                        }
                        _ => return self.err("expected ',' or ']'"),
                    }
                }
            }
            Some(b'"') => Ok(J::Str(self.string()?)),
            Some(b't') => self.lit("true", J::Bool(true)),
            Some(b'f') => self.lit("false", J::Bool(false)),
            Some(b'n') => self.lit("null", J::Null),
            Some(c) if *c == b'-' || c.is_ascii_digit() => self.number(),
            Some(_) => self.err("unexpected character"),
        }
    }
    fn lit(&mut self, word: &str, v: J) -> Result<J, JsonError> {
        if self.s[self.i..].starts_with(word.as_bytes()) {
            self.i += word.len();
            Ok(v)
        } else {
            self.err("bad literal")
        }
    }
    fn number(&mut self) -> Result<J, JsonError> {
        let st = self.i;
        if self.s.get(self.i) == Some(&b'-') {
            self.i += 1;
        }
        let d0 = self.i;
        while self.i < self.s.len() && self.s[self.i].is_ascii_digit() {
            self.i += 1;
        }
        if self.i == d0 {
            return self.err("digits expected");
        }
        if self.s[d0] == b'0' && self.i - d0 > 1 {
            return self.err("leading zero");
        }
        if self.s.get(self.i) == Some(&b'.') {
            self.i += 1;
            let f0 = self.i;
            while self.i < self.s.len() && self.s[self.i].is_ascii_digit() {
                self.i += 1;
            }
            if self.i == f0 {
                return self.err("fraction digits expected");
            }
        }
        if matches!(self.s.get(self.i), Some(b'e') | Some(b'E')) {
            self.i += 1;
            if matches!(self.s.get(self.i), Some(b'+') | Some(b'-')) {
                self.i += 1;
            }
            let e0 = self.i;
            while self.i < self.s.len() && self.s[self.i].is_ascii_digit() {
                self.i += 1;
            }
            if self.i == e0 {
                return self.err("exponent digits expected");
            }
        }
        Ok(J::Num(String::from_utf8_lossy(&self.s[st..self.i]).into_owned()))
    }
    fn hex4(&mut self) -> Result<u32, JsonError> {
        if self.i + 4 > self.s.len() {
            return self.err("truncated \\u escape");
        }
        let t = std::str::from_utf8(&self.s[self.i..self.i + 4]).ok().and_then(|t| u32::from_str_radix(t, 16).ok());
        match t {
            Some(v) => {
                self.i += 4;
                Ok(v)
            }
            None => self.err("bad \\u escape"),
        }
    }
    fn string(&mut self) -> Result<String, JsonError> {
        self.i += 1; // opening quote
        let mut out: Vec<u8> = vec![];
        loop {
            match self.s.get(self.i) {
                None => return self.err("unterminated string"),
                Some(b'"') => {
                    self.i += 1;
                    return String::from_utf8(out).or_else(|_| self.err("string is not UTF-8"));
                }
                Some(b'\\') => {
                    self.i += 1;
                    let c = match self.s.get(self.i) {
                        Some(c) => *c,
                        None => return self.err("unterminated escape"),
                    };
                    self.i += 1;
                    match c {
                        b'"' => out.push(b'"'),
                        b'\\' => out.push(b'\\'),
                        b'/' => out.push(b'/'),
                        b'b' => out.push(8),
                        b'f' => out.push(12),
                        b'n' => out.push(b'\n'),
                        b'r' => out.push(b'\r'),
                        b't' => out.push(b'\t'),
                        b'u' => {
                            let mut cp = self.hex4()?;
                            if (0xD800..0xDC00).contains(&cp) {
                                if self.s.get(self.i) == Some(&b'\\') && self.s.get(self.i + 1) == Some(&b'u') {
                                    self.i += 2;
                                    let lo = self.hex4()?;
                                    if !(0xDC00..0xE000).contains(&lo) {
                                        return self.err("bad low surrogate");
                                    }
                                    cp = 0x10000 + ((cp - 0xD800) << 10) + (lo - 0xDC00);
                                } else {
                                    return self.err("lone surrogate");
                                }
                            }
                            match char::from_u32(cp) {
                                Some(ch) => {
                                    let mut b = [0u8; 4];
                                    out.extend(ch.encode_utf8(&mut b).as_bytes());
                                }
                                None => return self.err("bad code point"),
                            }
                        }
                        _ => return self.err("bad escape"),
                    }
                }
                Some(c) if *c < 0x20 => return self.err("control character in string"),
                Some(c) => {
                    out.push(*c);
                    self.i += 1;
                }
            }
        }
    }
}

/// Parse a JSON text (RFC 8259) keeping member order and duplicates.
pub fn parse_json(text: &str) -> Result<J, JsonError> {
    let mut p = P { s: text.as_bytes(), i: 0 };
    let v = p.value(0)?;
    p.ws();
    if p.i != text.len() {
        return p.err("trailing characters");
    }
    Ok(v)
}

/// RFC 4648 base64 with padding; None when the text is not valid.
pub fn base64_decode(s: &str) -> Option<Vec<u8>> {
    let b = s.as_bytes();
    if b.len() % 4 != 0 {
        return None;
    }
    let val = |c: u8| -> Option<u32> {
        match c {
            b'A'..=b'Z' => Some((c - b'A') as u32),
            b'a'..=b'z' => Some((c - b'a') as u32 + 26),
            b'0'..=b'9' => Some((c - b'0') as u32 + 52),
            b'+' => Some(62),
            b'/' => Some(63),
            _ => None,
        }
    };
    let mut out = vec![];
    let n = b.len() / 4;
    for (qi, q) in b.chunks(4).enumerate() {
        let pad = q.iter().rev().take_while(|c| **c == b'=').count();
        if pad > 2 || (pad > 0 && qi != n - 1) {
            return None;
        }
        let mut acc = 0u32;
        for (i, c) in q.iter().enumerate() {
            let v = if i >= 4 - pad { 0 } else { val(*c)? };
            acc = (acc << 6) | v;
        }
        let bytes = [(acc >> 16) as u8, (acc >> 8) as u8, acc as u8];
        out.extend(&bytes[..3 - pad]);
        // canonical encoding: unused bits are zero
        if pad == 1 && acc & 0xFF != 0 || pad == 2 && acc & 0xFFFF != 0 {
            return None;
        }
    }
    Some(out)
}

pub const VRS: [&str; 34] = [
    "AE", "AS", "AT", "CS", "DA", "DS", "DT", "FL", "FD", "IS", "LO", "LT", "OB", "OD", "OF", "OL", "OV", "OW", "PN", "SH", "SL", "SQ", "SS", "ST", "SV", "TM", "UC", "UI", "UL", "UN", "UR", "US",
    "UT", "UV",
];
const STRING_VRS: [&str; 14] = ["AE", "AS", "CS", "DA", "DT", "LO", "LT", "SH", "ST", "TM", "UC", "UI", "UR", "UT"];
const BINARY_VRS: [&str; 7] = ["OB", "OD", "OF", "OL", "OV", "OW", "UN"];

#[derive(Clone, Debug, PartialEq)]
pub struct Violation {
    /// machine-usable class, e.g. "at-not-8-hex"
    pub kind: String,
    /// JSON path of the offending node
    pub path: String,
    pub msg: String,
}

#[derive(Clone, Debug, Default)]
pub struct Report {
    pub violations: Vec<Violation>,
    pub notes: Vec<(String, String)>,
    /// number of attribute objects visited, sequences included
    pub attributes: usize,
}

impl Report {
    fn v(&mut self, kind: &str, path: &str, msg: String) {
        self.violations.push(Violation { kind: kind.to_string(), path: path.to_string(), msg });
    }
    fn note(&mut self, kind: &str, path: &str) {
        self.notes.push((kind.to_string(), path.to_string()));
    }
    pub fn ok(&self) -> bool {
        self.violations.is_empty()
    }
}

fn is_tag_key(k: &str) -> bool {
    k.len() == 8 && k.bytes().all(|c| c.is_ascii_digit() || (b'A'..=b'F').contains(&c))
}

fn decimal_string(s: &str) -> bool {
    let t = s.strip_prefix('-').or_else(|| s.strip_prefix('+')).unwrap_or(s);
    !t.is_empty() && t.bytes().all(|c| c.is_ascii_digit())
}

/// numeric string in the sense of DS/IS: parses as a decimal number
fn numeric_string(s: &str) -> bool {
    let t = s.trim_matches(' ');
    !t.is_empty() && t.bytes().all(|c| c.is_ascii_digit() || matches!(c, b'+' | b'-' | b'.' | b'e' | b'E')) && t.parse::<f64>().is_ok()
}

fn integral_in(n: &str, lo: i128, hi: i128) -> bool {
    // accept integers, and floats with zero fraction ("1.0" is still the number 1)
    if let Ok(v) = n.parse::<i128>() {
        return v >= lo && v <= hi;
    }
    match n.parse::<f64>() {
        Ok(f) => f.fract() == 0.0 && f >= lo as f64 && f <= hi as f64,
        Err(_) => false,
    }
}

/// Validate a data set (top level or sequence item).
pub fn validate_dataset(j: &J, path: &str, r: &mut Report) {
    let members = match j {
        J::Obj(m) => m,
        other => {
            r.v("dataset-not-object", path, format!("a data set must be a JSON object, found {}", other.kind()));
            return;
        }
    };
    let mut prev: Option<&str> = None;
    for (k, v) in members {
        let p = format!("{path}/{k}");
        if !is_tag_key(k) {
            r.v("key-not-8-upper-hex", &p, format!("member name {k:?} is not eight upper-case hexadecimal digits"));
        }
        if let Some(pk) = prev {
            if pk == k.as_str() {
                r.v("key-duplicate", &p, format!("member {k} occurs twice"));
            } else if pk > k.as_str() {
                r.v("key-order", &p, format!("member {k} follows {pk}: not ascending"));
            }
        }
        prev = Some(k);
        validate_attribute(v, &p, r);
    }
}

fn validate_attribute(j: &J, path: &str, r: &mut Report) {
    r.attributes += 1;
    let members = match j {
        J::Obj(m) => m,
        other => {
            r.v("attribute-not-object", path, format!("an attribute must be a JSON object, found {}", other.kind()));
            return;
        }
    };
    for (i, (k, _)) in members.iter().enumerate() {
        if !matches!(k.as_str(), "vr" | "Value" | "BulkDataURI" | "InlineBinary") {
            r.v("attribute-unknown-member", path, format!("unknown member {k:?}"));
        }
        if members[..i].iter().any(|(o, _)| o == k) {
            r.v("attribute-duplicate-member", path, format!("member {k:?} occurs twice"));
        }
    }
    let vr = match j.get("vr") {
        None => {
            r.v("vr-missing", path, "attribute without \"vr\"".into());
            return;
        }
        Some(J::Str(s)) => {
            if !VRS.contains(&s.as_str()) {
                r.v("vr-unknown", path, format!("unknown VR {s:?}"));
                return;
            }
            s.as_str()
        }
        Some(o) => {
            r.v("vr-not-string", path, format!("\"vr\" is a {}", o.kind()));
            return;
        }
    };
    let n = ["Value", "BulkDataURI", "InlineBinary"].iter().filter(|k| j.get(k).is_some()).count();
    if n > 1 {
        r.v("attribute-value-conflict", path, "more than one of Value / BulkDataURI / InlineBinary".into());
    }
    if let Some(b) = j.get("BulkDataURI") {
        if !matches!(b, J::Str(_)) {
            r.v("bulkdatauri-not-string", path, format!("BulkDataURI is a {}", b.kind()));
        }
    }
    if let Some(b) = j.get("InlineBinary") {
        match b {
            J::Str(s) => {
                if !BINARY_VRS.contains(&vr) {
                    r.v("inlinebinary-on-non-binary-vr", path, format!("InlineBinary on VR {vr}"));
                }
                match base64_decode(s) {
                    None => r.v("inlinebinary-not-base64", path, format!("{s:?} is not padded base64")),
                    Some(d) if d.is_empty() => r.v("empty-value-present", path, "InlineBinary of zero bytes: an empty value has no Value/InlineBinary member".into()),
                    Some(_) => {}
                }
            }
            o => r.v("inlinebinary-not-string", path, format!("InlineBinary is a {}", o.kind())),
        }
    }
    let Some(value) = j.get("Value") else { return };
    let items = match value {
        J::Arr(a) => a,
        o => {
            r.v("value-not-array", path, format!("Value is a {}", o.kind()));
            return;
        }
    };
    if BINARY_VRS.contains(&vr) {
        r.v("value-on-binary-vr", path, format!("VR {vr} must use InlineBinary or BulkDataURI, not Value"));
        return;
    }
    if items.is_empty() {
        if vr == "SQ" {
            // a sequence of zero items: the standard's wording (empty -> no Value) and its statement
            // (sequence -> array of items) both apply; accepted, noted
            r.note("sq-empty-value-array", path);
        } else {
            r.v("empty-value-present", path, "Value is an empty array: an empty value has no Value member".into());
        }
        return;
    }
    for (i, it) in items.iter().enumerate() {
        let p = format!("{path}/Value[{i}]");
        match vr {
            "SQ" => validate_dataset(it, &p, r),
            "PN" => match it {
                J::Obj(m) => {
                    if m.is_empty() {
                        r.v("pn-no-alphabetic", &p, "person name object without Alphabetic".into());
                    }
                    for (k, v) in m {
                        if !matches!(k.as_str(), "Alphabetic" | "Ideographic" | "Phonetic") {
                            r.v("pn-unknown-member", &p, format!("unknown person name member {k:?}"));
                        }
                        match v {
                            J::Str(s) => {
                                if s.contains('=') {
                                    r.note("pn-group-delimiter-inside-component-group", &p);
                                }
                            }
                            o => r.v("pn-member-not-string", &p, format!("{k} is a {}", o.kind())),
                        }
                    }
                    if !m.is_empty() && !m.iter().any(|(k, _)| k == "Alphabetic") {
                        r.v("pn-no-alphabetic", &p, "person name object without Alphabetic".into());
                    }
                }
                J::Null => {}
                o => r.v("pn-not-object", &p, format!("PN value is a {}", o.kind())),
            },
            "AT" => match it {
                J::Str(s) if is_tag_key(s) => {}
                J::Str(s) => r.v("at-not-8-hex", &p, format!("AT value {s:?} is not eight upper-case hexadecimal digits")),
                o => r.v("at-not-string", &p, format!("AT value is a {}", o.kind())),
            },
            "FL" | "FD" => match it {
                J::Num(_) => {}
                J::Str(s) if matches!(s.as_str(), "NaN" | "inf" | "-inf") => {}
                J::Null => {}
                o => r.v("float-not-number", &p, format!("{vr} value is {} {:?}", o.kind(), o)),
            },
            "SS" | "US" | "SL" | "UL" => {
                let (lo, hi): (i128, i128) = match vr {
                    "SS" => (i16::MIN as i128, i16::MAX as i128),
                    "US" => (0, u16::MAX as i128),
                    "SL" => (i32::MIN as i128, i32::MAX as i128),
                    _ => (0, u32::MAX as i128),
                };
                match it {
                    J::Num(n) if integral_in(n, lo, hi) => {}
                    J::Num(n) => r.v("integer-out-of-range", &p, format!("{vr} value {n}")),
                    J::Null => {}
                    o => r.v("integer-not-number", &p, format!("{vr} value is {} {:?}", o.kind(), o)),
                }
            }
            "SV" | "UV" => {
                let (lo, hi): (i128, i128) = if vr == "SV" { (i64::MIN as i128, i64::MAX as i128) } else { (0, u64::MAX as i128) };
                match it {
                    J::Num(n) if integral_in(n, lo, hi) => {}
                    J::Str(s) if decimal_string(s) && s.parse::<i128>().map(|v| v >= lo && v <= hi).unwrap_or(false) => {}
                    J::Null => {}
                    o => r.v("int64-not-number-or-decimal-string", &p, format!("{vr} value is {} {:?}", o.kind(), o)),
                }
            }
            "IS" | "DS" => match it {
                J::Num(_) => {}
                J::Str(s) if numeric_string(s) => {}
                // an empty or blank (padding only) item: the statement checked does not constrain IS/DS
                J::Str(s) if s.trim_matches(' ').is_empty() => r.note("empty-string-in-value-array", &p),
                J::Null => {}
                o => r.v("numeric-string-invalid", &p, format!("{vr} value is {} {:?}", o.kind(), o)),
            },
            v if STRING_VRS.contains(&v) => match it {
                J::Str(s) => {
                    if s.is_empty() {
                        r.note("empty-string-in-value-array", &p)
                    }
                }
                J::Null => {}
                o => r.v("string-vr-not-string", &p, format!("{vr} value is a {}", o.kind())),
            },
            _ => unreachable!("VR table covers {vr}"),
        }
    }
}

/// Validate a JSON text: syntax, then structure. Member order is checked on the text itself.
pub fn validate_text(text: &str) -> Result<Report, JsonError> {
    let j = parse_json(text)?;
    let mut r = Report::default();
    validate_dataset(&j, "", &mut r);
    Ok(r)
}

/// Validate a `serde_json::Value` (member order as the map iterates).
pub fn validate(v: &serde_json::Value) -> Report {
    let mut r = Report::default();
    validate_dataset(&from_serde(v), "", &mut r);
    r
}

/// The bytes of an `InlineBinary` member, if present and valid.
pub fn inline_binary(attr: &J) -> Option<Vec<u8>> {
    match attr.get("InlineBinary") {
        Some(J::Str(s)) => base64_decode(s),
        _ => None,
    }
}

#[cfg(test)]
mod tests {
    use super::*;
    #[test]
    fn b64() {
        assert_eq!(base64_decode("").unwrap(), b"");
        assert_eq!(base64_decode("Zg==").unwrap(), b"f");
        assert_eq!(base64_decode("Zm8=").unwrap(), b"fo");
        assert_eq!(base64_decode("Zm9v").unwrap(), b"foo");
        assert_eq!(base64_decode("Zm9vYmE=").unwrap(), b"fooba");
        assert_eq!(base64_decode("z0x9c8v7").unwrap(), vec![0xcf, 0x4c, 0x7d, 0x73, 0xcb, 0xfb]);
        assert!(base64_decode("Zg=").is_none());
        assert!(base64_decode("Zh==").is_none());
        assert!(base64_decode("Z===").is_none());
        assert!(base64_decode("Zg==Zg==").is_none());
    }
    #[test]
    fn good_and_bad() {
        let good = r#"{"00080005":{"vr":"CS","Value":["ISO_IR 192"]},"00080090":{"vr":"PN","Value":[{"Alphabetic":"A^B"}]},
          "00081140":{"vr":"SQ","Value":[{"00080018":{"vr":"UI","Value":["1.2"]}},{}]},"00089459":{"vr":"FL","Value":[1.5,"NaN","-inf"]},
          "00091002":{"vr":"UN","InlineBinary":"z0x9c8v7"},"00101010":{"vr":"AS"},
          "00209165":{"vr":"AT","Value":["00080005"]},"00280010":{"vr":"US","Value":[512]},
          "00720082":{"vr":"SV","Value":["-9223372036854775808", 5]}}"#;
        let r = validate_text(good).unwrap();
        assert!(r.ok(), "{:?}", r.violations);
        let kinds = |t: &str| -> Vec<String> { validate_text(t).unwrap().violations.into_iter().map(|v| v.kind).collect() };
        assert_eq!(kinds(r#"{"00209165":{"vr":"AT","Value":["(0008,0005)"]}}"#), vec!["at-not-8-hex"]);
        assert_eq!(kinds(r#"{"00280010":{"vr":"US","Value":["512"]}}"#), vec!["integer-not-number"]);
        assert_eq!(kinds(r#"{"00280010":{"vr":"US","Value":[]}}"#), vec!["empty-value-present"]);
        assert_eq!(kinds(r#"{"00280010":{"vr":"US","Value":[70000]}}"#), vec!["integer-out-of-range"]);
        assert_eq!(kinds(r#"{"0028001a":{"vr":"US"}}"#), vec!["key-not-8-upper-hex"]);
        assert_eq!(kinds(r#"{"00280010":{"vr":"US"},"00080005":{"vr":"CS"}}"#), vec!["key-order"]);
        assert_eq!(kinds(r#"{"00280010":{"Value":[1]}}"#), vec!["vr-missing"]);
        assert_eq!(kinds(r#"{"00080090":{"vr":"PN","Value":["A^B"]}}"#), vec!["pn-not-object"]);
        assert_eq!(kinds(r#"{"00080090":{"vr":"PN","Value":[{"Phonetic":"x"}]}}"#), vec!["pn-no-alphabetic"]);
        assert_eq!(kinds(r#"{"7FE00010":{"vr":"OW","Value":[1]}}"#), vec!["value-on-binary-vr"]);
        assert_eq!(kinds(r#"{"7FE00010":{"vr":"OW","InlineBinary":"AQ="}}"#), vec!["inlinebinary-not-base64"]);
        assert_eq!(kinds(r#"{"00081140":{"vr":"SQ","Value":[1]}}"#), vec!["dataset-not-object"]);
        assert!(parse_json("{\"a\":1,}").is_err());
        assert!(parse_json("{\"a\":01}").is_err());
        assert_eq!(parse_json(r#""é😀""#).unwrap(), J::Str("é😀".into()));
    }
}
