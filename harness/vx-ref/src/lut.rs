//! Reference grey-scale pipeline of PS3.3 C.7.6.3.1 (stored value), C.11.1 (Modality LUT, rescale)
//! and C.11.2.1.2 / C.11.2.1.3 (VOI LUT functions LINEAR, LINEAR_EXACT, SIGMOID), in f64.
//! No dicom-rs dependency.

#[derive(Clone, Copy, Debug, PartialEq, Eq, Hash)]
pub enum Func {
    Linear,
    LinearExact,
    Sigmoid,
}

impl Func {
    pub const ALL: [Func; 3] = [Func::Linear, Func::LinearExact, Func::Sigmoid];
    pub fn name(self) -> &'static str {
        match self {
            Func::Linear => "LINEAR",
            Func::LinearExact => "LINEAR_EXACT",
            Func::Sigmoid => "SIGMOID",
        }
    }
}

/// The stored pixel value of a raw sample: the low `bits_stored` bits (High Bit = Bits Stored - 1),
/// bits above the high bit ignored, two's complement when Pixel Representation is 1.
pub fn stored_value(raw: u32, bits_stored: u32, signed: bool) -> i64 {
    assert!((1..=32).contains(&bits_stored));
    let mask: u64 = (1u64 << bits_stored) - 1;
    let v = (raw as u64 & mask) as i64;
    if signed && (v >> (bits_stored - 1)) & 1 == 1 {
        v - (1i64 << bits_stored)
    } else {
        v
    }
}

/// C.11.1.1.2: output units = m * SV + b
pub fn rescale(sv: f64, slope: f64, intercept: f64) -> f64 {
    slope * sv + intercept
}

/// Window Width is >= 1 for LINEAR and SIGMOID, > 0 for LINEAR_EXACT (C.11.2.1.2.1, C.11.2.1.3);
/// dicom-rs documents that a smaller width is clamped to 1 (0 for LINEAR_EXACT).
pub fn clamp_width(f: Func, w: f64) -> f64 {
    match f {
        Func::LinearExact => w.max(0.0),
        _ => w.max(1.0),
    }
}

/// VOI LUT function with y_min = 0.
pub fn window(f: Func, x: f64, c: f64, w: f64, y_max: f64) -> f64 {
    let y_min = 0.0;
    match f {
        Func::Linear => {
            // if (x <= c - 0.5 - (w-1)/2) y = ymin
            // else if (x > c - 0.5 + (w-1)/2) y = ymax
            // else y = ((x - (c - 0.5)) / (w-1) + 0.5) * (ymax - ymin) + ymin
            if x <= c - 0.5 - (w - 1.0) / 2.0 {
                y_min
            } else if x > c - 0.5 + (w - 1.0) / 2.0 {
                y_max
            } else {
                ((x - (c - 0.5)) / (w - 1.0) + 0.5) * (y_max - y_min) + y_min
            }
        }
        Func::LinearExact => {
            // if (x <= c - w/2) y = ymin; else if (x > c + w/2) y = ymax
            // else y = ((x - c) / w + 0.5) * (ymax - ymin) + ymin
            if x <= c - w / 2.0 {
                y_min
            } else if x > c + w / 2.0 {
                y_max
            } else {
                ((x - c) / w + 0.5) * (y_max - y_min) + y_min
            }
        }
        Func::Sigmoid => {
            // y = (ymax - ymin) / (1 + exp(-4 (x - c) / w)) + ymin
            (y_max - y_min) / (1.0 + (-4.0 * (x - c) / w).exp()) + y_min
        }
    }
}

/// The output amplitude documented for `Lut::new_window` / `new_rescale_and_window`:
/// 2^n - 1 where n is the power of two that follows `bits_stored`.
pub fn documented_y_max(bits_stored: u32) -> f64 {
    let n = bits_stored.next_power_of_two();
    ((1u128 << n) - 1) as f64
}

/// Integers a correct implementation may return when `y` is converted to an integer type by
/// truncation toward zero, allowing for floating-point association differences of relative 1e-9.
/// Returns (lo, hi) inclusive.
pub fn trunc_range(y: f64) -> (f64, f64) {
    let d = 1e-9 * y.abs().max(1.0);
    ((y - d).trunc(), (y + d).trunc())
}

#[cfg(test)]
mod tests {
    use super::*;
    #[test]
    fn standard_examples() {
        // C.11.2.1.2.1 example: c=2048, w=4096 -> x<=0 is ymin, x>4095 is ymax
        assert_eq!(window(Func::Linear, 0.0, 2048.0, 4096.0, 255.0), 0.0);
        assert_eq!(window(Func::Linear, 4095.5, 2048.0, 4096.0, 255.0), 255.0);
        assert!(window(Func::Linear, 0.5, 2048.0, 4096.0, 255.0) > 0.0);
        // c=2048, w=1: x<=2047.5 ymin, else ymax
        assert_eq!(window(Func::Linear, 2047.0, 2048.0, 1.0, 255.0), 0.0);
        assert_eq!(window(Func::Linear, 2048.0, 2048.0, 1.0, 255.0), 255.0);
        // c=0, w=100: x <= -50 ymin, x > 49 ymax
        assert_eq!(window(Func::Linear, -50.0, 0.0, 100.0, 255.0), 0.0);
        assert_eq!(window(Func::Linear, 49.5, 0.0, 100.0, 255.0), 255.0);
        // exact: c=2048, w=4096 -> x<=0 ymin, x>4096 ymax
        assert_eq!(window(Func::LinearExact, 0.0, 2048.0, 4096.0, 255.0), 0.0);
        assert_eq!(window(Func::LinearExact, 4096.0, 2048.0, 4096.0, 255.0), 255.0);
        assert_eq!(window(Func::Sigmoid, 10.0, 10.0, 5.0, 200.0), 100.0);
        assert_eq!(stored_value(0xFFF0, 5, true), -16);
        assert_eq!(stored_value(0x0010, 5, true), -16);
        assert_eq!(stored_value(0x001F, 5, false), 31);
        assert_eq!(stored_value(0x8000, 16, true), -32768);
        assert_eq!(documented_y_max(12), 65535.0);
        assert_eq!(documented_y_max(8), 255.0);
        assert_eq!(documented_y_max(3), 15.0);
    }
}
