//! Independent model of the DICOM upper layer PDUs (PS3.8 section 9.3, Annex D of PS3.7 for the
//! user information sub-items), with an encoder that derives every length field from content and
//! a strict parser that checks every length field against content.
//!
//! No dicom-rs dependency. Text fields are kept as raw bytes (no trimming, no character set
//! conversion) so that the model is exact; `text()` gives the trimmed reading
//! (trailing/leading spaces and trailing NULs are not significant).
//!
//! Wire format summary (all integers big endian):
//!
//! ```text
//! PDU            : type(1) reserved(1) length(4) body[length]
//! A-ASSOCIATE-RQ : 01  body = version(2) reserved(2) called(16) calling(16) reserved(32) items*
//! A-ASSOCIATE-AC : 02  same layout (the AE title fields are "reserved, echo of the request")
//! A-ASSOCIATE-RJ : 03  body = reserved(1) result(1) source(1) reason(1)
//! P-DATA-TF      : 04  body = PDV*,  PDV = length(4) context-id(1) control-header(1) data[length-2]
//! A-RELEASE-RQ/RP: 05/06 body = reserved(4)
//! A-ABORT        : 07  body = reserved(2) source(1) reason(1)
//! item           : type(1) reserved(1) length(2) body[length]
//!   10 application context        body = name
//!   20 presentation context (RQ)  body = id(1) reserved(3) [30 abstract syntax] [40 transfer syntax]*
//!   21 presentation context (AC)  body = id(1) reserved(1) result(1) reserved(1) [40 transfer syntax]
//!   50 user information           body = sub-items
//!     51 maximum length           body = u32
//!     52 implementation class UID body = uid
//!     53 asynchronous ops window  body = invoked(2) performed(2)
//!     54 SCP/SCU role selection   body = uid-length(2) uid scu(1) scp(1)
//!     55 implementation version   body = name
//!     56 SOP class extended neg.  body = uid-length(2) uid application-information*
//!     57 SOP class common ext.neg body = uid-length(2) uid service-class-length(2) service-class
//!                                        related-length(2) { uid-length(2) uid }* reserved*
//!     58 user identity (RQ)       body = type(1) positive-response(1) plen(2) primary slen(2) secondary
//!     59 user identity (AC)       body = response-length(2) response
//! ```

use std::fmt::Write as _;

/// PDU type codes
pub const T_ASSOCIATE_RQ: u8 = 0x01;
pub const T_ASSOCIATE_AC: u8 = 0x02;
pub const T_ASSOCIATE_RJ: u8 = 0x03;
pub const T_PDATA: u8 = 0x04;
pub const T_RELEASE_RQ: u8 = 0x05;
pub const T_RELEASE_RP: u8 = 0x06;
pub const T_ABORT: u8 = 0x07;

/// The DICOM application context name (PS3.7 Annex A).
pub const APP_CONTEXT: &str = "1.2.840.10008.3.1.1.1";

/// One presentation data value of a P-DATA-TF PDU.
#[derive(Clone, Debug, PartialEq, Eq, Hash)]
pub struct RPdv {
    pub pc_id: u8,
    /// the message control header byte as on the wire (bit 0: command, bit 1: last fragment)
    pub header: u8,
    pub data: Vec<u8>,
}

impl RPdv {
    pub fn new(pc_id: u8, command: bool, last: bool, data: Vec<u8>) -> Self {
        RPdv { pc_id, header: (command as u8) | ((last as u8) << 1), data }
    }
    pub fn is_command(&self) -> bool {
        self.header & 1 != 0
    }
    pub fn is_last(&self) -> bool {
        self.header & 2 != 0
    }
}

/// Proposed presentation context (item 20H).
#[derive(Clone, Debug, PartialEq, Eq, Hash)]
pub struct RPcRq {
    pub id: u8,
    pub abstract_syntax: Vec<u8>,
    pub transfer_syntaxes: Vec<Vec<u8>>,
}

/// Presentation context result (item 21H).
#[derive(Clone, Debug, PartialEq, Eq, Hash)]
pub struct RPcAc {
    pub id: u8,
    /// 0 acceptance, 1 user-rejection, 2 no-reason, 3 abstract-syntax-not-supported,
    /// 4 transfer-syntaxes-not-supported
    pub result: u8,
    pub transfer_syntax: Vec<u8>,
}

/// User information sub-items (PS3.8 Annex D, PS3.7 Annex D).
#[derive(Clone, Debug, PartialEq, Eq, Hash)]
pub enum RUserItem {
    MaxLength(u32),
    ImplClassUid(Vec<u8>),
    AsyncOpsWindow { invoked: u16, performed: u16 },
    RoleSelection { uid: Vec<u8>, scu: u8, scp: u8 },
    ImplVersionName(Vec<u8>),
    ExtNeg { uid: Vec<u8>, info: Vec<u8> },
    CommonExtNeg { uid: Vec<u8>, service_class: Vec<u8>, related: Vec<Vec<u8>>, reserved: Vec<u8> },
    UserIdentityRq { id_type: u8, positive_response: u8, primary: Vec<u8>, secondary: Vec<u8> },
    UserIdentityAc { response: Vec<u8> },
    Unknown { item_type: u8, data: Vec<u8> },
}

impl RUserItem {
    pub fn item_type(&self) -> u8 {
        match self {
            RUserItem::MaxLength(_) => 0x51,
            RUserItem::ImplClassUid(_) => 0x52,
            RUserItem::AsyncOpsWindow { .. } => 0x53,
            RUserItem::RoleSelection { .. } => 0x54,
            RUserItem::ImplVersionName(_) => 0x55,
            RUserItem::ExtNeg { .. } => 0x56,
            RUserItem::CommonExtNeg { .. } => 0x57,
            RUserItem::UserIdentityRq { .. } => 0x58,
            RUserItem::UserIdentityAc { .. } => 0x59,
            RUserItem::Unknown { item_type, .. } => *item_type,
        }
    }
}

/// Common part of A-ASSOCIATE-RQ and A-ASSOCIATE-AC.
#[derive(Clone, Debug, PartialEq, Eq, Hash)]
pub struct RAssocHead {
    pub protocol_version: u16,
    /// bytes 11-26, exactly 16 bytes
    pub called_ae: Vec<u8>,
    /// bytes 27-42, exactly 16 bytes
    pub calling_ae: Vec<u8>,
    pub app_context: Vec<u8>,
    /// `None`: no user information item at all (not permitted by the standard, but representable)
    pub user_info: Option<Vec<RUserItem>>,
}

impl RAssocHead {
    pub fn new(called: &str, calling: &str) -> Self {
        RAssocHead {
            protocol_version: 1,
            called_ae: ae16(called),
            calling_ae: ae16(calling),
            app_context: APP_CONTEXT.as_bytes().to_vec(),
            user_info: Some(vec![]),
        }
    }
    /// The value of the Maximum Length sub-item, if present.
    pub fn max_length(&self) -> Option<u32> {
        self.user_info.as_ref()?.iter().find_map(|u| match u {
            RUserItem::MaxLength(v) => Some(*v),
            _ => None,
        })
    }
}

/// A protocol data unit.
#[derive(Clone, Debug, PartialEq, Eq, Hash)]
pub enum RPdu {
    AssociateRq { head: RAssocHead, pcs: Vec<RPcRq> },
    AssociateAc { head: RAssocHead, pcs: Vec<RPcAc> },
    AssociateRj { result: u8, source: u8, reason: u8 },
    PData(Vec<RPdv>),
    ReleaseRq,
    ReleaseRp,
    Abort { source: u8, reason: u8 },
    Unknown { pdu_type: u8, data: Vec<u8> },
}

impl RPdu {
    pub fn pdu_type(&self) -> u8 {
        match self {
            RPdu::AssociateRq { .. } => T_ASSOCIATE_RQ,
            RPdu::AssociateAc { .. } => T_ASSOCIATE_AC,
            RPdu::AssociateRj { .. } => T_ASSOCIATE_RJ,
            RPdu::PData(_) => T_PDATA,
            RPdu::ReleaseRq => T_RELEASE_RQ,
            RPdu::ReleaseRp => T_RELEASE_RP,
            RPdu::Abort { .. } => T_ABORT,
            RPdu::Unknown { pdu_type, .. } => *pdu_type,
        }
    }

    /// Short kind label: ARQ, AAC, ARJ, DATA, RRQ, RRP, ABORT, UNK.
    pub fn kind(&self) -> &'static str {
        match self {
            RPdu::AssociateRq { .. } => "ARQ",
            RPdu::AssociateAc { .. } => "AAC",
            RPdu::AssociateRj { .. } => "ARJ",
            RPdu::PData(_) => "DATA",
            RPdu::ReleaseRq => "RRQ",
            RPdu::ReleaseRp => "RRP",
            RPdu::Abort { .. } => "ABORT",
            RPdu::Unknown { .. } => "UNK",
        }
    }

    /// Readable one-line rendering with long byte strings abbreviated.
    pub fn summary(&self) -> String {
        fn bytes(b: &[u8]) -> String {
            if b.len() <= 24 && b.iter().all(|c| (0x20..0x7f).contains(c)) {
                format!("{:?}", String::from_utf8_lossy(b))
            } else if b.len() <= 12 {
                format!("x{}", hex(b))
            } else {
                format!("x{}..({} bytes)", hex(&b[..8]), b.len())
            }
        }
        fn users(u: &Option<Vec<RUserItem>>) -> String {
            match u {
                None => "no-user-info".into(),
                Some(v) => {
                    let mut s = String::from("user[");
                    for (i, it) in v.iter().enumerate() {
                        if i > 0 {
                            s.push(' ');
                        }
                        match it {
                            RUserItem::MaxLength(m) => write!(s, "max={m}").unwrap(),
                            RUserItem::ImplClassUid(b) => write!(s, "impl={}", bytes(b)).unwrap(),
                            RUserItem::AsyncOpsWindow { invoked, performed } => {
                                write!(s, "async={invoked}/{performed}").unwrap()
                            }
                            RUserItem::RoleSelection { uid, scu, scp } => {
                                write!(s, "role({},{scu},{scp})", bytes(uid)).unwrap()
                            }
                            RUserItem::ImplVersionName(b) => write!(s, "ver={}", bytes(b)).unwrap(),
                            RUserItem::ExtNeg { uid, info } => {
                                write!(s, "ext({},{})", bytes(uid), bytes(info)).unwrap()
                            }
                            RUserItem::CommonExtNeg { uid, service_class, related, reserved } => write!(
                                s,
                                "cext({},{},{} related,{} reserved)",
                                bytes(uid),
                                bytes(service_class),
                                related.len(),
                                reserved.len()
                            )
                            .unwrap(),
                            RUserItem::UserIdentityRq { id_type, positive_response, primary, secondary } => write!(
                                s,
                                "uid-rq({id_type},{positive_response},{},{})",
                                bytes(primary),
                                bytes(secondary)
                            )
                            .unwrap(),
                            RUserItem::UserIdentityAc { response } => {
                                write!(s, "uid-ac({})", bytes(response)).unwrap()
                            }
                            RUserItem::Unknown { item_type, data } => {
                                write!(s, "unk{:02X}({})", item_type, bytes(data)).unwrap()
                            }
                        }
                    }
                    s.push(']');
                    s
                }
            }
        }
        fn head(h: &RAssocHead) -> String {
            format!(
                "v{} called={} calling={} app={}",
                h.protocol_version,
                bytes(&h.called_ae),
                bytes(&h.calling_ae),
                bytes(&h.app_context)
            )
        }
        match self {
            RPdu::AssociateRq { head: h, pcs } => {
                let mut s = format!("A-ASSOCIATE-RQ {} ", head(h));
                for pc in pcs {
                    write!(s, "pc{}({};", pc.id, bytes(&pc.abstract_syntax)).unwrap();
                    for ts in &pc.transfer_syntaxes {
                        write!(s, " {}", bytes(ts)).unwrap();
                    }
                    s.push_str(") ");
                }
                s + &users(&h.user_info)
            }
            RPdu::AssociateAc { head: h, pcs } => {
                let mut s = format!("A-ASSOCIATE-AC {} ", head(h));
                for pc in pcs {
                    write!(s, "pc{}(r{} {}) ", pc.id, pc.result, bytes(&pc.transfer_syntax)).unwrap();
                }
                s + &users(&h.user_info)
            }
            RPdu::AssociateRj { result, source, reason } => {
                format!("A-ASSOCIATE-RJ result={result} source={source} reason={reason}")
            }
            RPdu::PData(pdvs) => {
                let mut s = String::from("P-DATA-TF");
                for v in pdvs {
                    write!(
                        s,
                        " pdv(pc{} {}{} {})",
                        v.pc_id,
                        if v.is_command() { "cmd" } else { "data" },
                        if v.is_last() { " last" } else { "" },
                        bytes(&v.data)
                    )
                    .unwrap();
                }
                s
            }
            RPdu::ReleaseRq => "A-RELEASE-RQ".into(),
            RPdu::ReleaseRp => "A-RELEASE-RP".into(),
            RPdu::Abort { source, reason } => format!("A-ABORT source={source} reason={reason}"),
            RPdu::Unknown { pdu_type, data } => format!("PDU-{:02X} {}", pdu_type, bytes(data)),
        }
    }
}

/// Lower-case hex rendering.
pub fn hex(b: &[u8]) -> String {
    let mut s = String::with_capacity(b.len() * 2);
    for x in b {
        write!(s, "{x:02x}").unwrap();
    }
    s
}

/// An AE title field: the text padded with spaces to 16 bytes (longer text is cut at 16).
pub fn ae16(s: &str) -> Vec<u8> {
    let mut v = s.as_bytes().to_vec();
    v.resize(16, b' ');
    v
}

/// The significant part of a text field: leading/trailing spaces and trailing NULs removed.
pub fn text(b: &[u8]) -> String {
    let s = String::from_utf8_lossy(b);
    s.trim_matches(|c: char| c == ' ' || c == '\0').to_string()
}

// ------------------------------------------------------------------------------------------------
// encoder

/// Frame `body` as an item / sub-item with a 16-bit length. `Err` if the body does not fit.
pub fn item(item_type: u8, body: &[u8]) -> Result<Vec<u8>, String> {
    if body.len() > 0xFFFF {
        return Err(format!("item {:02X}H: content of {} bytes does not fit a 16-bit length", item_type, body.len()));
    }
    let mut v = Vec::with_capacity(4 + body.len());
    v.push(item_type);
    v.push(0);
    v.extend_from_slice(&(body.len() as u16).to_be_bytes());
    v.extend_from_slice(body);
    Ok(v)
}

/// Frame `body` as a PDU with a 32-bit length.
pub fn frame(pdu_type: u8, body: &[u8]) -> Result<Vec<u8>, String> {
    if body.len() > 0xFFFF_FFFF {
        return Err("PDU body does not fit a 32-bit length".into());
    }
    let mut v = Vec::with_capacity(6 + body.len());
    v.push(pdu_type);
    v.push(0);
    v.extend_from_slice(&(body.len() as u32).to_be_bytes());
    v.extend_from_slice(body);
    Ok(v)
}

fn len16(what: &str, b: &[u8]) -> Result<[u8; 2], String> {
    if b.len() > 0xFFFF {
        return Err(format!("{what}: {} bytes do not fit a 16-bit length", b.len()));
    }
    Ok((b.len() as u16).to_be_bytes())
}

/// Encode one user information sub-item.
pub fn encode_user_item(u: &RUserItem) -> Result<Vec<u8>, String> {
    let mut b = Vec::new();
    match u {
        RUserItem::MaxLength(m) => b.extend_from_slice(&m.to_be_bytes()),
        RUserItem::ImplClassUid(x) | RUserItem::ImplVersionName(x) => b.extend_from_slice(x),
        RUserItem::AsyncOpsWindow { invoked, performed } => {
            b.extend_from_slice(&invoked.to_be_bytes());
            b.extend_from_slice(&performed.to_be_bytes());
        }
        RUserItem::RoleSelection { uid, scu, scp } => {
            b.extend_from_slice(&len16("role selection uid", uid)?);
            b.extend_from_slice(uid);
            b.push(*scu);
            b.push(*scp);
        }
        RUserItem::ExtNeg { uid, info } => {
            b.extend_from_slice(&len16("extended negotiation uid", uid)?);
            b.extend_from_slice(uid);
            b.extend_from_slice(info);
        }
        RUserItem::CommonExtNeg { uid, service_class, related, reserved } => {
            b.extend_from_slice(&len16("common extended negotiation uid", uid)?);
            b.extend_from_slice(uid);
            b.extend_from_slice(&len16("service class uid", service_class)?);
            b.extend_from_slice(service_class);
            let mut rel = Vec::new();
            for r in related {
                rel.extend_from_slice(&len16("related general sop class uid", r)?);
                rel.extend_from_slice(r);
            }
            b.extend_from_slice(&len16("related general sop class identification", &rel)?);
            b.extend_from_slice(&rel);
            b.extend_from_slice(reserved);
        }
        RUserItem::UserIdentityRq { id_type, positive_response, primary, secondary } => {
            b.push(*id_type);
            b.push(*positive_response);
            b.extend_from_slice(&len16("primary field", primary)?);
            b.extend_from_slice(primary);
            b.extend_from_slice(&len16("secondary field", secondary)?);
            b.extend_from_slice(secondary);
        }
        RUserItem::UserIdentityAc { response } => {
            b.extend_from_slice(&len16("server response", response)?);
            b.extend_from_slice(response);
        }
        RUserItem::Unknown { data, .. } => b.extend_from_slice(data),
    }
    item(u.item_type(), &b)
}

fn encode_head(h: &RAssocHead, pcs: Vec<Vec<u8>>) -> Result<Vec<u8>, String> {
    if h.called_ae.len() != 16 || h.calling_ae.len() != 16 {
        return Err("AE title fields must be exactly 16 bytes".into());
    }
    let mut b = Vec::new();
    b.extend_from_slice(&h.protocol_version.to_be_bytes());
    b.extend_from_slice(&[0, 0]);
    b.extend_from_slice(&h.called_ae);
    b.extend_from_slice(&h.calling_ae);
    b.extend_from_slice(&[0u8; 32]);
    b.extend(item(0x10, &h.app_context)?);
    for pc in pcs {
        b.extend(pc);
    }
    if let Some(users) = &h.user_info {
        let mut ub = Vec::new();
        for u in users {
            ub.extend(encode_user_item(u)?);
        }
        b.extend(item(0x50, &ub)?);
    }
    Ok(b)
}

/// Encode a PDU. Every length field is derived from the content it frames;
/// `Err` when some content does not fit its length field.
pub fn encode(p: &RPdu) -> Result<Vec<u8>, String> {
    match p {
        RPdu::AssociateRq { head, pcs } => {
            let mut items = Vec::new();
            for pc in pcs {
                let mut b = vec![pc.id, 0, 0, 0];
                b.extend(item(0x30, &pc.abstract_syntax)?);
                for ts in &pc.transfer_syntaxes {
                    b.extend(item(0x40, ts)?);
                }
                items.push(item(0x20, &b)?);
            }
            frame(T_ASSOCIATE_RQ, &encode_head(head, items)?)
        }
        RPdu::AssociateAc { head, pcs } => {
            let mut items = Vec::new();
            for pc in pcs {
                let mut b = vec![pc.id, 0, pc.result, 0];
                b.extend(item(0x40, &pc.transfer_syntax)?);
                items.push(item(0x21, &b)?);
            }
            frame(T_ASSOCIATE_AC, &encode_head(head, items)?)
        }
        RPdu::AssociateRj { result, source, reason } => frame(T_ASSOCIATE_RJ, &[0, *result, *source, *reason]),
        RPdu::PData(pdvs) => {
            let mut b = Vec::new();
            for v in pdvs {
                let l = v.data.len() + 2;
                if l > 0xFFFF_FFFF {
                    return Err("PDV does not fit a 32-bit length".into());
                }
                b.extend_from_slice(&(l as u32).to_be_bytes());
                b.push(v.pc_id);
                b.push(v.header);
                b.extend_from_slice(&v.data);
            }
            frame(T_PDATA, &b)
        }
        RPdu::ReleaseRq => frame(T_RELEASE_RQ, &[0; 4]),
        RPdu::ReleaseRp => frame(T_RELEASE_RP, &[0; 4]),
        RPdu::Abort { source, reason } => frame(T_ABORT, &[0, 0, *source, *reason]),
        RPdu::Unknown { pdu_type, data } => frame(*pdu_type, data),
    }
}

/// Encode a sequence of PDUs into one byte stream; also returns the end offset of every PDU.
pub fn encode_stream(pdus: &[RPdu]) -> Result<(Vec<u8>, Vec<usize>), String> {
    let mut out = Vec::new();
    let mut ends = Vec::new();
    for p in pdus {
        out.extend(encode(p)?);
        ends.push(out.len());
    }
    Ok((out, ends))
}

// ------------------------------------------------------------------------------------------------
// strict parser

/// What the strict parser insists on beyond exact framing.
#[derive(Clone, Copy, Debug)]
pub struct ParseOpts {
    /// reserved bytes must be zero ("shall be sent with a value 00H"): right for checking a sender
    pub reserved_zero: bool,
    /// application context first, then presentation contexts, then user information;
    /// abstract syntax before transfer syntaxes
    pub item_order: bool,
}

impl Default for ParseOpts {
    fn default() -> Self {
        ParseOpts { reserved_zero: true, item_order: true }
    }
}

impl ParseOpts {
    /// Framing only: lengths must be exact, reserved bytes and item order are not checked.
    pub fn lenient() -> Self {
        ParseOpts { reserved_zero: false, item_order: false }
    }
}

struct Cur<'a> {
    b: &'a [u8],
    pos: usize,
    what: &'static str,
}

impl<'a> Cur<'a> {
    fn new(b: &'a [u8], what: &'static str) -> Self {
        Cur { b, pos: 0, what }
    }
    fn rest(&self) -> usize {
        self.b.len() - self.pos
    }
    fn take(&mut self, n: usize, field: &str) -> Result<&'a [u8], String> {
        if self.rest() < n {
            return Err(format!(
                "{}: field {field} needs {n} bytes at offset {}, only {} left",
                self.what,
                self.pos,
                self.rest()
            ));
        }
        let s = &self.b[self.pos..self.pos + n];
        self.pos += n;
        Ok(s)
    }
    fn u8(&mut self, field: &str) -> Result<u8, String> {
        Ok(self.take(1, field)?[0])
    }
    fn u16(&mut self, field: &str) -> Result<u16, String> {
        let s = self.take(2, field)?;
        Ok(u16::from_be_bytes([s[0], s[1]]))
    }
    fn u32(&mut self, field: &str) -> Result<u32, String> {
        let s = self.take(4, field)?;
        Ok(u32::from_be_bytes([s[0], s[1], s[2], s[3]]))
    }
    fn reserved(&mut self, n: usize, o: &ParseOpts) -> Result<(), String> {
        let at = self.pos;
        let s = self.take(n, "reserved")?;
        if o.reserved_zero && s.iter().any(|&x| x != 0) {
            return Err(format!("{}: reserved bytes at offset {at} are not zero: {}", self.what, hex(s)));
        }
        Ok(())
    }
    /// item header: (type, body)
    fn item(&mut self, o: &ParseOpts) -> Result<(u8, &'a [u8]), String> {
        let t = self.u8("item type")?;
        self.reserved(1, o)?;
        let l = self.u16("item length")? as usize;
        let body = self.take(l, "item body")?;
        Ok((t, body))
    }
    fn done(&self) -> Result<(), String> {
        if self.rest() != 0 {
            return Err(format!("{}: {} bytes left over inside the length that frames it", self.what, self.rest()));
        }
        Ok(())
    }
}

fn parse_user_item(t: u8, body: &[u8], o: &ParseOpts) -> Result<RUserItem, String> {
    let mut c = Cur::new(body, "user information sub-item");
    let it = match t {
        0x51 => RUserItem::MaxLength(c.u32("maximum length")?),
        0x52 => RUserItem::ImplClassUid(c.take(body.len(), "uid")?.to_vec()),
        0x53 => RUserItem::AsyncOpsWindow { invoked: c.u16("invoked")?, performed: c.u16("performed")? },
        0x54 => {
            let l = c.u16("uid length")? as usize;
            let uid = c.take(l, "uid")?.to_vec();
            RUserItem::RoleSelection { uid, scu: c.u8("scu role")?, scp: c.u8("scp role")? }
        }
        0x55 => RUserItem::ImplVersionName(c.take(body.len(), "name")?.to_vec()),
        0x56 => {
            let l = c.u16("uid length")? as usize;
            let uid = c.take(l, "uid")?.to_vec();
            let info = c.take(c.rest(), "application information")?.to_vec();
            RUserItem::ExtNeg { uid, info }
        }
        0x57 => {
            let l = c.u16("uid length")? as usize;
            let uid = c.take(l, "uid")?.to_vec();
            let l = c.u16("service class uid length")? as usize;
            let service_class = c.take(l, "service class uid")?.to_vec();
            let l = c.u16("related general sop class identification length")? as usize;
            let rel = c.take(l, "related general sop class identification")?;
            let mut rc = Cur::new(rel, "related general sop class identification");
            let mut related = Vec::new();
            while rc.rest() > 0 {
                let l = rc.u16("uid length")? as usize;
                related.push(rc.take(l, "uid")?.to_vec());
            }
            let reserved = c.take(c.rest(), "reserved")?.to_vec();
            RUserItem::CommonExtNeg { uid, service_class, related, reserved }
        }
        0x58 => {
            let id_type = c.u8("user identity type")?;
            let positive_response = c.u8("positive response requested")?;
            let l = c.u16("primary field length")? as usize;
            let primary = c.take(l, "primary field")?.to_vec();
            let l = c.u16("secondary field length")? as usize;
            let secondary = c.take(l, "secondary field")?.to_vec();
            RUserItem::UserIdentityRq { id_type, positive_response, primary, secondary }
        }
        0x59 => {
            let l = c.u16("server response length")? as usize;
            RUserItem::UserIdentityAc { response: c.take(l, "server response")?.to_vec() }
        }
        _ => RUserItem::Unknown { item_type: t, data: c.take(body.len(), "data")?.to_vec() },
    };
    c.done().map_err(|e| format!("sub-item {t:02X}H: {e}"))?;
    let _ = o;
    Ok(it)
}

enum Pc {
    Rq(RPcRq),
    Ac(RPcAc),
}

fn parse_assoc(body: &[u8], is_rq: bool, o: &ParseOpts) -> Result<(RAssocHead, Vec<Pc>), String> {
    let mut c = Cur::new(body, if is_rq { "A-ASSOCIATE-RQ" } else { "A-ASSOCIATE-AC" });
    let protocol_version = c.u16("protocol version")?;
    c.reserved(2, o)?;
    let called_ae = c.take(16, "called AE title")?.to_vec();
    let calling_ae = c.take(16, "calling AE title")?.to_vec();
    c.reserved(32, o)?;
    let mut app_context: Option<Vec<u8>> = None;
    let mut pcs = Vec::new();
    let mut user_info: Option<Vec<RUserItem>> = None;
    while c.rest() > 0 {
        let (t, ib) = c.item(o)?;
        match t {
            0x10 => {
                if app_context.is_some() {
                    return Err("more than one application context item".into());
                }
                if o.item_order && (!pcs.is_empty() || user_info.is_some()) {
                    return Err("application context item is not the first item".into());
                }
                app_context = Some(ib.to_vec());
            }
            0x20 if is_rq => {
                if o.item_order && user_info.is_some() {
                    return Err("presentation context item after the user information item".into());
                }
                let mut pc = Cur::new(ib, "presentation context item (RQ)");
                let id = pc.u8("presentation context id")?;
                pc.reserved(3, o)?;
                let mut abstract_syntax: Option<Vec<u8>> = None;
                let mut transfer_syntaxes = Vec::new();
                while pc.rest() > 0 {
                    let (st, sb) = pc.item(o)?;
                    match st {
                        0x30 => {
                            if abstract_syntax.is_some() {
                                return Err("more than one abstract syntax sub-item".into());
                            }
                            if o.item_order && !transfer_syntaxes.is_empty() {
                                return Err("abstract syntax sub-item after a transfer syntax sub-item".into());
                            }
                            abstract_syntax = Some(sb.to_vec());
                        }
                        0x40 => transfer_syntaxes.push(sb.to_vec()),
                        x => return Err(format!("unexpected sub-item {x:02X}H in a proposed presentation context")),
                    }
                }
                let abstract_syntax =
                    abstract_syntax.ok_or_else(|| "presentation context without abstract syntax".to_string())?;
                pcs.push(Pc::Rq(RPcRq { id, abstract_syntax, transfer_syntaxes }));
            }
            0x21 if !is_rq => {
                if o.item_order && user_info.is_some() {
                    return Err("presentation context item after the user information item".into());
                }
                let mut pc = Cur::new(ib, "presentation context item (AC)");
                let id = pc.u8("presentation context id")?;
                pc.reserved(1, o)?;
                let result = pc.u8("result/reason")?;
                pc.reserved(1, o)?;
                let (st, sb) = pc.item(o)?;
                if st != 0x40 {
                    return Err(format!("unexpected sub-item {st:02X}H in a presentation context result"));
                }
                pc.done()?;
                pcs.push(Pc::Ac(RPcAc { id, result, transfer_syntax: sb.to_vec() }));
            }
            0x50 => {
                if user_info.is_some() {
                    return Err("more than one user information item".into());
                }
                let mut uc = Cur::new(ib, "user information item");
                let mut v = Vec::new();
                while uc.rest() > 0 {
                    let (st, sb) = uc.item(o)?;
                    v.push(parse_user_item(st, sb, o)?);
                }
                user_info = Some(v);
            }
            x => return Err(format!("unexpected item {x:02X}H in {}", c.what)),
        }
    }
    let app_context = app_context.ok_or_else(|| "no application context item".to_string())?;
    Ok((RAssocHead { protocol_version, called_ae, calling_ae, app_context, user_info }, pcs))
}

/// Parse the body of a PDU of the given type (the 6-byte header already removed).
pub fn parse_body(pdu_type: u8, body: &[u8], o: &ParseOpts) -> Result<RPdu, String> {
    match pdu_type {
        T_ASSOCIATE_RQ => {
            let (head, pcs) = parse_assoc(body, true, o)?;
            let pcs = pcs
                .into_iter()
                .map(|p| match p {
                    Pc::Rq(p) => p,
                    Pc::Ac(_) => unreachable!(),
                })
                .collect();
            Ok(RPdu::AssociateRq { head, pcs })
        }
        T_ASSOCIATE_AC => {
            let (head, pcs) = parse_assoc(body, false, o)?;
            let pcs = pcs
                .into_iter()
                .map(|p| match p {
                    Pc::Ac(p) => p,
                    Pc::Rq(_) => unreachable!(),
                })
                .collect();
            Ok(RPdu::AssociateAc { head, pcs })
        }
        T_ASSOCIATE_RJ => {
            let mut c = Cur::new(body, "A-ASSOCIATE-RJ");
            c.reserved(1, o)?;
            let result = c.u8("result")?;
            let source = c.u8("source")?;
            let reason = c.u8("reason")?;
            c.done()?;
            Ok(RPdu::AssociateRj { result, source, reason })
        }
        T_PDATA => {
            let mut c = Cur::new(body, "P-DATA-TF");
            let mut pdvs = Vec::new();
            while c.rest() > 0 {
                let l = c.u32("PDV length")? as usize;
                if l < 2 {
                    return Err(format!("P-DATA-TF: PDV length {l} is smaller than its own 2-byte header"));
                }
                let pc_id = c.u8("presentation context id")?;
                let header = c.u8("message control header")?;
                if o.reserved_zero && header & 0xFC != 0 {
                    return Err(format!("P-DATA-TF: message control header {header:02X}H has reserved bits set"));
                }
                let data = c.take(l - 2, "PDV data")?.to_vec();
                pdvs.push(RPdv { pc_id, header, data });
            }
            Ok(RPdu::PData(pdvs))
        }
        T_RELEASE_RQ | T_RELEASE_RP => {
            let mut c = Cur::new(body, "A-RELEASE");
            c.reserved(4, o)?;
            c.done()?;
            Ok(if pdu_type == T_RELEASE_RQ { RPdu::ReleaseRq } else { RPdu::ReleaseRp })
        }
        T_ABORT => {
            let mut c = Cur::new(body, "A-ABORT");
            c.reserved(2, o)?;
            let source = c.u8("source")?;
            let reason = c.u8("reason")?;
            c.done()?;
            Ok(RPdu::Abort { source, reason })
        }
        t => Ok(RPdu::Unknown { pdu_type: t, data: body.to_vec() }),
    }
}

/// Try to take one PDU from the front of `buf`.
/// `Ok(None)`: the buffer holds only a proper prefix of a PDU (fewer than 6 header bytes, or fewer
/// body bytes than the length field announces). `Ok(Some((pdu, consumed)))` otherwise.
pub fn take_pdu(buf: &[u8], o: &ParseOpts) -> Result<Option<(RPdu, usize)>, String> {
    if buf.len() < 6 {
        return Ok(None);
    }
    if o.reserved_zero && buf[1] != 0 {
        return Err(format!("PDU header: reserved byte is {:02X}H", buf[1]));
    }
    let len = u32::from_be_bytes([buf[2], buf[3], buf[4], buf[5]]) as usize;
    if buf.len() - 6 < len {
        return Ok(None);
    }
    let pdu = parse_body(buf[0], &buf[6..6 + len], o)?;
    Ok(Some((pdu, 6 + len)))
}

/// Parse exactly one PDU occupying the whole of `buf`.
pub fn parse(buf: &[u8], o: &ParseOpts) -> Result<RPdu, String> {
    match take_pdu(buf, o)? {
        None => Err(format!("truncated PDU ({} bytes)", buf.len())),
        Some((p, n)) if n == buf.len() => Ok(p),
        Some((_, n)) => Err(format!("{} bytes follow the PDU", buf.len() - n)),
    }
}

/// Parse a byte stream into complete PDUs; returns the PDUs and the number of trailing bytes that
/// do not form a complete PDU.
pub fn parse_stream(buf: &[u8], o: &ParseOpts) -> Result<(Vec<RPdu>, usize), String> {
    let mut pos = 0;
    let mut out = Vec::new();
    while let Some((p, n)) = take_pdu(&buf[pos..], o).map_err(|e| format!("PDU #{} at offset {pos}: {e}", out.len()))? {
        out.push(p);
        pos += n;
    }
    Ok((out, buf.len() - pos))
}

#[cfg(test)]
mod tests {
    use super::*;

    fn rq() -> RPdu {
        let mut head = RAssocHead::new("SCP", "SCU");
        head.user_info = Some(vec![
            RUserItem::MaxLength(16384),
            RUserItem::ImplClassUid(b"1.2.3".to_vec()),
            RUserItem::AsyncOpsWindow { invoked: 1, performed: 2 },
            RUserItem::RoleSelection { uid: b"1.2.840.10008.1.1".to_vec(), scu: 1, scp: 0 },
            RUserItem::ImplVersionName(b"V1".to_vec()),
            RUserItem::ExtNeg { uid: b"1.2".to_vec(), info: vec![1, 2, 3] },
            RUserItem::CommonExtNeg {
                uid: b"1.2".to_vec(),
                service_class: b"1.3".to_vec(),
                related: vec![b"1.4".to_vec(), b"1.5.6".to_vec()],
                reserved: vec![],
            },
            RUserItem::UserIdentityRq { id_type: 2, positive_response: 1, primary: b"u".to_vec(), secondary: b"pw".to_vec() },
            RUserItem::Unknown { item_type: 0x5A, data: vec![9] },
        ]);
        RPdu::AssociateRq {
            head,
            pcs: vec![
                RPcRq { id: 1, abstract_syntax: b"1.2.840.10008.1.1".to_vec(), transfer_syntaxes: vec![b"1.2.840.10008.1.2".to_vec()] },
                RPcRq { id: 3, abstract_syntax: b"1.2.3".to_vec(), transfer_syntaxes: vec![b"1.2.840.10008.1.2".to_vec(), b"1.2.840.10008.1.2.1".to_vec()] },
            ],
        }
    }

    fn all() -> Vec<RPdu> {
        let mut head = RAssocHead::new("SCP", "SCU");
        head.user_info = Some(vec![RUserItem::MaxLength(0), RUserItem::UserIdentityAc { response: b"ok".to_vec() }]);
        vec![
            rq(),
            RPdu::AssociateAc { head, pcs: vec![RPcAc { id: 1, result: 0, transfer_syntax: b"1.2.840.10008.1.2".to_vec() }] },
            RPdu::AssociateRj { result: 1, source: 1, reason: 7 },
            RPdu::PData(vec![RPdv::new(1, true, true, vec![1, 2, 3]), RPdv::new(1, false, false, vec![])]),
            RPdu::PData(vec![]),
            RPdu::ReleaseRq,
            RPdu::ReleaseRp,
            RPdu::Abort { source: 2, reason: 6 },
            RPdu::Unknown { pdu_type: 0xFF, data: vec![1, 2, 3] },
        ]
    }

    #[test]
    fn known_bytes() {
        assert_eq!(encode(&RPdu::ReleaseRq).unwrap(), [5, 0, 0, 0, 0, 4, 0, 0, 0, 0]);
        assert_eq!(encode(&RPdu::Abort { source: 2, reason: 1 }).unwrap(), [7, 0, 0, 0, 0, 4, 0, 0, 2, 1]);
        assert_eq!(
            encode(&RPdu::PData(vec![RPdv::new(3, false, true, vec![0xAA, 0xBB])])).unwrap(),
            [4, 0, 0, 0, 0, 8, 0, 0, 0, 4, 3, 2, 0xAA, 0xBB]
        );
        // PS3.8 Table 9-11 layout: a minimal request
        let p = RPdu::AssociateRq {
            head: RAssocHead { user_info: Some(vec![RUserItem::MaxLength(0x01020304)]), ..RAssocHead::new("B", "A") },
            pcs: vec![RPcRq { id: 1, abstract_syntax: b"1.1".to_vec(), transfer_syntaxes: vec![b"1.2".to_vec()] }],
        };
        let b = encode(&p).unwrap();
        assert_eq!(&b[..10], &[1, 0, 0, 0, 0, (b.len() - 6) as u8, 0, 1, 0, 0]);
        assert_eq!(&b[10..26], b"B               ");
        assert_eq!(&b[26..42], b"A               ");
        assert!(b[42..74].iter().all(|&x| x == 0));
        let tail = &b[74..];
        let mut want = vec![0x10, 0, 0, 21];
        want.extend_from_slice(APP_CONTEXT.as_bytes());
        want.extend_from_slice(&[0x20, 0, 0, 18, 1, 0, 0, 0, 0x30, 0, 0, 3, b'1', b'.', b'1', 0x40, 0, 0, 3, b'1', b'.', b'2']);
        want.extend_from_slice(&[0x50, 0, 0, 8, 0x51, 0, 0, 4, 1, 2, 3, 4]);
        assert_eq!(tail, &want[..]);
    }

    #[test]
    fn round_trip_and_prefixes() {
        let o = ParseOpts::default();
        for p in all() {
            let b = encode(&p).unwrap();
            assert_eq!(parse(&b, &o).unwrap(), p, "{}", p.summary());
            for k in 0..b.len() {
                assert!(matches!(take_pdu(&b[..k], &o), Ok(None)), "prefix {k} of {}", p.summary());
            }
        }
        let (bytes, ends) = encode_stream(&all()).unwrap();
        let (back, rest) = parse_stream(&bytes, &o).unwrap();
        assert_eq!(back, all());
        assert_eq!(rest, 0);
        assert_eq!(*ends.last().unwrap(), bytes.len());
    }

    #[test]
    fn every_length_is_checked() {
        let o = ParseOpts::default();
        let b = encode(&rq()).unwrap();
        // changing any single length byte (16-bit item lengths, nested lengths) must be noticed:
        // walk over the offsets of all length fields by re-deriving them from the grammar
        let mut len_offsets = vec![];
        let mut pos = 6 + 68;
        while pos < b.len() {
            len_offsets.push(pos + 2);
            let t = b[pos];
            let l = u16::from_be_bytes([b[pos + 2], b[pos + 3]]) as usize;
            let (mut q, end) = match t {
                0x20 => (pos + 8, pos + 4 + l),
                0x50 => (pos + 4, pos + 4 + l),
                _ => (pos + 4 + l, pos + 4 + l),
            };
            while q < end {
                len_offsets.push(q + 2);
                q += 4 + u16::from_be_bytes([b[q + 2], b[q + 3]]) as usize;
            }
            pos = end;
        }
        assert!(len_offsets.len() > 15);
        for off in len_offsets {
            for delta in [1i32, -1] {
                let mut m = b.clone();
                let v = u16::from_be_bytes([m[off], m[off + 1]]) as i32 + delta;
                if v < 0 {
                    continue;
                }
                m[off..off + 2].copy_from_slice(&(v as u16).to_be_bytes());
                assert!(parse(&m, &o).is_err(), "length at {off} changed by {delta} not noticed");
            }
        }
        // PDU length one too small / too large
        let mut m = b.clone();
        m[5] = m[5].wrapping_sub(1);
        assert!(parse(&m, &o).is_err());
        // PDV length
        let d = encode(&RPdu::PData(vec![RPdv::new(1, false, true, vec![1, 2])])).unwrap();
        for delta in [1i32, -1] {
            let mut m = d.clone();
            m[9] = (m[9] as i32 + delta) as u8;
            assert!(parse(&m, &o).is_err());
        }
        let mut m = d.clone();
        m[9] = 1;
        assert!(parse(&m, &o).is_err());
    }

    #[test]
    fn overflow_is_an_error() {
        let mut head = RAssocHead::new("SCP", "SCU");
        head.user_info = Some(vec![RUserItem::ExtNeg { uid: b"1.2".to_vec(), info: vec![0; 70_000] }]);
        assert!(encode(&RPdu::AssociateRq { head: head.clone(), pcs: vec![] }).is_err());
        // each sub-item fits but the user information item does not
        head.user_info = Some(vec![
            RUserItem::Unknown { item_type: 0x5A, data: vec![0; 40_000] },
            RUserItem::Unknown { item_type: 0x5B, data: vec![0; 40_000] },
        ]);
        assert!(encode(&RPdu::AssociateRq { head: head.clone(), pcs: vec![] }).is_err());
        head.user_info = Some(vec![RUserItem::Unknown { item_type: 0x5A, data: vec![0; 65_531] }]);
        let b = encode(&RPdu::AssociateRq { head, pcs: vec![] }).unwrap();
        assert!(parse(&b, &ParseOpts::default()).is_ok());
    }

    #[test]
    fn reserved_and_order_options() {
        let mut b = encode(&RPdu::ReleaseRq).unwrap();
        b[7] = 1;
        assert!(parse(&b, &ParseOpts::default()).is_err());
        assert_eq!(parse(&b, &ParseOpts::lenient()).unwrap(), RPdu::ReleaseRq);
        assert_eq!(text(b"1.2.840\0"), "1.2.840");
        assert_eq!(text(b"  A B  "), "A B");
    }
}
