pub fn placeholder(){}
