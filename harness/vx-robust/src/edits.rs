//! Family 2: bounded edits of valid seed encodings.
//! Per seed: the seed itself, every truncation, every single-position substitution from a fixed
//! substituent set, every single deletion, every single duplication, and every pair of substitutions
//! inside stated header windows.

use crate::acc::Ctx;
use crate::eps::{self, Depth};
use crate::pixobj::{self, PixAttrs, PixVal};
use dicom_ul::pdu::*;
use vx_data::Node;
use vx_ref::ds::{self as rds, RElem, RVal, Ts};

#[derive(Clone, Debug)]
pub enum Kind {
    DataSet(usize),
    File,
    Meta,
    Pdu,
    Json,
    /// the edited bytes are the (single) fragment of a pixel data element of an object built in memory
    Frag { ts_uid: &'static str, attrs: PixAttrs, second: Option<Vec<u8>> },
    Text(usize),
}

pub struct Seed {
    pub name: String,
    pub kind: Kind,
    pub bytes: Vec<u8>,
    /// (start, len) windows for pairs of substitutions; `.2` = also in the quick tier
    pub windows: Vec<(usize, usize, bool)>,
}

pub const BIN_SET: [u8; 8] = [0x00, 0x01, 0x7F, 0x80, 0xFE, 0xFF, b'A', b'\\'];
pub const TEXT_SET: [&str; 22] =
    ["0", "1", "2", "9", "a", "F", "g", "(", ")", ",", ".", "[", "]", " ", "-", "+", "\\", ":", "\0", "\u{e9}", "\u{20ac}", "\u{1F600}"];
/// substituents for pairs inside text windows (smaller: the product is squared)
pub const TEXT_PAIR_SET: [&str; 8] = ["0", "9", "a", "(", ".", "-", "+", "\u{e9}"];

fn ds_bytes(ti: usize, nodes: &[Node], mask: u32) -> Vec<u8> {
    rds::encode_items(Ts::ALL[ti], &vx_data::to_ref(nodes, mask))
}

fn nested_nodes() -> Vec<Node> {
    let ar = vx_data::reduced_atoms();
    let inner = Node::Seq { tag: vx_data::SQ_STD2, items: vec![vec![Node::Prim(ar[0].clone())]], tclass: "std" };
    let mut it = vec![inner, Node::Prim(ar[3].clone())];
    it.sort_by_key(|n| n.tag());
    let seq = Node::Seq { tag: vx_data::SQ_STD, items: vec![it, vec![]], tclass: "std" };
    vx_data::normalize(vec![seq, Node::Prim(ar[11].clone())]).unwrap()
}

fn image_ds(ts: Ts, rows: u16, cols: u16, ba: u16, spp: u16, pix: RVal, pix_vr: &str) -> Vec<u8> {
    let us = |t, v: u16| RElem::prim(t, "US", &v.to_le_bytes());
    let mut e = vec![
        RElem::prim((0x0008, 0x0016), "UI", b"1.2.840.10008.5.1.4.1.1.7"),
        RElem::prim((0x0008, 0x0018), "UI", b"1.2.3.4"),
        RElem::prim((0x0010, 0x0010), "PN", b"Doe^John"),
        us((0x0028, 0x0002), spp),
        RElem::prim((0x0028, 0x0004), "CS", if spp == 3 { b"RGB" } else { b"MONOCHROME2" }),
        RElem::prim((0x0028, 0x0008), "IS", b"1"),
        us((0x0028, 0x0010), rows),
        us((0x0028, 0x0011), cols),
        us((0x0028, 0x0100), ba),
        us((0x0028, 0x0101), ba),
        us((0x0028, 0x0102), ba - 1),
        us((0x0028, 0x0103), 0),
    ];
    e.push(RElem { tag: (0x7FE0, 0x0010), vr: rds::vr(pix_vr), val: pix });
    rds::encode_items(ts, &e)
}

fn meta_for(uid: &str) -> Vec<RElem> {
    rds::std_meta(uid, "1.2.840.10008.5.1.4.1.1.7", "1.2.3.4")
}

fn pdu_bytes(p: &Pdu) -> Vec<u8> {
    let mut v = vec![];
    write_pdu(&mut v, p).expect("harness: write_pdu of a seed");
    v
}

fn pdu_seeds() -> Vec<(&'static str, Pdu)> {
    let uv = vec![
        UserVariableItem::MaxLength(16384),
        UserVariableItem::ImplementationClassUID("1.2.3".into()),
        UserVariableItem::ImplementationVersionName("VX".into()),
        UserVariableItem::SopClassExtendedNegotiationSubItem("1.2.840.10008.1.1".into(), vec![1, 0]),
        UserVariableItem::ScuScpRoleSelectionSubItem("1.2.840.10008.1.1".into(), RequestorRoles { scu: true, scp: false }),
        UserVariableItem::UserIdentityItem(UserIdentity::new(true, UserIdentityType::UsernamePassword, b"u".to_vec(), b"pw".to_vec())),
        UserVariableItem::Unknown(0x77, vec![1, 2]),
    ];
    vec![
        (
            "associate-rq",
            Pdu::AssociationRQ(AssociationRQ {
                protocol_version: 1,
                calling_ae_title: "CALLING".into(),
                called_ae_title: "CALLED".into(),
                application_context_name: "1.2.840.10008.3.1.1.1".into(),
                presentation_contexts: vec![PresentationContextProposed { id: 1, abstract_syntax: "1.2.840.10008.1.1".into(), transfer_syntaxes: vec!["1.2.840.10008.1.2".into(), "1.2.840.10008.1.2.1".into()] }],
                user_variables: uv.clone(),
            }),
        ),
        (
            "associate-ac",
            Pdu::AssociationAC(AssociationAC {
                protocol_version: 1,
                calling_ae_title: "CALLING".into(),
                called_ae_title: "CALLED".into(),
                application_context_name: "1.2.840.10008.3.1.1.1".into(),
                presentation_contexts: vec![PresentationContextResult { id: 1, reason: PresentationContextResultReason::Acceptance, transfer_syntax: "1.2.840.10008.1.2".into() }],
                user_variables: uv[..3].to_vec(),
            }),
        ),
        ("associate-rj", Pdu::AssociationRJ(AssociationRJ { result: AssociationRJResult::Permanent, source: AssociationRJSource::ServiceUser(AssociationRJServiceUserReason::NoReasonGiven) })),
        (
            "p-data",
            Pdu::PData {
                data: vec![
                    PDataValue { presentation_context_id: 1, value_type: PDataValueType::Command, is_last: true, data: vec![1, 2, 3, 4] },
                    PDataValue { presentation_context_id: 1, value_type: PDataValueType::Data, is_last: false, data: vec![5, 6] },
                ],
            },
        ),
        ("release-rq", Pdu::ReleaseRQ),
        ("release-rp", Pdu::ReleaseRP),
        ("abort", Pdu::AbortRQ { source: AbortRQSource::ServiceProvider(AbortRQServiceProviderReason::UnexpectedPdu) }),
    ]
}

pub const JSON_SEEDS: [(&str, &str); 2] = [
    (
        "values",
        r#"{"00080005":{"vr":"CS","Value":["ISO_IR 192"]},"00100010":{"vr":"PN","Value":[{"Alphabetic":"Doe^John","Ideographic":"X"}]},"00280010":{"vr":"US","Value":[512]},"00101020":{"vr":"DS","Value":[1.5,"2"]},"00200032":{"vr":"FD","Value":[1e3,null]},"0020000D":{"vr":"UI"}}"#,
    ),
    (
        "nested",
        r#"{"00081140":{"vr":"SQ","Value":[{"00081150":{"vr":"UI","Value":["1.2"]}},{}]},"7FE00010":{"vr":"OB","InlineBinary":"AQID"},"00420011":{"vr":"OB","BulkDataURI":"http://x/y"},"00720069":{"vr":"AT","Value":["00100010"]}}"#,
    ),
];

pub const TEXT_SEEDS: [(usize, &str); 13] = [
    (0, "(0008,0010)"),
    (0, "0008,0010"),
    (0, "00080010"),
    (1, "PatientName"),
    (2, "(0040,A730)[1].CodeValue"),
    (2, "0040A730[0].00080100"),
    (2, "OtherPatientIDsSequence.PatientID"),
    (3, "20240229"),
    (4, "235959.123456"),
    (5, "20240229235959.123456+0100"),
    (6, "20200101-20201231"),
    (7, "120000.5-1300"),
    (8, "20200101120000.5+0100-20210101-0500"),
];

pub fn seeds() -> Vec<Seed> {
    let mut out = vec![];
    // --- data sets: one encoding per atom class, a nested data set (both length modes), encapsulated pixel data
    for ti in 0..3 {
        let tn = eps::TS3_NAMES[ti];
        for (k, a) in vx_data::reduced_atoms().into_iter().enumerate() {
            let label = format!("{}:{}:{}", a.vr, a.shape, a.tclass);
            let nodes = vx_data::normalize(vec![Node::Prim(a)]).unwrap();
            out.push(Seed { name: format!("ds/{tn}/atom{k}[{label}]"), kind: Kind::DataSet(ti), bytes: ds_bytes(ti, &nodes, 0), windows: vec![(0, 16, ti == 1 && (k == 0 || k == 11))] });
        }
        let n = nested_nodes();
        let nc = vx_data::count_containers(&n);
        out.push(Seed { name: format!("ds/{tn}/nested-undefined"), kind: Kind::DataSet(ti), bytes: ds_bytes(ti, &n, 0), windows: vec![(0, 16, false), (12, 16, false)] });
        out.push(Seed { name: format!("ds/{tn}/nested-explicit"), kind: Kind::DataSet(ti), bytes: ds_bytes(ti, &n, (1 << nc) - 1), windows: vec![(0, 16, true), (12, 16, false)] });
        let pix = vec![Node::Prim(vx_data::reduced_atoms()[11].clone()), Node::Pix { vr: "OB", offsets: vec![0, 10], frags: vec![vec![1, 2], vec![3, 4, 5, 6]], shape: "two" }];
        out.push(Seed { name: format!("ds/{tn}/encapsulated"), kind: Kind::DataSet(ti), bytes: ds_bytes(ti, &pix, 0), windows: vec![(10, 16, false)] });
    }
    // --- files
    let small: Vec<RElem> = vx_data::to_ref(&nested_nodes(), 0);
    let f1 = rds::encode_file(true, &meta_for(Ts::ExplicitLE.uid()), Ts::ExplicitLE, &small);
    out.push(Seed { name: "file/evle-nested".into(), kind: Kind::File, bytes: f1, windows: vec![(128, 16, true), (132 + 12, 16, false)] });
    let f2 = rds::encode_file(false, &meta_for(Ts::ImplicitLE.uid()), Ts::ImplicitLE, &small);
    out.push(Seed { name: "file/ivle-nopreamble".into(), kind: Kind::File, bytes: f2, windows: vec![(0, 16, false)] });
    {
        let frame = pixobj::rle_frame(2, 2, 1, 1);
        let mut f = rds::encode_file(true, &meta_for(pixobj::RLE), Ts::ExplicitLE, &[]);
        let at = f.len();
        f.extend(image_ds(Ts::ExplicitLE, 2, 2, 8, 1, RVal::Pix { offsets: vec![0], frags: vec![frame] }, "OB"));
        out.push(Seed { name: "file/rle-encapsulated".into(), kind: Kind::File, bytes: f, windows: vec![(at, 16, false)] });
    }
    {
        let mut f = rds::encode_file(true, &meta_for(pixobj::EVLE), Ts::ExplicitLE, &[]);
        f.extend(image_ds(Ts::ExplicitLE, 2, 2, 8, 1, RVal::Prim(vec![1, 2, 3, 4]), "OB"));
        out.push(Seed { name: "file/native-pixel".into(), kind: Kind::File, bytes: f, windows: vec![] });
    }
    {
        let mut f = rds::encode_file(true, &meta_for("1.2.840.10008.1.2.1.99"), Ts::ExplicitLE, &[]);
        let at = f.len();
        f.extend(rds::deflate_raw(&rds::encode_items(Ts::ExplicitLE, &small)));
        out.push(Seed { name: "file/deflated".into(), kind: Kind::File, bytes: f, windows: vec![(at, 16, true)] });
    }
    // --- the meta group alone
    out.push(Seed { name: "meta/group".into(), kind: Kind::Meta, bytes: rds::encode_file(false, &meta_for(Ts::ExplicitLE.uid()), Ts::ExplicitLE, &[]), windows: vec![(0, 16, true), (16, 16, false)] });
    // --- PDUs
    for (n, p) in pdu_seeds() {
        let b = pdu_bytes(&p);
        let mut w = vec![(0, 16.min(b.len()), n == "associate-rq" || n == "p-data")];
        if b.len() > 90 {
            w.push((74, 16, false));
        }
        out.push(Seed { name: format!("pdu/{n}"), kind: Kind::Pdu, bytes: b, windows: w });
    }
    // --- compressed frames inside an in-memory object
    out.push(Seed { name: "frag/rle-8bit-mono-4x4".into(), kind: Kind::Frag { ts_uid: pixobj::RLE, attrs: PixAttrs::of(4, 4, 8, 1, 1), second: None }, bytes: pixobj::rle_frame(4, 4, 1, 1), windows: vec![(0, 16, true), (64, 16, false)] });
    out.push(Seed { name: "frag/rle-16bit-rgb-2x2".into(), kind: Kind::Frag { ts_uid: pixobj::RLE, attrs: PixAttrs::of(2, 2, 16, 3, 1), second: None }, bytes: pixobj::rle_frame(2, 2, 3, 2), windows: vec![(0, 16, false), (16, 16, false)] });
    out.push(Seed {
        name: "frag/rle-2-frames".into(),
        kind: Kind::Frag { ts_uid: pixobj::RLE, attrs: PixAttrs::of(2, 2, 8, 1, 2), second: Some(pixobj::rle_frame(2, 2, 1, 1)) },
        bytes: pixobj::rle_frame(2, 2, 1, 1),
        windows: vec![],
    });
    let jf = pixobj::jpeg_frame(8, 8);
    out.push(Seed { name: "frag/jpeg-baseline-8x8".into(), kind: Kind::Frag { ts_uid: pixobj::JPEG_BASELINE, attrs: PixAttrs::of(8, 8, 8, 1, 1), second: None }, bytes: jf, windows: vec![(0, 16, false)] });
    out.push(Seed { name: "frag/deflated-4x4".into(), kind: Kind::Frag { ts_uid: pixobj::DEFLATED_FRAME, attrs: PixAttrs::of(4, 4, 8, 1, 1), second: None }, bytes: pixobj::deflated_frame(4, 4), windows: vec![(0, 8, true)] });
    out.push(Seed { name: "frag/encapsulated-uncompressed-2x2".into(), kind: Kind::Frag { ts_uid: pixobj::ENCAP_UNCOMPRESSED, attrs: PixAttrs::of(2, 2, 8, 1, 1), second: None }, bytes: vec![1, 2, 3, 4], windows: vec![] });
    // --- DICOM JSON documents
    for (n, j) in JSON_SEEDS {
        out.push(Seed { name: format!("json/{n}"), kind: Kind::Json, bytes: j.as_bytes().to_vec(), windows: vec![(0, 16, false)] });
    }
    // --- strings
    for (p, s) in TEXT_SEEDS {
        out.push(Seed { name: format!("text/{}/{}", eps::STRING_PARSERS[p], s), kind: Kind::Text(p), bytes: s.as_bytes().to_vec(), windows: vec![(0, s.len(), s.len() <= 13)] });
    }
    out
}

pub struct Universe {
    pub seeds: Vec<Seed>,
    /// prefix sums of the number of edits per seed
    pub starts: Vec<u64>,
    pub thorough: bool,
}

fn subst_set(k: &Kind) -> Vec<Vec<u8>> {
    match k {
        Kind::Text(_) => TEXT_SET.iter().map(|s| s.as_bytes().to_vec()).collect(),
        _ => BIN_SET.iter().map(|b| vec![*b]).collect(),
    }
}
fn pair_set(k: &Kind) -> Vec<Vec<u8>> {
    match k {
        Kind::Text(_) => TEXT_PAIR_SET.iter().map(|s| s.as_bytes().to_vec()).collect(),
        _ => BIN_SET.iter().map(|b| vec![*b]).collect(),
    }
}

impl Seed {
    fn windows_for(&self, thorough: bool) -> Vec<(usize, usize)> {
        self.windows
            .iter()
            .filter(|w| thorough || w.2)
            .filter(|w| w.0 < self.bytes.len())
            .map(|w| (w.0, w.1.min(self.bytes.len() - w.0)))
            .collect()
    }
    pub fn n_edits(&self, thorough: bool) -> u64 {
        let n = self.bytes.len() as u64;
        let m = subst_set(&self.kind).len() as u64;
        let p = pair_set(&self.kind).len() as u64;
        let mut t = 1 + n + n * m + n + n;
        for (_, l) in self.windows_for(thorough) {
            let l = l as u64;
            t += l * (l.saturating_sub(1)) / 2 * p * p;
        }
        t
    }
    /// k-th edit: (description, bytes)
    pub fn edit(&self, mut k: u64, thorough: bool) -> (String, Vec<u8>) {
        let s = &self.bytes;
        let n = s.len() as u64;
        if k == 0 {
            return ("seed".into(), s.clone());
        }
        k -= 1;
        if k < n {
            return (format!("truncate to {k}"), s[..k as usize].to_vec());
        }
        k -= n;
        let set = subst_set(&self.kind);
        let m = set.len() as u64;
        if k < n * m {
            let (pos, which) = ((k / m) as usize, (k % m) as usize);
            let mut v = s[..pos].to_vec();
            v.extend_from_slice(&set[which]);
            v.extend_from_slice(&s[pos + 1..]);
            return (format!("byte {pos} := {:02X?}", set[which]), v);
        }
        k -= n * m;
        if k < n {
            let pos = k as usize;
            let mut v = s.clone();
            v.remove(pos);
            return (format!("delete byte {pos}"), v);
        }
        k -= n;
        if k < n {
            let pos = k as usize;
            let mut v = s.clone();
            v.insert(pos, s[pos]);
            return (format!("duplicate byte {pos}"), v);
        }
        k -= n;
        let ps = pair_set(&self.kind);
        let p = ps.len() as u64;
        for (start, l) in self.windows_for(thorough) {
            let l = l as u64;
            let cnt = l * (l.saturating_sub(1)) / 2 * p * p;
            if k < cnt {
                let pair = k / (p * p);
                let (a, b) = (((k / p) % p) as usize, (k % p) as usize);
                // pair index -> (i < j)
                let (mut i, mut rem) = (0u64, pair);
                while rem >= l - 1 - i {
                    rem -= l - 1 - i;
                    i += 1;
                }
                let j = i + 1 + rem;
                let (pi, pj) = (start + i as usize, start + j as usize);
                let mut v = s[..pi].to_vec();
                v.extend_from_slice(&ps[a]);
                v.extend_from_slice(&s[pi + 1..pj]);
                v.extend_from_slice(&ps[b]);
                v.extend_from_slice(&s[pj + 1..]);
                return (format!("byte {pi} := {:02X?}, byte {pj} := {:02X?}", ps[a], ps[b]), v);
            }
            k -= cnt;
        }
        unreachable!("edit index out of range")
    }
}

impl Universe {
    pub fn new(thorough: bool) -> Universe {
        let seeds = seeds();
        let mut starts = vec![0u64];
        for s in &seeds {
            starts.push(starts.last().unwrap() + s.n_edits(thorough));
        }
        Universe { seeds, starts, thorough }
    }
    pub fn size(&self) -> u64 {
        *self.starts.last().unwrap()
    }
    pub fn locate(&self, idx: u64) -> (usize, u64) {
        let si = self.starts.partition_point(|s| *s <= idx) - 1;
        (si, idx - self.starts[si])
    }
}

static UNI: std::sync::OnceLock<Universe> = std::sync::OnceLock::new();
pub fn universe(thorough: bool) -> &'static Universe {
    UNI.get_or_init(|| Universe::new(thorough))
}

pub fn run(cx: &mut Ctx, idx: u64) {
    let u = universe(cx.thorough);
    let (si, k) = u.locate(idx);
    let seed = &u.seeds[si];
    let (desc, bytes) = seed.edit(k, u.thorough);
    let what = || format!("{}: {}", seed.name, desc);
    match &seed.kind {
        Kind::DataSet(ti) => eps::dataset_eps(cx, *ti, &bytes, &what, Depth::Full),
        Kind::File => {
            eps::file_eps(cx, &bytes, "file", &what, Depth::Full, true);
            let off = if bytes.len() >= 132 && &bytes[128..132] == b"DICM" { 128 } else { 0 };
            eps::meta_ep(cx, &bytes[off..], "file", &what);
        }
        Kind::Meta => {
            eps::meta_ep(cx, &bytes, "meta", &what);
            eps::file_eps(cx, &bytes, "meta", &what, Depth::Lean, false);
        }
        Kind::Pdu => eps::pdu_eps(cx, &bytes, "pdu", &what, false),
        Kind::Json => eps::json_eps(cx, &bytes, "json", &what),
        Kind::Frag { ts_uid, attrs, second } => {
            let mut frags = vec![bytes.clone()];
            if let Some(s) = second {
                frags.push(s.clone());
            }
            let obj = pixobj::pixel_object(ts_uid, attrs, &PixVal::Frags { offsets: vec![], frags });
            eps::pixel_eps(cx, &obj, ts_uid, "edited fragment", &what, &bytes);
        }
        Kind::Text(p) => eps::string_ep(cx, *p, &bytes, &what),
    }
}
