//! C05 — untrusted input never makes a reader panic, abort or hang (three bounded exhaustive families).
use vx_kit::{json, Check, Level};
use vx_robust::iso::{self, Pool};

fn main() {
    let args: Vec<String> = std::env::args().collect();
    if args.len() > 1 && args[1] == "--worker" {
        iso::worker_main(&args[2..], &|n| vx_robust::resolve(n));
    }
    if args.len() > 4 && args[1] == "--bench" {
        // timing aid: run indices in this process, no isolation
        vx_robust::warm(&args[2], false);
        iso::cap_address_space(iso::WORKER_AS_BYTES);
        let t = std::time::Instant::now();
        let cx = vx_robust::run_in_process(&args[2], false, None, args[3].parse().unwrap(), args[4].parse().unwrap());
        eprintln!("cpu {} ms", vx_robust::acc::cpu_ms());
        eprintln!("{} evals in {:?}; outcomes {:?}", cx.acc.evals, t.elapsed(), cx.acc.outcomes);
        return;
    }
    let check = Check::from_args("C05", Level::Exploration);
    let thorough = check.thorough();
    check.set_rule(
        "four exhaustively enumerated families, every member fed to every applicable public reading entry point: \
         (1) words: all words of length <= 4 (thorough 5) over an 18-letter alphabet of encoded structural atoms plus all words of length <= 3 over the full 27-letter alphabet, \
         encoded in Implicit VR LE / Explicit VR LE / Explicit VR BE; the bare encoding goes to DataSetReader (3 value strategies x flexible on/off, 3 odd-length strategies), LazyDataSetReader (skip / into_owned, odd-length strategies), read_dataset_with_ts + dump, DicomCollector on a bare data set; \
         wrapped as a Part 10 file with a valid meta group and preamble it goes to from_reader + dump + pixel decoding and DicomCollector (4-letter words: default options and the meta+to_end script only; words of <= 3 letters: odd-length strategies x preamble options, 6 collector scripts, and also without preamble), words of <= 2 letters also through open_file; 5-letter words (thorough) go bare to DataSetReader (preserved; interpreted+flexible) and LazyDataSetReader (into_owned) only; \
         (2) edits: for every seed (one data set per atom class x 3 syntaxes, nested and encapsulated data sets, 5 files incl. RLE/native/deflated, the meta group, 7 PDU kinds, RLE/JPEG/deflated/uncompressed frames, 2 DICOM JSON documents, 13 tag/selector/date/time/range strings) \
         the seed, every truncation, every single-byte substitution from {00,01,7F,80,FE,FF,'A','\\'} (text seeds: 22 characters incl. 2-,3-,4-byte scalars), every single deletion, every single duplication, and every pair of substitutions inside 16-byte header windows (quick: primary windows only); \
         (3) short inputs: every byte string of length <= 2 bare, as body of each PDU type, after the magic code, as meta group content and as data set of a valid file (thorough: also every 3-byte string, bare, for read_pdu, FileMetaTable::from_reader, DataSetReader and LazyDataSetReader); every string over a 14-class alphabet up to 6 (thorough 7) bytes and over a 6-class alphabet up to 9 (thorough 11) bytes for Tag::from_str / parse_tag / parse_selector, \
         every byte string over 14 classes up to 5 (thorough 6) bytes for the date/time/date-time and range parsers; a DICOM JSON grammar (key x vr x Value x InlineBinary x BulkDataURI, pairs, nesting <= 2); pixel decoding (decode_pixel_data, decode_pixel_data_frame 0 and 1) over 8 transfer syntaxes x Rows x Columns x BitsAllocated x SamplesPerPixel x NumberOfFrames x 8 pixel data variants; \
         (4) dump: for each of the 17 text VRs and OB / UN / OW, values made of 32 periodic patterns (period 1-4) over {ASCII letter, 2-, 3-, 4-byte UTF-8 scalar, CR, LF, NUL, backslash; byte 0x80 in binary values} with every length 0..=80, single- and multi-valued in memory and read from bytes under ISO_IR 100 and ISO_IR 192, dumped with the limit ON by dump_element at every width in {0,1,40,66,67,68,80,121,200} x depth 0..2 x {limits, no_text_limit}, by DumpOptions::dump_object to stdout (worker stdout is /dev/null) at 3 of the widths rotating with the index crossed with no_text_limit / no_limit, and on one length in nine by the JSON format and DumpOptions::dump_file to stdout (text and JSON); every object read in the other families is also dumped by dump_element at width 67 or 68 (depth 0..2) and to stdout at one width (sub-sample; the full cross is in the dump family). \
         A case is (family, index, entry point, configuration, transfer syntax); distinct inputs are counted by (entry point, syntax, bytes) per shard; non-trivial = the subject was invoked on a non-empty input. \
         Oracle: Ok or Err within 5 s of CPU time (120 s wall clock), no panic (catch_unwind), no abort, no allocation failure under a 256 MiB address-space cap (worker subprocesses; the culprit of a dead worker is re-run alone twice in forked children before it is reported)",
    );
    check.assume("the statement is decided for the three bounded families only, not for all byte strings");
    check.assume("a worker process is capped at 256 MiB of address space: an input that makes a reader request more than that aborts the worker and is reported as an abort");
    check.assume("seeds are produced by the vx-ref reference encoder, dicom-ul write_pdu and the build's own JPEG encoder; they are inputs, not oracles");

    let pool = Pool::new(&check);
    let mut sizes = serde_json::Map::new();
    let mut jobs = vec![];
    let replay_family: Option<String> = pool.only.as_ref().map(|c| c.split('/').next().unwrap_or("").to_string());
    let replay_idx: Option<u64> = pool.only.as_ref().and_then(|c| c.split('/').nth(1)).and_then(|s| s.parse().ok());
    // worker families (binary parsers, decoders): isolation needed
    // debugging aid: VERIF_C05_FAMILIES=a,b restricts the run to these families (the run is then reported as capped)
    let restrict: Option<Vec<String>> = std::env::var("VERIF_C05_FAMILIES").ok().map(|s| s.split(',').map(String::from).collect());
    if let Some(r) = &restrict {
        check.cap(&format!("VERIF_C05_FAMILIES restricts the run to {r:?}"));
    }
    let enabled = |f: &str| restrict.as_ref().map(|r| r.iter().any(|x| x == f)).unwrap_or(true);
    // (family, indices per worker process quick / thorough, indices per forked child)
    for (fam, chunk_q, chunk_t, block) in [("pixel", 16384u64, 16384u64, 8192u64), ("words", 2048, 8192, 512), ("edits", 2048, 4096, 1024), ("shorts", 2048, 65536, 1024), ("dump", 8192, 8192, 2048), ("selftest", 300, 300, 64)] {
        if !enabled(fam) || (fam == "selftest" && restrict.is_none()) {
            continue;
        }
        let n = vx_robust::family_size(fam, thorough);
        sizes.insert(fam.to_string(), json!(n));
        if let Some(rf) = &replay_family {
            if rf == fam {
                if let Some(i) = replay_idx {
                    jobs.push(iso::Job { family: vx_robust::resolve(fam).unwrap().0, lo: i, hi: i + 1, probe: true, block: 1 });
                }
            }
            continue;
        }
        jobs.extend(iso::jobs_for(vx_robust::resolve(fam).unwrap().0, n, if thorough { chunk_t } else { chunk_q }, block));
    }
    pool.run(jobs);
    // cheap textual families: in-process threads
    for fam in ["strings", "json"] {
        if !enabled(fam) {
            continue;
        }
        let n = vx_robust::family_size(fam, thorough);
        sizes.insert(fam.to_string(), json!(n));
        let (lo, hi) = match (&replay_family, replay_idx) {
            (Some(rf), Some(i)) if rf == fam => (i, i + 1),
            (Some(_), _) => continue,
            _ => (0, n),
        };
        let chunk = 8192u64;
        let nchunks = (hi - lo).div_ceil(chunk);
        check.par_range(nchunks, |l, c| {
            let a = lo + c * chunk;
            let b = (a + chunk).min(hi);
            let cx = vx_robust::run_in_process(fam, thorough, pool.only.clone(), a, b);
            iso::merge_lines(&check, l, &[cx.acc.to_json(b)]);
        });
    }
    check.extra("family_sizes", serde_json::Value::Object(sizes));
    check.extra("worker_deaths_isolated", json!(*pool.worker_deaths.lock().unwrap()));
    check.extra("worker_address_space_cap_bytes", json!(iso::WORKER_AS_BYTES));
    check.extra("per_case_budget_ms", json!(iso::CASE_BUDGET_MS));
    pool.cleanup();
    check.finish();
}
