//! Per-worker / per-thread accumulator and the one place where a subject is executed (`Ctx::exec`).

use serde_json::{json, Value};
use std::collections::{BTreeMap, HashSet};
use std::sync::atomic::{AtomicU64, Ordering};
use vx_kit::{guard, hash_of};

/// Result of one subject run that did not panic.
#[derive(Clone, Copy, PartialEq, Eq, Debug)]
pub enum Out {
    Ok,
    Err,
    /// the subject was not applicable to this input (not counted as an evaluation)
    Skip,
}

/// ms since process start at which the running case started (0 = idle); read by the watchdog.
pub static CASE_START_MS: AtomicU64 = AtomicU64::new(0);
static T0: std::sync::OnceLock<std::time::Instant> = std::sync::OnceLock::new();
/// sequence number of the running case (the watchdog samples the CPU clock itself, per case)
pub static CASE_SEQ: AtomicU64 = AtomicU64::new(0);
/// CPU time consumed by this process so far, in ms (user + system, all threads)
pub fn cpu_ms() -> u64 {
    let mut ts = libc::timespec { tv_sec: 0, tv_nsec: 0 };
    unsafe { libc::clock_gettime(libc::CLOCK_PROCESS_CPUTIME_ID, &mut ts) };
    ts.tv_sec as u64 * 1000 + ts.tv_nsec as u64 / 1_000_000
}
pub fn now_ms() -> u64 {
    T0.get_or_init(std::time::Instant::now).elapsed().as_millis() as u64 + 1
}

pub const MAX_FAILS_PER_CLASS: usize = 6;

#[derive(Default)]
pub struct Acc {
    pub evals: u64,
    pub outcomes: BTreeMap<String, u64>,
    pub samples: BTreeMap<String, Value>,
    pub nontrivial: HashSet<u64>,
    /// class key -> (count, first few (case_id, class, detail))
    pub fails: BTreeMap<String, (u64, Vec<(String, Value, Value)>)>,
    pub machinery: Vec<String>,
}

impl Acc {
    pub fn to_json(&self, upto: u64) -> Value {
        let fails: Vec<Value> = self
            .fails
            .values()
            .map(|(n, v)| {
                json!({"count": n, "cases": v.iter().map(|(c, k, d)| json!({"case_id": c, "class": k, "detail": d})).collect::<Vec<_>>()})
            })
            .collect();
        json!({"upto": upto, "evals": self.evals, "outcomes": self.outcomes, "samples": self.samples,
               "nontrivial": self.nontrivial.len(), "fails": fails, "machinery": self.machinery})
    }
    pub fn clear(&mut self) {
        *self = Acc::default();
    }
}

/// Shared-memory progress cell (survives the death of the worker): [idx, ordinal, state].
pub struct Progress {
    ptr: *mut u64,
}
unsafe impl Send for Progress {}
impl Progress {
    pub fn none() -> Self {
        Progress { ptr: std::ptr::null_mut() }
    }
    pub fn from_ptr(ptr: *mut u64) -> Self {
        Progress { ptr }
    }
    pub fn set_state(&self, state: u64) {
        if !self.ptr.is_null() {
            unsafe { std::ptr::write_volatile(self.ptr.add(2), state) }
        }
    }
    pub fn map(path: &std::path::Path) -> std::io::Result<Self> {
        use std::os::unix::io::AsRawFd;
        let f = std::fs::OpenOptions::new().read(true).write(true).create(true).truncate(true).open(path)?;
        f.set_len(64)?;
        let p = unsafe {
            libc::mmap(std::ptr::null_mut(), 64, libc::PROT_READ | libc::PROT_WRITE, libc::MAP_SHARED, f.as_raw_fd(), 0)
        };
        if p == libc::MAP_FAILED {
            return Err(std::io::Error::last_os_error());
        }
        Ok(Progress { ptr: p as *mut u64 })
    }
    #[inline]
    pub fn set(&self, idx: u64, ord: u64, state: u64) {
        if !self.ptr.is_null() {
            unsafe {
                std::ptr::write_volatile(self.ptr, idx);
                std::ptr::write_volatile(self.ptr.add(1), ord);
                std::ptr::write_volatile(self.ptr.add(2), state);
            }
        }
    }
    /// (idx, ordinal, state) as left by a (dead) worker; state 1 = inside a case, 2 = watchdog fired
    pub fn read_file(path: &std::path::Path) -> Option<(u64, u64, u64)> {
        let b = std::fs::read(path).ok()?;
        if b.len() < 24 {
            return None;
        }
        let g = |i: usize| u64::from_le_bytes(b[i * 8..i * 8 + 8].try_into().unwrap());
        Some((g(0), g(1), g(2)))
    }
}

pub struct Ctx {
    pub family: &'static str,
    pub thorough: bool,
    /// replay: only this case id
    pub only: Option<String>,
    /// isolation mode: every subject run is first probed (twice if it dies) in a forked child;
    /// a subject that kills its child both times is reported and not run in this process
    pub probe: bool,
    /// known-finding matchers (to tell whether a death is an unmatched violation) and their count so far
    pub known: Vec<serde_json::Map<String, Value>>,
    pub unmatched_deaths: u64,
    pub acc: Acc,
    pub progress: Progress,
    pub idx: u64,
    pub ord: u64,
    /// scratch file for open_file entry points
    pub scratch: std::path::PathBuf,
    /// standard output of this process goes to /dev/null (worker subprocess): entry points that can
    /// only print to stdout may be run
    pub stdout_null: bool,
}

/// Strip what varies between two panics at the same place: numbers in the message, line numbers,
/// and the checkout prefix of the path.
pub fn site_of(panic_msg: &str) -> (String, String) {
    let (msg, loc) = match panic_msg.rfind(" @ ") {
        Some(i) => (&panic_msg[..i], &panic_msg[i + 3..]),
        None => (panic_msg, ""),
    };
    let mut m = String::new();
    let mut in_num = false;
    for c in msg.chars().take(160) {
        if c.is_ascii_digit() {
            if !in_num {
                m.push('#');
            }
            in_num = true;
        } else {
            in_num = false;
            m.push(if c == '\n' { ' ' } else { c });
        }
    }
    let file = loc.rsplit_once(':').map(|x| x.0).unwrap_or(loc);
    let file = if let Some(i) = file.find("/registry/src/") {
        let rest = &file[i + 14..];
        rest.split_once('/').map(|x| x.1).unwrap_or(rest).to_string()
    } else if let Some(i) = file.rfind("/repo/") {
        file[i + 6..].to_string()
    } else if let Some(i) = file.find("/rustc/") {
        let rest = &file[i + 7..];
        rest.split_once('/').map(|x| format!("rust/{}", x.1)).unwrap_or_else(|| rest.to_string())
    } else {
        file.to_string()
    };
    (format!("{m} @ {file}"), loc.to_string())
}

pub fn hex(b: &[u8]) -> String {
    let mut s = String::with_capacity(b.len().min(600) * 2 + 8);
    for x in b.iter().take(600) {
        s.push_str(&format!("{x:02X}"));
    }
    if b.len() > 600 {
        s.push_str(&format!("..(+{} bytes)", b.len() - 600));
    }
    s
}

impl Ctx {
    pub fn new(family: &'static str, thorough: bool) -> Ctx {
        Ctx {
            family,
            thorough,
            only: None,
            probe: false,
            known: vec![],
            unmatched_deaths: 0,
            acc: Acc::default(),
            progress: Progress::none(),
            idx: 0,
            ord: 0,
            scratch: std::env::temp_dir().join(format!("vx-robust-{}.dcm", std::process::id())),
            stdout_null: false,
        }
    }

    pub fn begin(&mut self, idx: u64) {
        self.idx = idx;
        self.ord = 0;
    }

    fn report_death(&mut self, entry: &'static str, cfg: &str, ts: &str, what: &dyn Fn() -> String, input: &[u8], d: &crate::iso::Death) -> Option<Out> {
        self.acc.evals += 1;
        self.acc.nontrivial.insert(hash_of(&(entry, ts, input)));
        let kind = if d.hang { "hang" } else { "abort" };
        *self.acc.outcomes.entry(format!("{entry}:{kind}")).or_insert(0) += 1;
        let site = format!("{} / {}", d.how, crate::iso::abort_site(&d.stderr));
        let case_id = format!("{}/{}/{}:{}:{}", self.family, self.idx, entry, cfg, ts);
        let class = json!({"family": self.family, "entry": entry, "kind": kind, "site": site});
        if !crate::iso::is_known(&self.known, &class) {
            self.unmatched_deaths += 1;
        }
        let key = format!("{}|{}|{}", self.family, entry, site);
        let e = self.acc.fails.entry(key).or_insert((0, vec![]));
        e.0 += 1;
        if e.1.len() < MAX_FAILS_PER_CLASS {
            let detail = json!({"config": cfg, "ts": ts, "input": what(), "bytes": hex(input), "how": d.how,
                "stderr": d.stderr.chars().take(300).collect::<String>(), "expected": "Ok or Err", "got": kind,
                "reproduced": "the worker died in the sweep, then twice more when the subject was run alone in a forked child",
                "worker_address_space_cap_bytes": crate::iso::WORKER_AS_BYTES, "per_case_budget_ms": crate::iso::CASE_BUDGET_MS});
            e.1.push((case_id, class, detail));
        }
        None
    }

    /// Execute one subject on one input.
    /// `entry` = entry point (class key), `cfg` = its configuration, `ts` = transfer syntax / context,
    /// `what` = readable description of the input (family-specific), `input` = the bytes fed.
    pub fn exec(
        &mut self,
        entry: &'static str,
        cfg: &str,
        ts: &str,
        what: &dyn Fn() -> String,
        input: &[u8],
        f: impl FnOnce() -> Out,
    ) -> Option<Out> {
        let ord = self.ord;
        self.ord += 1;
        if let Some(only) = &self.only {
            let case_id = format!("{}/{}/{}:{}:{}", self.family, self.idx, entry, cfg, ts);
            if *only != case_id {
                return None;
            }
        }
        if self.probe {
            // Probe the subject in forked children first: the closure is consumed only in a child
            // (which never returns), so it is still owned here for the real run.
            let mut deaths: Vec<crate::iso::Death> = vec![];
            for _ in 0..2 {
                let (rfd, wfd) = crate::iso::pipe();
                let pid = unsafe { libc::fork() };
                if pid == 0 {
                    crate::iso::child_after_fork(rfd, wfd);
                    let _ = guard(f);
                    unsafe { libc::_exit(0) }
                }
                match crate::iso::wait_child(pid, rfd, wfd) {
                    Some(d) => deaths.push(d),
                    None => break,
                }
            }
            if deaths.len() == 2 && deaths[0].how == deaths[1].how {
                return self.report_death(entry, cfg, ts, what, input, &deaths[0]);
            }
            if !deaths.is_empty() {
                let case_id = format!("{}/{}/{}:{}:{}", self.family, self.idx, entry, cfg, ts);
                self.acc.machinery.push(format!("death of a probe of {case_id} did not reproduce: {:?}", deaths.iter().map(|d| d.how.clone()).collect::<Vec<_>>()));
            }
        }
        self.progress.set(self.idx, ord, 1);
        CASE_SEQ.fetch_add(1, Ordering::Relaxed);
        CASE_START_MS.store(now_ms(), Ordering::Relaxed);
        let r = guard(f);
        CASE_START_MS.store(0, Ordering::Relaxed);
        self.progress.set(self.idx, ord, 0);
        match r {
            Ok(Out::Skip) => Some(Out::Skip),
            Ok(o) => {
                self.acc.evals += 1;
                if !input.is_empty() {
                    self.acc.nontrivial.insert(hash_of(&(entry, ts, input)));
                }
                let name = format!("{}:{}", entry, if o == Out::Ok { "ok" } else { "err" });
                if !self.acc.outcomes.contains_key(&name) {
                    let case_id = format!("{}/{}/{}:{}:{}", self.family, self.idx, entry, cfg, ts);
                    self.acc.samples.insert(name.clone(), json!({"case": case_id, "input": what(), "bytes": hex(&input[..input.len().min(96)])}));
                }
                *self.acc.outcomes.entry(name).or_insert(0) += 1;
                Some(o)
            }
            Err(p) => {
                self.acc.evals += 1;
                self.acc.nontrivial.insert(hash_of(&(entry, ts, input)));
                *self.acc.outcomes.entry(format!("{entry}:panic")).or_insert(0) += 1;
                let (site, loc) = site_of(&p);
                let case_id = format!("{}/{}/{}:{}:{}", self.family, self.idx, entry, cfg, ts);
                let class = json!({"family": self.family, "entry": entry, "kind": "panic", "site": site});
                let key = format!("{}|{}|{}", self.family, entry, site);
                let e = self.acc.fails.entry(key).or_insert((0, vec![]));
                e.0 += 1;
                if e.1.len() < MAX_FAILS_PER_CLASS {
                    let detail = json!({"config": cfg, "ts": ts, "input": what(), "bytes": hex(input), "panic": p, "at": loc,
                                        "expected": "Ok or Err", "got": "panic"});
                    e.1.push((case_id, class, detail));
                }
                None
            }
        }
    }
}
