//! vx-robust: C05 — untrusted input never makes a reader panic, abort or hang.
//! Decided for three bounded, exhaustively enumerated families (DESIGN.md section 3, C05).

pub mod acc;
pub mod edits;
pub mod eps;
pub mod iso;
pub mod pixobj;
pub mod shorts;
pub mod words;

use acc::Ctx;

/// (canonical name, per-index runner) of a worker family
pub fn resolve(name: &str) -> Option<(&'static str, iso::RunCase)> {
    Some(match name {
        "words" => ("words", words::run as iso::RunCase),
        "edits" => ("edits", edits::run),
        "shorts" => ("shorts", shorts::run_shorts),
        "pixel" => ("pixel", shorts::run_pixel),
        "json" => ("json", shorts::run_json),
        "strings" => ("strings", shorts::run_strings),
        _ => return None,
    })
}

/// Build the universe of a family before the address-space cap is applied.
pub fn warm(name: &str, thorough: bool) {
    match name {
        "words" => {
            words::universe(thorough);
        }
        "edits" => {
            edits::universe(thorough);
        }
        "pixel" => shorts::warm_pixel(),
        "json" => {
            shorts::json_uni(thorough);
        }
        "strings" => {
            shorts::strings(thorough);
        }
        _ => {}
    }
}

pub fn family_size(name: &str, thorough: bool) -> u64 {
    match name {
        "words" => words::universe(thorough).size(),
        "edits" => edits::universe(thorough).size(),
        "shorts" => shorts::shorts_size(thorough),
        "pixel" => shorts::pixel_size(),
        "json" => shorts::json_uni(thorough).size(),
        "strings" => shorts::strings(thorough).size(),
        _ => 0,
    }
}

/// Run indices lo..hi of a family in this process (cheap textual families).
pub fn run_in_process(name: &str, thorough: bool, only: Option<String>, lo: u64, hi: u64) -> Ctx {
    let (n, run) = resolve(name).expect("family");
    let mut cx = Ctx::new(n, thorough);
    cx.only = only;
    for idx in lo..hi {
        cx.begin(idx);
        run(&mut cx, idx);
    }
    cx
}
