//! vx-robust: C05 — untrusted input never makes a reader panic, abort or hang.
//! Decided for three bounded, exhaustively enumerated families (DESIGN.md section 3, C05).

pub mod acc;
pub mod dumpfam;
pub mod edits;
pub mod eps;
pub mod iso;
pub mod pixobj;
pub mod shorts;
pub mod words;

use acc::Ctx;

/// (canonical name, per-index runner) of a worker family
pub fn resolve(name: &str) -> Option<(&'static str, iso::RunCase)> {
    Some(match name {
        "words" => ("words", words::run as iso::RunCase),
        "edits" => ("edits", edits::run),
        "shorts" => ("shorts", shorts::run_shorts),
        "pixel" => ("pixel", shorts::run_pixel),
        "json" => ("json", shorts::run_json),
        "strings" => ("strings", shorts::run_strings),
        "dump" => ("dump", dumpfam::run),
        "selftest" => ("selftest", selftest_run),
        _ => return None,
    })
}

/// Build the universe of a family before the address-space cap is applied.
pub fn warm(name: &str, thorough: bool) {
    // touch the lazily built registries (dictionary, transfer syntaxes, ...) once, so that forked
    // children do not rebuild them: a benign run of every kind of entry point on valid input
    {
        let mut cx = Ctx::new("warm", thorough);
        let what = || String::new();
        let meta = vx_ref::ds::std_meta("1.2.840.10008.1.2.1", "1.2.840.10008.5.1.4.1.1.7", "1.2.3.4");
        let ds = [vx_ref::ds::RElem::prim((0x0010, 0x0010), "PN", b"A^B"), vx_ref::ds::RElem::prim((0x0028, 0x0010), "US", &[1, 0])];
        let f = vx_ref::ds::encode_file(true, &meta, vx_ref::ds::Ts::ExplicitLE, &ds);
        eps::file_eps(&mut cx, &f, "warm", &what, eps::Depth::Lean, false);
        for ti in 0..3 {
            eps::dataset_eps(&mut cx, ti, &vx_ref::ds::encode_items(vx_ref::ds::Ts::ALL[ti], &ds), &what, eps::Depth::Lean);
        }
        eps::json_eps(&mut cx, br#"{"00100010":{"vr":"PN","Value":[{"Alphabetic":"A"}]}}"#, "warm", &what);
        eps::pdu_eps(&mut cx, &[5, 0, 0, 0, 0, 4, 0, 0, 0, 0], "warm", &what, true);
        for p in 0..eps::STRING_PARSERS.len() {
            eps::string_ep(&mut cx, p, b"PatientName", &what);
        }
        for (uid, _) in pixobj::DECODER_TS {
            let o = pixobj::pixel_object(uid, &pixobj::PixAttrs::of(1, 1, 8, 1, 1), &pixobj::PixVal::Frags { offsets: vec![], frags: vec![vec![0, 0]] });
            eps::pixel_eps(&mut cx, &o, "warm", "warm", &what, b"");
        }
    }
    match name {
        "words" => {
            words::universe(thorough);
        }
        "edits" => {
            edits::universe(thorough);
        }
        "pixel" => shorts::warm_pixel(),
        "json" => {
            shorts::json_uni(thorough);
        }
        "strings" => {
            shorts::strings(thorough);
        }
        _ => {}
    }
}

pub fn family_size(name: &str, thorough: bool) -> u64 {
    match name {
        "words" => words::universe(thorough).size(),
        "edits" => edits::universe(thorough).size(),
        "shorts" => shorts::shorts_size(thorough),
        "pixel" => shorts::pixel_size(),
        "json" => shorts::json_uni(thorough).size(),
        "strings" => shorts::strings(thorough).size(),
        "dump" => dumpfam::size(),
        "selftest" => 600,
        _ => 0,
    }
}

/// Run indices lo..hi of a family in this process (cheap textual families).
pub fn run_in_process(name: &str, thorough: bool, only: Option<String>, lo: u64, hi: u64) -> Ctx {
    let (n, run) = resolve(name).expect("family");
    let mut cx = Ctx::new(n, thorough);
    cx.only = only;
    for idx in lo..hi {
        cx.begin(idx);
        run(&mut cx, idx);
    }
    cx
}

/// Self-test of the isolation machinery (only with VERIF_C05_FAMILIES=selftest): subjects that
/// return, panic, spin forever and request a giant allocation. The run must report exactly one
/// panic class, one hang class and one abort class.
fn selftest_run(cx: &mut Ctx, idx: u64) {
    let what = || format!("selftest {idx}");
    let b = idx.to_le_bytes();
    cx.exec("selftest", "-", "-", &what, &b, || match idx {
        100 => panic!("selftest panic"),
        300 => loop {
            std::hint::black_box(0);
        },
        500 => {
            let v: Vec<u8> = vec![1u8; 3 << 30];
            std::hint::black_box(&v);
            acc::Out::Ok
        }
        _ => acc::Out::Ok,
    });
    cx.exec("selftest-after", "-", "-", &what, &b, || acc::Out::Ok);
}
