//! Builders of in-memory file objects carrying pixel data, and of valid compressed frames (seeds).

use dicom_core::value::{PixelFragmentSequence, PrimitiveValue, Value};
use dicom_core::{DataElement, Tag, VR};
use dicom_encoding::adapters::EncodeOptions;
use dicom_object::{DefaultDicomObject, FileMetaTableBuilder, InMemDicomObject};

pub const RLE: &str = "1.2.840.10008.1.2.5";
pub const JPEG_BASELINE: &str = "1.2.840.10008.1.2.4.50";
pub const JPEG_EXTENDED: &str = "1.2.840.10008.1.2.4.51";
pub const JPEG_LOSSLESS: &str = "1.2.840.10008.1.2.4.57";
pub const JPEG_LOSSLESS_SV1: &str = "1.2.840.10008.1.2.4.70";
pub const DEFLATED_FRAME: &str = "1.2.840.10008.1.2.8.1";
pub const ENCAP_UNCOMPRESSED: &str = "1.2.840.10008.1.2.1.98";
pub const EVLE: &str = "1.2.840.10008.1.2.1";

/// transfer syntaxes that have a pixel data decoder in this build, plus native Explicit VR LE
pub const DECODER_TS: [(&str, &str); 8] = [
    (RLE, "rle"),
    (JPEG_BASELINE, "jpeg-baseline"),
    (JPEG_EXTENDED, "jpeg-extended"),
    (JPEG_LOSSLESS, "jpeg-lossless"),
    (JPEG_LOSSLESS_SV1, "jpeg-lossless-sv1"),
    (DEFLATED_FRAME, "deflated-frame"),
    (ENCAP_UNCOMPRESSED, "encapsulated-uncompressed"),
    (EVLE, "native-evle"),
];

#[derive(Clone, Debug, Default, PartialEq)]
pub struct PixAttrs {
    pub rows: Option<u16>,
    pub cols: Option<u16>,
    pub bits_allocated: Option<u16>,
    pub samples: Option<u16>,
    /// Number of Frames (IS text)
    pub frames: Option<String>,
}

impl PixAttrs {
    pub fn of(rows: u16, cols: u16, ba: u16, spp: u16, frames: u32) -> PixAttrs {
        PixAttrs { rows: Some(rows), cols: Some(cols), bits_allocated: Some(ba), samples: Some(spp), frames: Some(frames.to_string()) }
    }
    pub fn label(&self) -> String {
        let f = |o: &Option<u16>| o.map(|v| v.to_string()).unwrap_or_else(|| "-".into());
        format!("rows={} cols={} ba={} spp={} frames={}", f(&self.rows), f(&self.cols), f(&self.bits_allocated), f(&self.samples), self.frames.clone().unwrap_or_else(|| "-".into()))
    }
}

#[derive(Clone, Debug)]
pub enum PixVal {
    Absent,
    Native(Vec<u8>),
    Frags { offsets: Vec<u32>, frags: Vec<Vec<u8>> },
}

pub fn pixel_object(ts_uid: &str, a: &PixAttrs, v: &PixVal) -> DefaultDicomObject {
    let us = |t: Tag, v: u16| DataElement::new(t, VR::US, PrimitiveValue::from(v));
    let mut e: Vec<DataElement<InMemDicomObject>> = vec![
        DataElement::new(Tag(0x0008, 0x0016), VR::UI, PrimitiveValue::from("1.2.840.10008.5.1.4.1.1.7")),
        DataElement::new(Tag(0x0008, 0x0018), VR::UI, PrimitiveValue::from("1.2.3.4")),
    ];
    if let Some(s) = a.samples {
        e.push(us(Tag(0x0028, 0x0002), s));
    }
    e.push(DataElement::new(Tag(0x0028, 0x0004), VR::CS, PrimitiveValue::from(if a.samples == Some(3) { "RGB" } else { "MONOCHROME2" })));
    if a.samples == Some(3) {
        e.push(us(Tag(0x0028, 0x0006), 0));
    }
    if let Some(f) = &a.frames {
        e.push(DataElement::new(Tag(0x0028, 0x0008), VR::IS, PrimitiveValue::from(f.as_str())));
    }
    if let Some(r) = a.rows {
        e.push(us(Tag(0x0028, 0x0010), r));
    }
    if let Some(c) = a.cols {
        e.push(us(Tag(0x0028, 0x0011), c));
    }
    if let Some(b) = a.bits_allocated {
        e.push(us(Tag(0x0028, 0x0100), b));
    }
    let stored = a.bits_allocated.unwrap_or(8);
    e.push(us(Tag(0x0028, 0x0101), stored));
    e.push(us(Tag(0x0028, 0x0102), stored.saturating_sub(1)));
    e.push(us(Tag(0x0028, 0x0103), 0));
    match v {
        PixVal::Absent => {}
        PixVal::Native(b) => e.push(DataElement::new(Tag(0x7FE0, 0x0010), VR::OB, PrimitiveValue::from(b.clone()))),
        PixVal::Frags { offsets, frags } => e.push(DataElement::new(
            Tag(0x7FE0, 0x0010),
            VR::OB,
            Value::PixelSequence(PixelFragmentSequence::new(offsets.clone(), frags.clone())),
        )),
    }
    let obj = InMemDicomObject::from_element_iter(e);
    let meta = FileMetaTableBuilder::new()
        .transfer_syntax(ts_uid)
        .media_storage_sop_class_uid("1.2.840.10008.5.1.4.1.1.7")
        .media_storage_sop_instance_uid("1.2.3.4")
        .build()
        .expect("harness: meta table");
    obj.with_exact_meta(meta)
}

/// PackBits with literal runs only.
fn packbits_literal(data: &[u8]) -> Vec<u8> {
    let mut out = vec![];
    for ch in data.chunks(128) {
        out.push((ch.len() - 1) as u8);
        out.extend_from_slice(ch);
    }
    if out.len() % 2 == 1 {
        out.push(0x80);
    }
    out
}

/// A valid RLE Lossless frame (PS3.5 Annex G) for a gradient image.
pub fn rle_frame(rows: u16, cols: u16, spp: u16, bytes_per_sample: u16) -> Vec<u8> {
    let n = rows as usize * cols as usize;
    let nseg = (spp * bytes_per_sample) as usize;
    let mut segs: Vec<Vec<u8>> = vec![];
    for s in 0..nseg {
        let plane: Vec<u8> = (0..n).map(|i| (i * 7 + s * 31) as u8).collect();
        segs.push(packbits_literal(&plane));
    }
    let mut out = vec![0u8; 64];
    out[0..4].copy_from_slice(&(nseg as u32).to_le_bytes());
    let mut off = 64u32;
    for (i, s) in segs.iter().enumerate() {
        out[4 + 4 * i..8 + 4 * i].copy_from_slice(&off.to_le_bytes());
        off += s.len() as u32;
    }
    for s in segs {
        out.extend(s);
    }
    out
}

/// A valid JPEG baseline frame of a rows x cols 8-bit gray image, produced by the build's own encoder.
pub fn jpeg_frame(rows: u16, cols: u16) -> Vec<u8> {
    let data: Vec<u8> = (0..rows as usize * cols as usize).map(|i| (i * 5) as u8).collect();
    let src = pixel_object(EVLE, &PixAttrs::of(rows, cols, 8, 1, 1), &PixVal::Frags { offsets: vec![], frags: vec![data] });
    let w = crate::eps::ts(JPEG_BASELINE).pixel_data_writer().expect("harness: no JPEG encoder in this build");
    let mut dst = vec![];
    w.encode_frame(&src, 0, EncodeOptions::default(), &mut dst).expect("harness: JPEG seed encoding failed");
    dst
}

pub fn deflated_frame(rows: u16, cols: u16) -> Vec<u8> {
    let data: Vec<u8> = (0..rows as usize * cols as usize).map(|i| (i * 3) as u8).collect();
    let mut d = vx_ref::ds::deflate_raw(&data);
    if d.len() % 2 == 1 {
        d.push(0);
    }
    d
}
