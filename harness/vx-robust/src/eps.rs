//! The public reading entry points of dicom-rs, each wrapped so that it returns Out::Ok / Out::Err.

use crate::acc::{Ctx, Out};
use dicom_core::dictionary::DataDictionary;
use dicom_core::Tag;
use dicom_dictionary_std::StandardDataDictionary;
use dicom_dump::{ColorMode, DumpOptions};
use dicom_encoding::transfer_syntax::TransferSyntaxIndex;
use dicom_encoding::TransferSyntax;
use dicom_object::collector::{DicomCollector, DicomCollectorOptions};
use dicom_object::file::ReadPreamble;
use dicom_object::{DefaultDicomObject, FileMetaTable, InMemDicomObject, OpenFileOptions};
use dicom_parser::dataset::lazy_read::{LazyDataSetReader, LazyDataSetReaderOptions};
use dicom_parser::dataset::read::{DataSetReader, DataSetReaderOptions, OddLengthStrategy, ValueReadStrategy};
use dicom_pixeldata::PixelDecoder;
use dicom_transfer_syntax_registry::TransferSyntaxRegistry;
use std::io::{BufReader, Cursor};
use std::str::FromStr;

pub const TS3: [&str; 3] = ["1.2.840.10008.1.2", "1.2.840.10008.1.2.1", "1.2.840.10008.1.2.2"];
pub const TS3_NAMES: [&str; 3] = ["ivle", "evle", "evbe"];

pub fn ts(uid: &str) -> &'static TransferSyntax {
    TransferSyntaxRegistry.get(uid).unwrap_or_else(|| panic!("harness: transfer syntax {uid} not registered"))
}

const ODD: [(OddLengthStrategy, &str); 3] =
    [(OddLengthStrategy::Accept, "accept"), (OddLengthStrategy::NextEven, "nexteven"), (OddLengthStrategy::Fail, "fail")];
const VS: [(ValueReadStrategy, &str); 3] =
    [(ValueReadStrategy::Preserved, "preserved"), (ValueReadStrategy::Interpreted, "interpreted"), (ValueReadStrategy::Raw, "raw")];

/// more tokens than any input of the families can hold: treated as a (bounded) failure to terminate
const TOKEN_LIMIT: usize = 1 << 16;

fn dump_obj(obj: &InMemDicomObject) -> Out {
    let mut out = Vec::new();
    match DumpOptions::new().color_mode(ColorMode::Never).width(80).dump_object_to(&mut out, obj) {
        Ok(()) => Out::Ok,
        Err(_) => Out::Err,
    }
}
fn dump_file(obj: &DefaultDicomObject) -> Out {
    let mut out = Vec::new();
    match DumpOptions::new().color_mode(ColorMode::Never).width(80).dump_file_to(&mut out, obj) {
        Ok(()) => Out::Ok,
        Err(_) => Out::Err,
    }
}

pub const DUMP_WIDTHS: [u32; 9] = [0, 1, 40, 66, 67, 68, 80, 121, 200];

/// dicom-dump with the width limit ON. `dump_element` is the public function that takes a writer and
/// the limit parameters; the `DumpOptions::dump_object` / `dump_file` entry points honour width /
/// no_text_limit / no_limit only when printing to standard output, so they run only in worker
/// processes (stdout on /dev/null).
/// `widths` = the widths to use; every width is crossed with depth 0..2 and the limit flags.
pub fn dump_limited_eps(cx: &mut Ctx, obj: &InMemDicomObject, widths: &[u32], label: &str, what: &dyn Fn() -> String, input: &[u8]) {
    for &w in widths {
        cx.exec("dump_element", &format!("width={w}/depth=0..2/limits"), label, what, input, || {
            let mut out = Vec::new();
            for depth in 0..3u32 {
                for (ntl, nl) in [(false, false), (true, false)] {
                    for e in obj.iter() {
                        if dicom_dump::dump_element(&mut out, e, w, depth, ntl, nl).is_err() {
                            return Out::Err;
                        }
                    }
                    out.clear();
                }
            }
            Out::Ok
        });
    }
    if cx.stdout_null {
        // three of the widths per object, rotating with the index; options crossed along the widths
        let rot = cx.idx as usize;
        for k in 0..widths.len().min(3) {
            let i = (rot + k * 3) % widths.len();
            let w = widths[i];
            let (ntl, nl) = [(false, false), (true, false), (false, true)][(i + rot / widths.len()) % 3];
            cx.exec("DumpOptions::dump_object(stdout)", &format!("width={w}/no_text_limit={ntl}/no_limit={nl}"), label, what, input, || {
                match DumpOptions::new().color_mode(ColorMode::Never).width(w).no_text_limit(ntl).no_limit(nl).dump_object(obj) {
                    Ok(()) => Out::Ok,
                    Err(_) => Out::Err,
                }
            });
        }
    }
}

/// DumpFormat::Json through a writer, and (workers only) both formats of a file object to stdout with limits on.
pub fn dump_formats_eps(cx: &mut Ctx, obj: &InMemDicomObject, ts_uid: &str, label: &str, what: &dyn Fn() -> String, input: &[u8]) {
    cx.exec("DumpOptions::dump_object_to", "format=json", label, what, input, || {
        let mut out = Vec::new();
        match DumpOptions::new().format(dicom_dump::DumpFormat::Json).dump_object_to(&mut out, obj) {
            Ok(()) => Out::Ok,
            Err(_) => Out::Err,
        }
    });
    if cx.stdout_null {
        let meta = dicom_object::FileMetaTableBuilder::new()
            .transfer_syntax(ts_uid)
            .media_storage_sop_class_uid("1.2.840.10008.5.1.4.1.1.7")
            .media_storage_sop_instance_uid("1.2.3.4")
            .build();
        if let Ok(meta) = meta {
            let f = obj.clone().with_exact_meta(meta);
            for (w, fmt, fname) in [(40u32, dicom_dump::DumpFormat::Text, "text"), (67, dicom_dump::DumpFormat::Text, "text"), (80, dicom_dump::DumpFormat::Json, "json")] {
                cx.exec("DumpOptions::dump_file(stdout)", &format!("width={w}/format={fname}"), label, what, input, || {
                    match DumpOptions::new().color_mode(ColorMode::Never).width(w).format(fmt.clone()).dump_file(&f) {
                        Ok(()) => Out::Ok,
                        Err(_) => Out::Err,
                    }
                });
            }
        }
    }
}

/// level of detail: Full = every configuration, Lean = one configuration per entry point
#[derive(Clone, Copy, PartialEq, Eq)]
pub enum Depth {
    Full,
    Lean,
    /// data sets only: DataSetReader (preserved, interpreted+flexible) and LazyDataSetReader (owned)
    Minimal,
}

/// Data set readers on a bare data set in transfer syntax TS3[ti].
pub fn dataset_eps(cx: &mut Ctx, ti: usize, d: &[u8], what: &dyn Fn() -> String, depth: Depth) {
    let t = ts(TS3[ti]);
    let tn = TS3_NAMES[ti];
    // DataSetReader: value strategies x flexible decoding (odd = accept), odd strategies (default strategy)
    let mut cfgs: Vec<(ValueReadStrategy, bool, OddLengthStrategy, String)> = vec![];
    for (vs, vn) in VS {
        for flex in [false, true] {
            if depth == Depth::Lean && !(vs == ValueReadStrategy::Preserved || (vs == ValueReadStrategy::Interpreted && !flex)) {
                continue;
            }
            if depth == Depth::Minimal && !((vs == ValueReadStrategy::Preserved && !flex) || (vs == ValueReadStrategy::Interpreted && flex)) {
                continue;
            }
            cfgs.push((vs, flex, OddLengthStrategy::Accept, format!("{vn}/flex={flex}/accept")));
        }
    }
    if depth == Depth::Full {
        for (odd, on) in &ODD[1..] {
            cfgs.push((ValueReadStrategy::Preserved, false, *odd, format!("preserved/flex=false/{on}")));
            cfgs.push((ValueReadStrategy::Interpreted, true, *odd, format!("interpreted/flex=true/{on}")));
        }
    }
    for (vs, flex, odd, name) in cfgs {
        cx.exec("DataSetReader", &name, tn, what, d, || {
            let mut o = DataSetReaderOptions::default();
            o.value_read = vs;
            o.flexible_decoding = flex;
            o.odd_length = odd;
            let r = match DataSetReader::new_with_ts_options(Cursor::new(d), t, o) {
                Ok(r) => r,
                Err(_) => return Out::Err,
            };
            let mut n = 0;
            for tok in r {
                if tok.is_err() {
                    return Out::Err;
                }
                n += 1;
                if n > TOKEN_LIMIT {
                    panic!("harness: more than {TOKEN_LIMIT} tokens from {} input bytes", d.len());
                }
            }
            Out::Ok
        });
    }
    // LazyDataSetReader: advance + skip / into_owned
    // (not consuming a value token is documented misuse and is not part of the universe)
    let mut lazy: Vec<(&str, OddLengthStrategy, &str)> = vec![("skip", OddLengthStrategy::Accept, "accept"), ("owned", OddLengthStrategy::Accept, "accept")];
    if depth == Depth::Full {
        lazy.push(("owned", OddLengthStrategy::NextEven, "nexteven"));
        lazy.push(("skip", OddLengthStrategy::Fail, "fail"));
        lazy.push(("owned-interpreted", OddLengthStrategy::Accept, "accept"));
    }
    if depth == Depth::Minimal {
        lazy.truncate(0);
        lazy.push(("owned", OddLengthStrategy::Accept, "accept"));
    }
    for (mode, odd, on) in lazy {
        cx.exec("LazyDataSetReader", &format!("{mode}/{on}"), tn, what, d, || {
            let mut o = LazyDataSetReaderOptions::default();
            o.odd_length = odd;
            let mut r = match LazyDataSetReader::new_with_ts_options(Cursor::new(d), t, o) {
                Ok(r) => r,
                Err(_) => return Out::Err,
            };
            let mut n = 0;
            loop {
                let tok = match r.advance() {
                    None => return Out::Ok,
                    Some(Err(_)) => return Out::Err,
                    Some(Ok(t)) => t,
                };
                match mode {
                    "skip" => {
                        if tok.skip().is_err() {
                            return Out::Err;
                        }
                    }
                    "owned" => {
                        if tok.into_owned().is_err() {
                            return Out::Err;
                        }
                    }
                    "owned-interpreted" => {
                        if tok.into_owned_with_strategy(ValueReadStrategy::Interpreted).is_err() {
                            return Out::Err;
                        }
                    }
                    _ => {}
                }
                n += 1;
                if n > TOKEN_LIMIT {
                    panic!("harness: more than {TOKEN_LIMIT} tokens from {} input bytes", d.len());
                }
            }
        });
    }
    if depth == Depth::Minimal {
        return;
    }
    // the in-memory object reader on a bare data set, then dump
    let mut got = None;
    cx.exec("InMemDicomObject::read_dataset_with_ts", "-", tn, what, d, || match InMemDicomObject::read_dataset_with_ts(Cursor::new(d), t) {
        Ok(o) => {
            got = Some(o);
            Out::Ok
        }
        Err(_) => Out::Err,
    });
    if let Some(o) = got {
        cx.exec("dump_object", "after read_dataset_with_ts", tn, what, d, || dump_obj(&o));
        // the dump with the limit on: a sub-sample of the widths (the dump family has the full cross)
        dump_limited_eps(cx, &o, &[67], tn, what, d);
    }
    // collector on a bare data set with a transfer syntax hint
    for op in ["to_end", "fragments"] {
        cx.exec("DicomCollector(raw)", op, tn, what, d, || {
            let mut c = DicomCollector::new_with_ts(BufReader::new(Cursor::new(d)), TS3[ti]);
            collector_ops(&mut c, op)
        });
    }
}

fn collector_ops<S: std::io::Read + std::io::Seek>(c: &mut DicomCollector<BufReader<S>>, op: &str) -> Out {
    let mut errs = 0;
    let mut oks = 0;
    let mut note = |ok: bool| {
        if ok {
            oks += 1
        } else {
            errs += 1
        }
    };
    let mut obj = InMemDicomObject::new_empty();
    let frags = |c: &mut DicomCollector<BufReader<S>>, note: &mut dyn FnMut(bool)| {
        let mut buf = Vec::new();
        for _ in 0..8 {
            match c.read_next_fragment(&mut buf) {
                Ok(Some(_)) => note(true),
                Ok(None) => {
                    note(true);
                    break;
                }
                Err(_) => {
                    note(false);
                    break;
                }
            }
        }
    };
    match op {
        "meta+to_end" => {
            note(c.read_file_meta().is_ok());
            note(c.read_dataset_to_end(&mut obj).is_ok());
        }
        "to_end" => {
            note(c.read_dataset_to_end(&mut obj).is_ok());
        }
        "meta+up_to_pixel+bot+fragments" => {
            note(c.read_file_meta().is_ok());
            note(c.read_dataset_up_to_pixeldata(&mut obj).is_ok());
            let mut bot = Vec::new();
            note(c.read_basic_offset_table(&mut bot).is_ok());
            frags(c, &mut note);
        }
        "fragments" => frags(c, &mut note),
        "bot+fragments+to_end" => {
            let mut bot = Vec::new();
            note(c.read_basic_offset_table(&mut bot).is_ok());
            frags(c, &mut note);
            note(c.read_dataset_to_end(&mut obj).is_ok());
        }
        "meta+up_to(0008,1140)+to_end" => {
            note(c.read_file_meta().is_ok());
            note(c.read_dataset_up_to(Tag(0x0008, 0x1140), &mut obj).is_ok());
            note(c.read_dataset_to_end(&mut obj).is_ok());
        }
        _ => unreachable!(),
    }
    let _ = dump_obj(&obj);
    if errs == 0 && oks > 0 {
        Out::Ok
    } else {
        Out::Err
    }
}

pub const COLLECTOR_OPS: [&str; 6] =
    ["meta+to_end", "to_end", "meta+up_to_pixel+bot+fragments", "fragments", "bot+fragments+to_end", "meta+up_to(0008,1140)+to_end"];

/// File-level entry points on a byte string meant to be a whole Part 10 file.
/// `label` names the wrapping (e.g. "evle/preamble").
pub fn file_eps(cx: &mut Ctx, f: &[u8], label: &str, what: &dyn Fn() -> String, depth: Depth, use_open_file: bool) {
    let rps: &[(ReadPreamble, &str)] = &[(ReadPreamble::Auto, "auto"), (ReadPreamble::Never, "never"), (ReadPreamble::Always, "always")];
    let mut cfgs: Vec<(OddLengthStrategy, &str, ReadPreamble, &str)> = vec![(OddLengthStrategy::Accept, "accept", ReadPreamble::Auto, "auto")];
    if depth != Depth::Minimal {
        cfgs.push((OddLengthStrategy::Accept, "accept", rps[1].0, rps[1].1));
    }
    if depth == Depth::Full {
        cfgs.push((OddLengthStrategy::NextEven, "nexteven", ReadPreamble::Auto, "auto"));
        cfgs.push((OddLengthStrategy::Fail, "fail", ReadPreamble::Auto, "auto"));
        cfgs.push((OddLengthStrategy::Accept, "accept", rps[2].0, rps[2].1));
    }
    for (i, (odd, on, rp, rn)) in cfgs.into_iter().enumerate() {
        let mut got = None;
        cx.exec("from_reader", &format!("{on}/preamble={rn}"), label, what, f, || {
            match OpenFileOptions::new().odd_length_strategy(odd).read_preamble(rp).from_reader(Cursor::new(f)) {
                Ok(o) => {
                    got = Some(o);
                    Out::Ok
                }
                Err(_) => Out::Err,
            }
        });
        if i == 0 {
            if let Some(o) = got {
                cx.exec("dump_file", "after from_reader", label, what, f, || dump_file(&o));
                if depth == Depth::Full {
                    dump_limited_eps(cx, &o, &[68], label, what, f);
                }
                pixel_eps(cx, &o, label, "after from_reader", what, f);
            }
        }
    }
    if use_open_file {
        let path = cx.scratch.clone();
        if std::fs::write(&path, f).is_ok() {
            cx.exec("open_file", "default", label, what, f, || match dicom_object::open_file(&path) {
                Ok(_) => Out::Ok,
                Err(_) => Out::Err,
            });
            if depth == Depth::Full {
                cx.exec("open_file", "options/nexteven/preamble=always", label, what, f, || {
                    match OpenFileOptions::new().odd_length_strategy(OddLengthStrategy::NextEven).read_preamble(ReadPreamble::Always).open_file(&path) {
                        Ok(_) => Out::Ok,
                        Err(_) => Out::Err,
                    }
                });
            }
        }
    }
    // Minimal: from_reader (+ dump, pixel decoding) and the collector's plain meta+to_end script only
    let ops: &[&str] = match depth {
        Depth::Full => &COLLECTOR_OPS,
        Depth::Lean => &COLLECTOR_OPS[..4],
        Depth::Minimal => &COLLECTOR_OPS[..1],
    };
    for op in ops {
        cx.exec("DicomCollector", op, label, what, f, || {
            let mut c = DicomCollectorOptions::new().from_reader(BufReader::new(Cursor::new(f)));
            collector_ops(&mut c, op)
        });
    }
    if depth == Depth::Full {
        cx.exec("DicomCollector", "preamble=never/nexteven/meta+to_end", label, what, f, || {
            let mut c = DicomCollectorOptions::new().read_preamble(ReadPreamble::Never).odd_length_strategy(OddLengthStrategy::NextEven).from_reader(BufReader::new(Cursor::new(f)));
            collector_ops(&mut c, "meta+to_end")
        });
    }
}

/// FileMetaTable::from_reader on bytes that start at the magic code.
pub fn meta_ep(cx: &mut Ctx, b: &[u8], label: &str, what: &dyn Fn() -> String) {
    cx.exec("FileMetaTable::from_reader", "-", label, what, b, || match FileMetaTable::from_reader(Cursor::new(b)) {
        Ok(m) => {
            let _ = (m.transfer_syntax().len(), m.media_storage_sop_class_uid().len());
            Out::Ok
        }
        Err(_) => Out::Err,
    });
}

/// Pixel data decoding of an object, whatever its content.
pub fn pixel_eps(cx: &mut Ctx, obj: &DefaultDicomObject, label: &str, cfg: &str, what: &dyn Fn() -> String, input: &[u8]) {
    cx.exec("decode_pixel_data", cfg, label, what, input, || match obj.decode_pixel_data() {
        Ok(_) => Out::Ok,
        Err(_) => Out::Err,
    });
    for fr in [0u32, 1] {
        cx.exec("decode_pixel_data_frame", &format!("{cfg}/frame={fr}"), label, what, input, || match obj.decode_pixel_data_frame(fr) {
            Ok(_) => Out::Ok,
            Err(_) => Out::Err,
        });
    }
}

pub fn pdu_eps(cx: &mut Ctx, b: &[u8], label: &str, what: &dyn Fn() -> String, lean: bool) {
    let cfgs: &[(bool, u32)] = if lean { &[(true, 16384), (false, 16384)] } else { &[(true, 16384u32), (false, 16384), (true, 131_072), (false, 4096)] };
    for &(strict, max) in cfgs {
        cx.exec("read_pdu", &format!("strict={strict}/max={max}"), label, what, b, || match dicom_ul::pdu::read_pdu(b, max, strict) {
            Ok(Some(p)) => {
                let _ = format!("{}", p.short_description());
                Out::Ok
            }
            Ok(None) => Out::Ok,
            Err(_) => Out::Err,
        });
    }
}

pub fn json_eps(cx: &mut Ctx, b: &[u8], label: &str, what: &dyn Fn() -> String) {
    let mut got = None;
    if let Ok(s) = std::str::from_utf8(b) {
        cx.exec("dicom_json::from_str", "InMemDicomObject", label, what, b, || match dicom_json::from_str::<InMemDicomObject>(s) {
            Ok(o) => {
                got = Some(o);
                Out::Ok
            }
            Err(_) => Out::Err,
        });
    } else {
        cx.exec("dicom_json::from_slice", "InMemDicomObject", label, what, b, || match dicom_json::from_slice::<InMemDicomObject>(b) {
            Ok(o) => {
                got = Some(o);
                Out::Ok
            }
            Err(_) => Out::Err,
        });
    }
    if let Some(o) = got {
        cx.exec("dump_object", "after dicom_json::from_str", label, what, b, || dump_obj(&o));
        dump_limited_eps(cx, &o, &[1, 67], label, what, b);
    }
    if let Ok(s) = std::str::from_utf8(b) {
        cx.exec("dicom_json::from_str", "Tag", label, what, b, || match dicom_json::from_str::<Tag>(s) {
            Ok(_) => Out::Ok,
            Err(_) => Out::Err,
        });
    }
}

pub const STRING_PARSERS: [&str; 9] = [
    "Tag::from_str",
    "parse_tag",
    "parse_selector",
    "parse_date_partial",
    "parse_time_partial",
    "parse_datetime_partial",
    "parse_date_range",
    "parse_time_range",
    "parse_datetime_range",
];

/// One textual parser on one byte string (text parsers need UTF-8: others are skipped).
pub fn string_ep(cx: &mut Ctx, which: usize, b: &[u8], what: &dyn Fn() -> String) {
    use dicom_core::value::deserialize as de;
    use dicom_core::value::range as rg;
    let name = STRING_PARSERS[which];
    let r = |ok: bool| if ok { Out::Ok } else { Out::Err };
    match which {
        0 => {
            if let Ok(s) = std::str::from_utf8(b) {
                cx.exec(name, "-", "-", what, b, || r(Tag::from_str(s).is_ok()));
            }
        }
        1 => {
            if let Ok(s) = std::str::from_utf8(b) {
                cx.exec(name, "-", "-", what, b, || r(StandardDataDictionary.parse_tag(s).is_some()));
            }
        }
        2 => {
            if let Ok(s) = std::str::from_utf8(b) {
                cx.exec(name, "-", "-", what, b, || r(StandardDataDictionary.parse_selector(s).is_ok()));
            }
        }
        3 => {
            cx.exec(name, "-", "-", what, b, || match de::parse_date_partial(b) {
                Ok((d, _)) => {
                    let _ = (d.to_encoded(), dicom_core::value::range::AsRange::range(&d).is_ok());
                    Out::Ok
                }
                Err(_) => Out::Err,
            });
        }
        4 => {
            cx.exec(name, "-", "-", what, b, || match de::parse_time_partial(b) {
                Ok((t, _)) => {
                    let _ = (t.to_encoded(), dicom_core::value::range::AsRange::range(&t).is_ok());
                    Out::Ok
                }
                Err(_) => Out::Err,
            });
        }
        5 => {
            cx.exec(name, "-", "-", what, b, || match de::parse_datetime_partial(b) {
                Ok(t) => {
                    let _ = (t.to_encoded(), dicom_core::value::range::AsRange::range(&t).is_ok());
                    Out::Ok
                }
                Err(_) => Out::Err,
            });
        }
        6 => {
            cx.exec(name, "-", "-", what, b, || r(rg::parse_date_range(b).is_ok()));
        }
        7 => {
            cx.exec(name, "-", "-", what, b, || r(rg::parse_time_range(b).is_ok()));
        }
        8 => {
            cx.exec(name, "-", "-", what, b, || r(rg::parse_datetime_range(b).is_ok()));
        }
        _ => unreachable!(),
    }
}
