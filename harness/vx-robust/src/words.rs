//! Family 1: structural words over an alphabet of encoded atoms, in the three uncompressed syntaxes,
//! bare and wrapped as Part 10 files (valid meta group, with / without preamble).

use crate::acc::Ctx;
use crate::eps::{self, Depth};
use vx_ref::ds::{self as rds, Ts};

pub struct Letter {
    pub name: &'static str,
    /// member of the reduced alphabet
    pub reduced: bool,
    pub enc: fn(Ts) -> Vec<u8>,
}

fn hdr(ts: Ts, tag: (u16, u16), vr: &str, len: u32) -> Vec<u8> {
    let v = rds::vr(vr);
    let len = if ts.explicit() && rds::is_short(v) { len & 0xFFFF } else { len };
    rds::encode_header(ts, tag, v, len).unwrap()
}
/// explicit VR header with a VR code that is not a VR (8-byte form); implicit: an unknown tag
fn hdr_unknown_vr(ts: Ts) -> Vec<u8> {
    let mut h = hdr(ts, (0x0012, 0x9901), "LO", 2);
    if ts.explicit() {
        h[4] = b'Z';
        h[5] = b'Z';
    }
    h
}
fn elem(ts: Ts, tag: (u16, u16), vr: &str, le: &[u8]) -> Vec<u8> {
    rds::encode_items(ts, &[rds::RElem::prim(tag, vr, le)])
}

const LO: (u16, u16) = (0x0008, 0x0070);
const OBT: (u16, u16) = (0x0008, 0x041B);
const UNT: (u16, u16) = (0x0072, 0x006D);
const SQT: (u16, u16) = (0x0008, 0x1140);
const PIX: (u16, u16) = (0x7FE0, 0x0010);

pub static ALPHABET: &[Letter] = &[
    Letter { name: "LO:0", reduced: true, enc: |t| hdr(t, LO, "LO", 0) },
    Letter { name: "LO:2", reduced: true, enc: |t| hdr(t, LO, "LO", 2) },
    Letter { name: "LO:3", reduced: true, enc: |t| hdr(t, LO, "LO", 3) },
    Letter { name: "LO:FFFFFFFE", reduced: true, enc: |t| hdr(t, LO, "LO", 0xFFFF_FFFE) },
    Letter { name: "OB:2", reduced: false, enc: |t| hdr(t, OBT, "OB", 2) },
    Letter { name: "OB:FFFFFFFE", reduced: true, enc: |t| hdr(t, OBT, "OB", 0xFFFF_FFFE) },
    Letter { name: "UN:undef", reduced: true, enc: |t| hdr(t, UNT, "UN", 0xFFFF_FFFF) },
    Letter { name: "ZZ:2", reduced: true, enc: hdr_unknown_vr },
    Letter { name: "SQ:undef", reduced: true, enc: |t| hdr(t, SQT, "SQ", 0xFFFF_FFFF) },
    Letter { name: "SQ:0", reduced: false, enc: |t| hdr(t, SQT, "SQ", 0) },
    Letter { name: "SQ:8", reduced: true, enc: |t| hdr(t, SQT, "SQ", 8) },
    Letter { name: "SQ:3", reduced: false, enc: |t| hdr(t, SQT, "SQ", 3) },
    Letter { name: "item:undef", reduced: true, enc: |t| rds::encode_item_header(t, 0xFFFF_FFFF) },
    Letter { name: "item:0", reduced: true, enc: |t| rds::encode_item_header(t, 0) },
    Letter { name: "item:2", reduced: false, enc: |t| rds::encode_item_header(t, 2) },
    Letter { name: "item:3", reduced: false, enc: |t| rds::encode_item_header(t, 3) },
    Letter { name: "item-delim", reduced: true, enc: rds::item_delim },
    Letter { name: "seq-delim", reduced: true, enc: rds::seq_delim },
    Letter { name: "pixel:OB:undef", reduced: true, enc: |t| hdr(t, PIX, "OB", 0xFFFF_FFFF) },
    Letter { name: "pixel:OW:undef", reduced: false, enc: |t| hdr(t, PIX, "OW", 0xFFFF_FFFF) },
    Letter {
        name: "item:4+offset",
        reduced: true,
        enc: |t| {
            let mut v = rds::encode_item_header(t, 4);
            v.extend([0, 0, 0, 0]);
            v
        },
    },
    Letter { name: "raw:1", reduced: true, enc: |_| vec![0x41] },
    Letter { name: "raw:2", reduced: true, enc: |_| vec![0x41, 0x20] },
    Letter { name: "charset:utf8", reduced: true, enc: |t| elem(t, (0x0008, 0x0005), "CS", b"ISO_IR 192") },
    Letter { name: "charset:unsupported", reduced: false, enc: |t| elem(t, (0x0008, 0x0005), "CS", b"ISO_IR 999") },
    Letter { name: "charset:empty", reduced: false, enc: |t| elem(t, (0x0008, 0x0005), "CS", b"") },
    Letter { name: "pixrep:1", reduced: true, enc: |t| elem(t, (0x0028, 0x0103), "US", &[1, 0]) },
];

pub struct Universe {
    /// reduced alphabet (indices into ALPHABET) and its maximal word length
    pub red: Vec<usize>,
    pub red_len: usize,
    pub full_len: usize,
    /// number of words over the reduced alphabet with length <= red_len
    pub n_red: u64,
    /// number of words over the full alphabet with length <= full_len (the ones made only of reduced
    /// letters are skipped at run time: they are already in the first part)
    pub n_full: u64,
    /// encodings: [ts][letter]
    pub enc: Vec<Vec<Vec<u8>>>,
    /// file heads: [ts][preamble]
    pub heads: Vec<[Vec<u8>; 2]>,
}

fn count_words(a: u64, l: usize) -> u64 {
    (0..=l as u32).map(|k| a.pow(k)).sum()
}

impl Universe {
    pub fn new(thorough: bool) -> Universe {
        let red: Vec<usize> = ALPHABET.iter().enumerate().filter(|(_, l)| l.reduced).map(|(i, _)| i).collect();
        let (red_len, full_len) = if thorough { (5, 3) } else { (4, 3) };
        let enc = Ts::ALL.iter().map(|t| ALPHABET.iter().map(|l| (l.enc)(*t)).collect()).collect();
        let heads = Ts::ALL
            .iter()
            .map(|t| {
                let meta = rds::std_meta(t.uid(), "1.2.840.10008.5.1.4.1.1.7", "1.2.3.4");
                [rds::encode_file(false, &meta, *t, &[]), rds::encode_file(true, &meta, *t, &[])]
            })
            .collect();
        Universe { n_red: count_words(red.len() as u64, red_len), n_full: count_words(ALPHABET.len() as u64, full_len), red, red_len, full_len, enc, heads }
    }
    pub fn size(&self) -> u64 {
        self.n_red + self.n_full
    }
    /// index -> word (letters as indices into ALPHABET); None = duplicate of a reduced word
    pub fn word(&self, idx: u64) -> Option<Vec<usize>> {
        let (mut i, a, map): (u64, u64, Option<&Vec<usize>>) =
            if idx < self.n_red { (idx, self.red.len() as u64, Some(&self.red)) } else { (idx - self.n_red, ALPHABET.len() as u64, None) };
        let mut len = 0;
        loop {
            let n = a.pow(len);
            if i < n {
                break;
            }
            i -= n;
            len += 1;
        }
        let mut w = vec![0usize; len as usize];
        for k in (0..len as usize).rev() {
            let d = (i % a) as usize;
            i /= a;
            w[k] = match map {
                Some(m) => m[d],
                None => d,
            };
        }
        if map.is_none() && w.len() <= self.red_len && w.iter().all(|l| ALPHABET[*l].reduced) {
            return None;
        }
        Some(w)
    }
}

static UNI: std::sync::OnceLock<Universe> = std::sync::OnceLock::new();
pub fn universe(thorough: bool) -> &'static Universe {
    UNI.get_or_init(|| Universe::new(thorough))
}

pub fn run(cx: &mut Ctx, idx: u64) {
    let u = universe(cx.thorough);
    let Some(w) = u.word(idx) else { return };
    let what = || w.iter().map(|l| ALPHABET[*l].name).collect::<Vec<_>>().join(" ");
    // words of up to 3 letters: every configuration, bare and in both file wrappings (+ open_file);
    // longer words: every data set configuration on the bare encoding, the lean set on the file with preamble
    let short = w.len() <= 3;
    for ti in 0..3 {
        let mut d = Vec::new();
        for l in &w {
            d.extend_from_slice(&u.enc[ti][*l]);
        }
        // 5-letter words (thorough): the minimal data set configurations only
        eps::dataset_eps(cx, ti, &d, &what, if w.len() >= 5 { Depth::Minimal } else { Depth::Full });
        if w.len() >= 5 {
            continue;
        }
        for (pi, pn) in [(1usize, "preamble"), (0, "no-preamble")] {
            if !short && pi == 0 {
                continue;
            }
            let mut f = u.heads[ti][pi].clone();
            f.extend_from_slice(&d);
            let label = format!("{}/{}", eps::TS3_NAMES[ti], pn);
            let depth = if !short {
                Depth::Minimal
            } else if pi == 1 {
                Depth::Full
            } else {
                Depth::Lean
            };
            eps::file_eps(cx, &f, &label, &what, depth, short && pi == 1 && w.len() <= 2);
        }
    }
}
