//! Dump family: values that make dicom-dump shorten its output.
//! For each text VR and OB / UN / OW: values made of periodic patterns (period 1-4) over a small
//! alphabet, every length 0..=80, single- and multi-valued, built in memory and read from bytes under
//! ISO_IR 100 and ISO_IR 192, dumped with the limit on at every width x depth x limit flag.

use crate::acc::{Ctx, Out};
use crate::eps;
use dicom_core::value::PrimitiveValue;
use dicom_core::{DataElement, Tag, VR};
use dicom_object::InMemDicomObject;
use vx_ref::ds::{self as rds, RElem, Ts};

pub const TEXT_VRS: [&str; 17] = ["AE", "AS", "CS", "DA", "DS", "DT", "IS", "LO", "LT", "PN", "SH", "ST", "TM", "UC", "UI", "UR", "UT"];
pub const BIN_VRS: [&str; 3] = ["OB", "UN", "OW"];
pub const MAX_LEN: u64 = 80;

/// alphabet: ASCII letter, 2-, 3-, 4-byte scalar, CR, LF, NUL, backslash; 0x80 for the binary VRs
const SYMS: [&str; 8] = ["A", "\u{e9}", "\u{20ac}", "\u{1F600}", "\r", "\n", "\0", "\\"];

/// periodic patterns: every symbol alone (period 1), A^k X for k = 1..3 and X != A (periods 2-4),
/// and three mixed periods
pub fn patterns() -> Vec<Vec<&'static str>> {
    let mut p: Vec<Vec<&'static str>> = SYMS.iter().map(|s| vec![*s]).collect();
    for k in 1..=3 {
        for x in &SYMS[1..] {
            let mut v = vec!["A"; k];
            v.push(x);
            p.push(v);
        }
    }
    p.push(vec!["\u{e9}", "\u{20ac}"]);
    p.push(vec!["\u{20ac}", "\u{1F600}", "A"]);
    p.push(vec!["\r", "\n", "A", "\u{e9}"]);
    p
}

pub const SOURCES: [&str; 4] = ["memory/single", "memory/multi", "read/ISO_IR 100", "read/ISO_IR 192"];

pub fn size() -> u64 {
    SOURCES.len() as u64 * (TEXT_VRS.len() + BIN_VRS.len()) as u64 * patterns().len() as u64 * (MAX_LEN + 1)
}

fn text_of(pat: &[&str], n: usize) -> String {
    (0..n).map(|i| pat[i % pat.len()]).collect()
}
/// binary pattern: the UTF-8 bytes of the symbols with every 'A' replaced by 0x80 in odd periods
fn bytes_of(pat: &[&str], n: usize) -> Vec<u8> {
    let mut v: Vec<u8> = text_of(pat, n).into_bytes();
    v.truncate(n);
    for (i, b) in v.iter_mut().enumerate() {
        if *b == b'A' && i % 2 == 1 {
            *b = 0x80;
        }
    }
    v
}

pub fn run(cx: &mut Ctx, idx: u64) {
    let pats = patterns();
    let mut i = idx;
    let mut pick = |n: u64| {
        let d = i % n;
        i /= n;
        d
    };
    let len = pick(MAX_LEN + 1) as usize;
    let pi = pick(pats.len() as u64) as usize;
    let vi = pick((TEXT_VRS.len() + BIN_VRS.len()) as u64) as usize;
    let si = pick(SOURCES.len() as u64) as usize;
    let binary = vi >= TEXT_VRS.len();
    let vr_s = if binary { BIN_VRS[vi - TEXT_VRS.len()] } else { TEXT_VRS[vi] };
    // binary values do not depend on the character set, and have no multi-valued form: two sources
    if binary && (si == 1 || si == 3) {
        return;
    }
    let vr: VR = vr_s.parse().unwrap();
    let tag = vx_data::std_tag(vr_s);
    let pat = &pats[pi];
    let what = || format!("{} {} pattern {:?} x {}", SOURCES[si], vr_s, pat.concat(), len);
    let label = format!("{}/{}", vr_s, SOURCES[si]);
    let input: Vec<u8> = if binary { bytes_of(pat, len) } else { text_of(pat, len).into_bytes() };

    let obj: InMemDicomObject = if si < 2 {
        let value = if binary {
            if vr == VR::OW {
                let b = bytes_of(pat, len & !1);
                PrimitiveValue::U16(b.chunks_exact(2).map(|c| u16::from_le_bytes([c[0], c[1]])).collect())
            } else {
                PrimitiveValue::U8(input.clone().into())
            }
        } else if si == 0 {
            PrimitiveValue::Str(text_of(pat, len))
        } else {
            // three values: the first third, the rest, and an empty one
            let t = text_of(pat, len);
            let cut = t.char_indices().nth(len / 3).map(|x| x.0).unwrap_or(t.len());
            PrimitiveValue::Strs(vec![t[..cut].to_string(), t[cut..].to_string(), String::new()].into())
        };
        InMemDicomObject::from_element_iter([DataElement::new(Tag(tag.0, tag.1), vr, value)])
    } else {
        let cs: &[u8] = if si == 2 { b"ISO_IR 100" } else { b"ISO_IR 192" };
        let mut elems = vec![RElem::prim((0x0008, 0x0005), "CS", cs), RElem::prim(tag, vr_s, &input)];
        elems.sort_by_key(|e| e.tag);
        let bytes = rds::encode_items(Ts::ExplicitLE, &elems);
        let mut got = None;
        cx.exec("InMemDicomObject::read_dataset_with_ts", "dump seed", &label, &what, &bytes, || {
            match InMemDicomObject::read_dataset_with_ts(std::io::Cursor::new(&bytes[..]), eps::ts(eps::TS3[1])) {
                Ok(o) => {
                    got = Some(o);
                    Out::Ok
                }
                Err(_) => Out::Err,
            }
        });
        match got {
            Some(o) => o,
            None => return,
        }
    };
    eps::dump_limited_eps(cx, &obj, &eps::DUMP_WIDTHS, &label, &what, &input);
    // formats: on one length in nine (the format does not look at the width)
    if len % 9 == 0 {
        eps::dump_formats_eps(cx, &obj, eps::TS3[1], &label, &what, &input);
    }
}
