//! Family 3: all short inputs.
//!  * `shorts`  — every byte string of length <= 2 (quick) / <= 3 (thorough), bare and behind valid prefixes,
//!                for the binary parsers;
//!  * `strings` — every string over a class alphabet up to a byte length, for the textual parsers;
//!  * `json`    — a grammar of DICOM JSON documents;
//!  * `pixel`   — attribute x fragment variations for every transfer syntax with a decoder.

use crate::acc::Ctx;
use crate::eps::{self, Depth};
use crate::pixobj::{self, PixAttrs, PixVal};
use vx_ref::ds::{self as rds, Ts};

// ------------------------------------------------------------------------------------------------
// shorts
// ------------------------------------------------------------------------------------------------

pub fn shorts_size(thorough: bool) -> u64 {
    if thorough {
        1 + 256 + 65536 + 16_777_216
    } else {
        1 + 256 + 65536
    }
}

fn short_bytes(mut idx: u64) -> Vec<u8> {
    let mut len = 0u32;
    loop {
        let n = 256u64.pow(len);
        if idx < n {
            break;
        }
        idx -= n;
        len += 1;
    }
    let mut v = vec![0u8; len as usize];
    for k in (0..len as usize).rev() {
        v[k] = (idx & 0xFF) as u8;
        idx >>= 8;
    }
    v
}

struct Heads {
    evle: Vec<u8>,
    ivle: Vec<u8>,
}
static HEADS: std::sync::OnceLock<Heads> = std::sync::OnceLock::new();
fn heads() -> &'static Heads {
    HEADS.get_or_init(|| Heads {
        evle: rds::encode_file(false, &rds::std_meta(Ts::ExplicitLE.uid(), "1.2.840.10008.5.1.4.1.1.7", "1.2.3.4"), Ts::ExplicitLE, &[]),
        ivle: rds::encode_file(true, &rds::std_meta(Ts::ImplicitLE.uid(), "1.2.840.10008.5.1.4.1.1.7", "1.2.3.4"), Ts::ImplicitLE, &[]),
    })
}

pub fn run_shorts(cx: &mut Ctx, idx: u64) {
    let s = short_bytes(idx);
    let what = || format!("bytes {:02X?}", s);
    if s.len() >= 3 {
        // 3-byte strings (thorough): bare contexts only
        eps::pdu_eps(cx, &s, "bare", &what, true);
        eps::meta_ep(cx, &s, "bare", &what);
        for ti in 0..3 {
            eps::dataset_eps(cx, ti, &s, &what, Depth::Minimal);
        }
        return;
    }
    // PDU reader: bare, and as the body of every PDU type
    eps::pdu_eps(cx, &s, "bare", &what, false);
    for t in [1u8, 2, 3, 4, 5, 6, 7, 0xFF] {
        let mut p = vec![t, 0];
        p.extend((s.len() as u32).to_be_bytes());
        p.extend_from_slice(&s);
        eps::pdu_eps(cx, &p, &format!("body-of-pdu-type-{t:02X}"), &what, true);
    }
    // file meta group: bare, after the magic code, as the content of the group
    eps::meta_ep(cx, &s, "bare", &what);
    let mut m = b"DICM".to_vec();
    m.extend_from_slice(&s);
    eps::meta_ep(cx, &m, "after-magic", &what);
    eps::file_eps(cx, &m, "after-magic", &what, Depth::Lean, false);
    let mut g = b"DICM".to_vec();
    g.extend(rds::encode_items(Ts::ExplicitLE, &[rds::RElem::prim((0x0002, 0x0000), "UL", &(s.len() as u32).to_le_bytes())]));
    g.extend_from_slice(&s);
    eps::meta_ep(cx, &g, "as-meta-group-content", &what);
    // file readers: bare, and as the data set behind a valid head
    eps::file_eps(cx, &s, "bare", &what, Depth::Lean, false);
    for (h, hn) in [(&heads().evle, "dataset-of-evle-file"), (&heads().ivle, "dataset-of-ivle-file-with-preamble")] {
        let mut f = h.clone();
        f.extend_from_slice(&s);
        eps::file_eps(cx, &f, hn, &what, Depth::Lean, false);
    }
    // data set readers
    for ti in 0..3 {
        eps::dataset_eps(cx, ti, &s, &what, Depth::Lean);
    }
}

// ------------------------------------------------------------------------------------------------
// strings over class alphabets, by byte length
// ------------------------------------------------------------------------------------------------

pub const TAG_FULL: [&str; 14] = ["0", "a", "F", "g", "(", ")", ",", ".", "[", "]", " ", "\u{e9}", "\u{20ac}", "\u{1F600}"];
pub const TAG_RED: [&str; 6] = ["0", "F", "g", ",", "\u{e9}", "\u{1F600}"];
pub const DATE_SYMS: [&[u8]; 14] = [b"0", b"1", b"2", b"3", b"5", b"6", b"9", b".", b"+", b"-", b" ", b"\\", b"A", b"\xFF"];

pub struct Lang {
    pub name: &'static str,
    pub parser: usize,
    pub syms: Vec<Vec<u8>>,
    pub max_bytes: usize,
    /// count[n] = number of strings of exactly n bytes
    count: Vec<u64>,
    pub total: u64,
}

impl Lang {
    fn new(name: &'static str, parser: usize, syms: Vec<Vec<u8>>, max_bytes: usize) -> Lang {
        let mut count = vec![0u64; max_bytes + 1];
        count[0] = 1;
        for n in 1..=max_bytes {
            for s in &syms {
                if s.len() <= n {
                    count[n] += count[n - s.len()];
                }
            }
        }
        let total = count.iter().sum();
        Lang { name, parser, syms, max_bytes, count, total }
    }
    fn unrank(&self, mut i: u64) -> Vec<u8> {
        let mut n = 0;
        while i >= self.count[n] {
            i -= self.count[n];
            n += 1;
        }
        let mut out = Vec::with_capacity(n);
        while n > 0 {
            for s in &self.syms {
                if s.len() <= n {
                    let c = self.count[n - s.len()];
                    if i < c {
                        out.extend_from_slice(s);
                        n -= s.len();
                        break;
                    }
                    i -= c;
                }
            }
        }
        out
    }
}

pub struct Strings {
    pub langs: Vec<Lang>,
    pub starts: Vec<u64>,
}

impl Strings {
    pub fn new(thorough: bool) -> Strings {
        let t = |a: &[&str]| a.iter().map(|s| s.as_bytes().to_vec()).collect::<Vec<_>>();
        let d: Vec<Vec<u8>> = DATE_SYMS.iter().map(|s| s.to_vec()).collect();
        let mut langs = vec![];
        for p in 0..3 {
            langs.push(Lang::new("tag-classes", p, t(&TAG_FULL), if thorough { 7 } else { 6 }));
            langs.push(Lang::new("tag-classes-reduced", p, t(&TAG_RED), if thorough { 11 } else { 9 }));
        }
        for p in 3..9 {
            langs.push(Lang::new("date-classes", p, d.clone(), if thorough { 6 } else { 5 }));
        }
        let mut starts = vec![0];
        for l in &langs {
            starts.push(starts.last().unwrap() + l.total);
        }
        Strings { langs, starts }
    }
    pub fn size(&self) -> u64 {
        *self.starts.last().unwrap()
    }
}

static STR: std::sync::OnceLock<Strings> = std::sync::OnceLock::new();
pub fn strings(thorough: bool) -> &'static Strings {
    STR.get_or_init(|| Strings::new(thorough))
}

pub fn run_strings(cx: &mut Ctx, idx: u64) {
    let u = strings(cx.thorough);
    let li = u.starts.partition_point(|s| *s <= idx) - 1;
    let lang = &u.langs[li];
    let s = lang.unrank(idx - u.starts[li]);
    let what = || format!("{} string {:?}", lang.name, String::from_utf8_lossy(&s));
    eps::string_ep(cx, lang.parser, &s, &what);
}

// ------------------------------------------------------------------------------------------------
// DICOM JSON grammar
// ------------------------------------------------------------------------------------------------

pub const JSON_KEYS: [&str; 4] = ["00100010", "0010001", "PatientID", ""];
pub const JSON_VRS_EXTRA: [&str; 3] = ["\"XX\"", "", "7"]; // unknown code, missing, number
pub const JSON_VALUES: [&str; 13] = [
    "",
    "[]",
    "[1]",
    "[\"a\"]",
    "[null]",
    "[{}]",
    "\"s\"",
    "{}",
    "[{\"Alphabetic\":\"A^B\"}]",
    "[\"1\",\"2.5\"]",
    "[-1,1.5e400]",
    "[18446744073709551616]",
    "[[1]]",
];
pub const JSON_INLINE: [&str; 4] = ["", "\"AQID\"", "\"@@@\"", "5"];
pub const JSON_BULK: [&str; 3] = ["", "\"http://x/y\"", "5"];

fn json_vrs() -> Vec<String> {
    let mut v: Vec<String> = rds::VRS.iter().map(|s| format!("\"{s}\"")).collect();
    v.extend(JSON_VRS_EXTRA.iter().map(|s| s.to_string()));
    v
}

fn json_elem(key: &str, vr: &str, value: &str, inline: &str, bulk: &str) -> String {
    let mut parts = vec![];
    if !vr.is_empty() {
        parts.push(format!("\"vr\":{vr}"));
    }
    if !value.is_empty() {
        parts.push(format!("\"Value\":{value}"));
    }
    if !inline.is_empty() {
        parts.push(format!("\"InlineBinary\":{inline}"));
    }
    if !bulk.is_empty() {
        parts.push(format!("\"BulkDataURI\":{bulk}"));
    }
    format!("\"{key}\":{{{}}}", parts.join(","))
}

/// reduced element set used as second element and as nested content
fn json_reduced() -> Vec<String> {
    let mut v = vec![];
    for (key, vr) in [("00100010", "\"PN\""), ("00280010", "\"US\""), ("7FE00010", "\"OB\""), ("00081140", "\"SQ\""), ("0008103E", ""), ("0020000D", "\"XX\"")] {
        for value in ["", "[]", "[1]", "[\"a\"]", "[null]", "[{}]", "{}"] {
            for inline in ["", "\"AQID\""] {
                v.push(json_elem(key, vr, value, inline, ""));
            }
        }
    }
    v
}

pub struct JsonUni {
    vrs: Vec<String>,
    reduced: Vec<String>,
    n_single: u64,
    n_pairs: u64,
    n_nested: u64,
    n_nested2: u64,
}

impl JsonUni {
    pub fn new(thorough: bool) -> JsonUni {
        let vrs = json_vrs();
        let reduced = json_reduced();
        let n_single = (JSON_KEYS.len() * vrs.len() * JSON_VALUES.len() * JSON_INLINE.len() * JSON_BULK.len()) as u64;
        let r = reduced.len() as u64;
        // pairs: quick = reduced x reduced, thorough = every single element x reduced
        let n_pairs = if thorough { n_single * r } else { r * r };
        // nesting 1: every VR code x reduced inner element; nesting 2: SQ/UN/missing outer x reduced x 12 innermost
        let n_nested = vrs.len() as u64 * r;
        let n_nested2 = 3 * r * 12;
        JsonUni { vrs, reduced, n_single, n_pairs, n_nested, n_nested2 }
    }
    pub fn size(&self) -> u64 {
        self.n_single + self.n_pairs + self.n_nested + self.n_nested2
    }
    fn single(&self, mut i: u64) -> String {
        let pick = |i: &mut u64, n: usize| {
            let d = (*i % n as u64) as usize;
            *i /= n as u64;
            d
        };
        let b = pick(&mut i, JSON_BULK.len());
        let il = pick(&mut i, JSON_INLINE.len());
        let v = pick(&mut i, JSON_VALUES.len());
        let vr = pick(&mut i, self.vrs.len());
        let k = pick(&mut i, JSON_KEYS.len());
        json_elem(JSON_KEYS[k], &self.vrs[vr], JSON_VALUES[v], JSON_INLINE[il], JSON_BULK[b])
    }
    pub fn doc(&self, idx: u64, thorough: bool) -> String {
        let r = self.reduced.len() as u64;
        if idx < self.n_single {
            return format!("{{{}}}", self.single(idx));
        }
        let i = idx - self.n_single;
        if i < self.n_pairs {
            let (a, b) = (i / r, i % r);
            let first = if thorough { self.single(a) } else { self.reduced[a as usize].clone() };
            return format!("{{{},{}}}", first, self.reduced[b as usize]);
        }
        let i = i - self.n_pairs;
        if i < self.n_nested {
            let (vr, inner) = (&self.vrs[(i / r) as usize], &self.reduced[(i % r) as usize]);
            return format!("{{{}}}", json_elem("00081140", vr, &format!("[{{{inner}}}]"), "", ""));
        }
        let i = i - self.n_nested;
        let outer = ["\"SQ\"", "\"UN\"", ""][(i / (r * 12)) as usize];
        let mid = &self.reduced[((i / 12) % r) as usize];
        let innermost = &self.reduced[((i % 12) * 7 % r) as usize];
        let inner_seq = json_elem("00081140", "\"SQ\"", &format!("[{{{innermost}}},{{}}]"), "", "");
        format!("{{{}}}", json_elem("00400275", outer, &format!("[{{{mid},{inner_seq}}}]"), "", ""))
    }
}

static JSONU: std::sync::OnceLock<JsonUni> = std::sync::OnceLock::new();
pub fn json_uni(thorough: bool) -> &'static JsonUni {
    JSONU.get_or_init(|| JsonUni::new(thorough))
}

pub fn run_json(cx: &mut Ctx, idx: u64) {
    let u = json_uni(cx.thorough);
    let doc = u.doc(idx, cx.thorough);
    let what = || doc.clone();
    eps::json_eps(cx, doc.as_bytes(), "grammar", &what);
}

// ------------------------------------------------------------------------------------------------
// pixel decoding over attribute / fragment variations
// ------------------------------------------------------------------------------------------------

const DIM: [Option<u16>; 5] = [None, Some(0), Some(1), Some(3), Some(65535)];
const BITS: [Option<u16>; 6] = [None, Some(0), Some(1), Some(8), Some(16), Some(65535)];
const FRAMES: [Option<&str>; 5] = [None, Some("0"), Some("1"), Some("3"), Some("65535")];
pub const FRAG_VARIANTS: [&str; 8] = ["absent", "no-fragments", "one-empty", "short-header", "valid-frame", "valid-frame-truncated", "two-valid-frames", "native-value"];

pub fn pixel_size() -> u64 {
    (pixobj::DECODER_TS.len() * DIM.len() * DIM.len() * BITS.len() * DIM.len() * FRAMES.len() * FRAG_VARIANTS.len()) as u64
}

struct Frames {
    /// valid frame per transfer syntax for a 1x1... the frame matches rows=3, cols=3, 8 bit, 1 sample
    valid: Vec<Vec<u8>>,
}
static FRAMES_CACHE: std::sync::OnceLock<Frames> = std::sync::OnceLock::new();
fn frames() -> &'static Frames {
    FRAMES_CACHE.get_or_init(|| {
        let jpeg = pixobj::jpeg_frame(3, 3);
        Frames {
            valid: pixobj::DECODER_TS
                .iter()
                .map(|(uid, _)| match *uid {
                    pixobj::RLE => pixobj::rle_frame(3, 3, 1, 1),
                    pixobj::DEFLATED_FRAME => pixobj::deflated_frame(3, 3),
                    pixobj::ENCAP_UNCOMPRESSED | pixobj::EVLE => (1..=9u8).chain([0]).collect(),
                    _ => jpeg.clone(),
                })
                .collect(),
        }
    })
}
pub fn warm_pixel() {
    let _ = frames();
}

pub fn run_pixel(cx: &mut Ctx, idx: u64) {
    let mut i = idx;
    let mut pick = |n: usize| {
        let d = (i % n as u64) as usize;
        i /= n as u64;
        d
    };
    let fv = pick(FRAG_VARIANTS.len());
    let fr = pick(FRAMES.len());
    let spp = pick(DIM.len());
    let ba = pick(BITS.len());
    let cols = pick(DIM.len());
    let rows = pick(DIM.len());
    let tsi = pick(pixobj::DECODER_TS.len());
    let (uid, tname) = pixobj::DECODER_TS[tsi];
    let attrs = PixAttrs { rows: DIM[rows], cols: DIM[cols], bits_allocated: BITS[ba], samples: DIM[spp], frames: FRAMES[fr].map(String::from) };
    let valid = &frames().valid[tsi];
    let val = match FRAG_VARIANTS[fv] {
        "absent" => PixVal::Absent,
        "no-fragments" => PixVal::Frags { offsets: vec![], frags: vec![] },
        "one-empty" => PixVal::Frags { offsets: vec![0], frags: vec![vec![]] },
        "short-header" => PixVal::Frags { offsets: vec![], frags: vec![vec![1, 0]] },
        "valid-frame" => PixVal::Frags { offsets: vec![0], frags: vec![valid.clone()] },
        "valid-frame-truncated" => PixVal::Frags { offsets: vec![], frags: vec![valid[..valid.len() * 2 / 3].to_vec()] },
        "two-valid-frames" => PixVal::Frags { offsets: vec![0, valid.len() as u32 + 8], frags: vec![valid.clone(), valid.clone()] },
        _ => PixVal::Native(valid.clone()),
    };
    let obj = pixobj::pixel_object(uid, &attrs, &val);
    let what = || format!("{} {} pixel-data={}", tname, attrs.label(), FRAG_VARIANTS[fv]);
    let input = what();
    eps::pixel_eps(cx, &obj, tname, FRAG_VARIANTS[fv], &what, input.as_bytes());
}
