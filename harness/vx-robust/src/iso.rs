//! Isolation (DESIGN section 1): sweeps over untrusted input run in worker subprocesses.
//!
//! The check binary re-executes itself as `c05 --worker <family> <lo> <hi> <tier> <outfile> [--probe]`.
//! A worker caps its own address space (RLIMIT_AS) so that a giant allocation fails inside the worker,
//! runs the cases lo..hi in order, appends a JSON line of accumulated results to <outfile> every
//! FLUSH_EVERY indices, and keeps (index, ordinal of the entry point, state) in a shared mapping
//! <outfile>.prog that survives its death. A watchdog thread ends the worker (exit code 98) when one
//! subject run exceeds the per-case budget.
//! The parent merges the flushed lines. When a worker died, the parent takes the culprit index from
//! the progress cell, re-queues the rest of the range, and re-runs the culprit index alone in a
//! worker started with `--probe`: there every subject run is first executed in a forked child
//! (under the same cap and budget); a subject whose child dies is run in a second child, and is
//! reported (kind abort / hang) only if that dies in the same way — i.e. the death was seen in the
//! sweep and reproduced twice alone. Subjects whose child survives are then run normally.

use crate::acc::{Ctx, Progress, CASE_START_MS};
use serde_json::Value;
use std::io::Write;
use std::path::{Path, PathBuf};
use std::process::{Command, Stdio};
use std::sync::atomic::Ordering;
use std::sync::Mutex;
use vx_kit::{Check, Local};

/// default number of indices run by one forked child (a family may ask for more: `--block`)
pub const FLUSH_EVERY: u64 = 256;
/// per-case budget in CPU time of the process (independent of the load of the machine) ...
pub const CASE_BUDGET_MS: u64 = 5_000;
/// ... and in wall-clock time (backstop for a subject that blocks without computing)
pub const CASE_WALL_BUDGET_MS: u64 = 120_000;
/// address-space cap of a worker
pub const WORKER_AS_BYTES: u64 = 256 << 20;

pub type RunCase = fn(&mut Ctx, u64);

pub fn cap_address_space(bytes: u64) {
    unsafe {
        let lim = libc::rlimit { rlim_cur: bytes as libc::rlim_t, rlim_max: bytes as libc::rlim_t };
        libc::setrlimit(libc::RLIMIT_AS, &lim);
        // no core files from expected aborts
        let z = libc::rlimit { rlim_cur: 0, rlim_max: 0 };
        libc::setrlimit(libc::RLIMIT_CORE, &z);
    }
}

// ---------------------------------------------------------------------------------------------
// fork probes (used inside a `--probe` worker)
// ---------------------------------------------------------------------------------------------

pub struct Death {
    pub how: String,
    pub hang: bool,
    pub stderr: String,
}

pub fn pipe() -> (i32, i32) {
    let mut fds = [0i32; 2];
    unsafe {
        if libc::pipe(fds.as_mut_ptr()) != 0 {
            eprintln!("pipe failed");
            libc::_exit(2);
        }
    }
    (fds[0], fds[1])
}

/// In the forked child: stderr goes to the pipe.
pub fn child_after_fork(rfd: i32, wfd: i32) {
    unsafe {
        libc::close(rfd);
        libc::dup2(wfd, 2);
        libc::close(wfd);
        // the CPU clock of a forked child starts at zero: the budget is enforced by the kernel
        let secs = (CASE_BUDGET_MS / 1000) as libc::rlim_t;
        let lim = libc::rlimit { rlim_cur: secs, rlim_max: secs + 1 };
        libc::setrlimit(libc::RLIMIT_CPU, &lim);
    }
}

/// In the parent: wait for the child within the per-case budget; None = it exited normally.
pub fn wait_child(pid: i32, rfd: i32, wfd: i32) -> Option<Death> {
    unsafe { libc::close(wfd) };
    if pid < 0 {
        unsafe { libc::close(rfd) };
        return Some(Death { how: "fork failed".into(), hang: false, stderr: String::new() });
    }
    let start = std::time::Instant::now();
    let mut status: i32 = 0;
    let mut hang = false;
    loop {
        let r = unsafe { libc::waitpid(pid, &mut status, libc::WNOHANG) };
        if r == pid || r < 0 {
            break;
        }
        if start.elapsed().as_millis() as u64 > CASE_WALL_BUDGET_MS {
            hang = true;
            unsafe {
                libc::kill(pid, libc::SIGKILL);
                libc::waitpid(pid, &mut status, 0);
            }
            break;
        }
        std::thread::sleep(std::time::Duration::from_micros(if start.elapsed().as_millis() < 20 { 200 } else { 2000 }));
    }
    // child's stderr
    let mut err = Vec::new();
    let mut buf = [0u8; 1024];
    loop {
        let n = unsafe { libc::read(rfd, buf.as_mut_ptr() as *mut libc::c_void, buf.len()) };
        if n <= 0 {
            break;
        }
        err.extend_from_slice(&buf[..n as usize]);
        if err.len() > 8192 {
            break;
        }
    }
    unsafe { libc::close(rfd) };
    let stderr = String::from_utf8_lossy(&err).into_owned();
    if hang || (libc::WIFSIGNALED(status) && (libc::WTERMSIG(status) == libc::SIGXCPU || libc::WTERMSIG(status) == libc::SIGKILL)) {
        return Some(Death { how: "hang".into(), hang: true, stderr });
    }
    if libc::WIFEXITED(status) && libc::WEXITSTATUS(status) == 0 {
        return None;
    }
    let how = if libc::WIFSIGNALED(status) { format!("signal {}", libc::WTERMSIG(status)) } else { format!("exit code {}", libc::WEXITSTATUS(status)) };
    Some(Death { how, hang: false, stderr })
}

/// Normalised first line of a dead process's stderr (e.g. "memory allocation of # bytes failed").
pub fn abort_site(stderr: &str) -> String {
    let line = stderr.lines().find(|l| !l.trim().is_empty()).unwrap_or("").trim();
    let mut m = String::new();
    let mut in_num = false;
    for c in line.chars().take(120) {
        if c.is_ascii_digit() {
            if !in_num {
                m.push('#');
            }
            in_num = true;
        } else {
            in_num = false;
            m.push(c);
        }
    }
    m
}

// ---------------------------------------------------------------------------------------------
// worker side
// ---------------------------------------------------------------------------------------------

/// Body of a worker process. Never returns.
pub fn worker_main(args: &[String], resolve: &dyn Fn(&str) -> Option<(&'static str, RunCase)>) -> ! {
    // args: <family> <lo> <hi> <tier> <outfile> [--probe] [--only case_id]
    let fam = &args[0];
    let lo: u64 = args[1].parse().unwrap();
    let hi: u64 = args[2].parse().unwrap();
    let thorough = args[3] == "thorough";
    let out = PathBuf::from(&args[4]);
    let (name, run) = resolve(fam).unwrap_or_else(|| {
        eprintln!("unknown family {fam}");
        std::process::exit(2)
    });
    let mut cx = Ctx::new(name, thorough);
    let root = PathBuf::from(std::env::var("VERIF_ROOT").unwrap_or_else(|_| "/verif".to_string()));
    cx.known = load_known(&root, "C05");
    let mut unmatched_deaths = 0u64;
    let mut block = FLUSH_EVERY;
    let mut i = 5;
    while i < args.len() {
        match args[i].as_str() {
            "--probe" => cx.probe = true,
            "--block" => {
                block = args[i + 1].parse().unwrap_or(FLUSH_EVERY).max(1);
                i += 1;
            }
            "--only" => {
                cx.only = Some(args[i + 1].clone());
                i += 1;
            }
            _ => {}
        }
        i += 1;
    }
    // scratch file of the open_file entry points: memory-backed when possible (deleted at the end)
    cx.scratch = if Path::new("/dev/shm").is_dir() { PathBuf::from(format!("/dev/shm/vx-robust-{}.dcm", std::process::id())) } else { out.with_extension("dcm") };
    let prog_path = out.with_extension("prog");
    cx.progress = Progress::map(&prog_path).unwrap_or_else(|e| {
        eprintln!("cannot map progress file: {e}");
        std::process::exit(2)
    });
    cx.progress.set(lo, 0, 0);
    // the parent starts every worker with stdout on /dev/null
    cx.stdout_null = true;
    // universe construction may need memory; the cap applies from here on
    crate::warm(name, thorough);
    cap_address_space(WORKER_AS_BYTES);
    // The worker itself stays single-threaded and never runs a subject: every block of FLUSH_EVERY
    // indices runs in a forked child (with its own watchdog thread). When a child dies, the culprit
    // index (from the shared progress cell) is re-run in probe mode, and the block is resumed.
    let all_probe = cx.probe;
    let mut a = lo;
    // adaptive block size: after a death the blocks shrink (less work is lost per death when deaths
    // are dense), after a clean block they grow back
    let mut cur = block;
    while a < hi {
        let b = (a + cur).min(hi);
        match run_block_in_child(&mut cx, run, a, b, &out, &prog_path, all_probe) {
            None => {
                a = b;
                cur = (cur * 2).min(block);
            }
            Some(h) if h.starts_with("unmatched deaths ") => {
                a = b;
            }
            Some(how) => {
                let (idx, _ord, st) = Progress::read_file(&prog_path).unwrap_or((0, 0, 0));
                if st == 0 || idx < a || idx >= b || all_probe {
                    eprintln!("block {a}..{b} died ({how}) outside a case (progress {idx}/{st})");
                    std::process::exit(3);
                }
                // the indices before the culprit are redone (their results died with the child)
                if idx > a {
                    if let Some(h2) = run_block_in_child(&mut cx, run, a, idx, &out, &prog_path, false) {
                        eprintln!("block {a}..{idx} died ({h2}) on the second pass");
                        std::process::exit(3);
                    }
                }
                match run_block_in_child(&mut cx, run, idx, idx + 1, &out, &prog_path, true) {
                    Some(h3) if h3.starts_with("unmatched deaths ") => {
                        unmatched_deaths += h3["unmatched deaths ".len()..].parse::<u64>().unwrap_or(1);
                    }
                    Some(h3) => {
                        eprintln!("probing of index {idx} died ({h3})");
                        std::process::exit(3);
                    }
                    None => {}
                }
                a = idx + 1;
                if unmatched_deaths >= EARLY_STOP_DEATHS && a < hi {
                    // the verdict is settled (unmatched violations exist) and deaths are dense: stop here
                    let _ = std::fs::remove_file(&cx.scratch);
                    std::process::exit(7);
                }
                cur = (cur / 4).clamp(8, block);
            }
        }
    }
    let _ = std::fs::remove_file(&cx.scratch);
    std::process::exit(0)
}

/// Fork; the child runs indices a..b (in probe mode if asked), appends one result line, exits 0.
/// Returns None when the child exited normally, else how it died.
fn run_block_in_child(cx: &mut Ctx, run: RunCase, a: u64, b: u64, out: &Path, prog_path: &Path, probe: bool) -> Option<String> {
    cx.progress.set(a, 0, 0);
    let pid = unsafe { libc::fork() };
    if pid < 0 {
        eprintln!("fork failed");
        std::process::exit(2);
    }
    if pid == 0 {
        cx.probe = probe;
        let prog = Progress::map_existing(prog_path);
        std::thread::spawn(move || {
            // CPU budget per case: the CPU clock is sampled here (it is a system call), not per case
            let (mut seen_seq, mut cpu0) = (u64::MAX, 0u64);
            loop {
                std::thread::sleep(std::time::Duration::from_millis(100));
                let s = CASE_START_MS.load(Ordering::Relaxed);
                if s == 0 {
                    seen_seq = u64::MAX;
                    continue;
                }
                let seq = crate::acc::CASE_SEQ.load(Ordering::Relaxed);
                if seq != seen_seq {
                    seen_seq = seq;
                    cpu0 = crate::acc::cpu_ms();
                    continue;
                }
                if crate::acc::cpu_ms().saturating_sub(cpu0) > CASE_BUDGET_MS || crate::acc::now_ms().saturating_sub(s) > CASE_WALL_BUDGET_MS {
                    if let Some(p) = &prog {
                        p.set_state(2);
                    }
                    unsafe { libc::_exit(98) }
                }
            }
        });
        for idx in a..b {
            cx.begin(idx);
            run(cx, idx);
        }
        let line = cx.acc.to_json(b).to_string();
        let ok = std::fs::OpenOptions::new().create(true).append(true).open(out).and_then(|mut f| writeln!(f, "{line}")).is_ok();
        let code = if !ok {
            4
        } else if cx.unmatched_deaths > 0 {
            // reported to the worker: 100 + number of deaths that match no known finding
            100 + cx.unmatched_deaths.min(100) as i32
        } else {
            0
        };
        unsafe { libc::_exit(code) }
    }
    let mut status = 0i32;
    loop {
        let r = unsafe { libc::waitpid(pid, &mut status, 0) };
        if r == pid || r < 0 {
            break;
        }
    }
    if libc::WIFEXITED(status) && libc::WEXITSTATUS(status) == 0 {
        return None;
    }
    if libc::WIFEXITED(status) && libc::WEXITSTATUS(status) > 100 {
        return Some(format!("unmatched deaths {}", libc::WEXITSTATUS(status) - 100));
    }
    Some(if libc::WIFSIGNALED(status) {
        format!("signal {}", libc::WTERMSIG(status))
    } else if libc::WEXITSTATUS(status) == 98 {
        "hang (per-case budget exceeded)".to_string()
    } else {
        format!("exit code {}", libc::WEXITSTATUS(status))
    })
}

impl Progress {
    pub fn map_existing(path: &Path) -> Option<Progress> {
        use std::os::unix::io::AsRawFd;
        let f = std::fs::OpenOptions::new().read(true).write(true).open(path).ok()?;
        let p = unsafe { libc::mmap(std::ptr::null_mut(), 64, libc::PROT_READ | libc::PROT_WRITE, libc::MAP_SHARED, f.as_raw_fd(), 0) };
        if p == libc::MAP_FAILED {
            return None;
        }
        Some(Progress::from_ptr(p as *mut u64))
    }
}

// ---------------------------------------------------------------------------------------------
// parent side
// ---------------------------------------------------------------------------------------------

#[derive(Clone, Debug)]
pub struct Job {
    pub family: &'static str,
    pub lo: u64,
    pub hi: u64,
    pub probe: bool,
    /// indices per forked child
    pub block: u64,
}

struct WorkerResult {
    /// flushed result lines
    lines: Vec<Value>,
    /// how it died and its stderr
    died: Option<(String, String)>,
    prog: Option<(u64, u64, u64)>,
}

pub struct Pool<'a> {
    pub check: &'a Check,
    pub exe: PathBuf,
    pub dir: PathBuf,
    pub tier: &'static str,
    pub only: Option<String>,
    counter: std::sync::atomic::AtomicU64,
    pub worker_deaths: Mutex<u64>,
    /// known-finding matchers of this property (a copy of what vx-kit applies), used only to decide
    /// whether an unmatched violation already exists, i.e. whether the verdict is already "violated"
    known: Vec<serde_json::Map<String, Value>>,
    pub unmatched: std::sync::atomic::AtomicU64,
    pub stopped_early: std::sync::atomic::AtomicBool,
}

/// After this many isolated worker deaths, with an unmatched violation already recorded, the sweep
/// stops: the verdict (exit 1) cannot change any more and dense deaths make the rest very slow.
pub const EARLY_STOP_DEATHS: u64 = 64;

pub fn load_known(root: &Path, prop: &str) -> Vec<serde_json::Map<String, Value>> {
    let mut files = vec![root.join("known_findings.json")];
    if let Ok(rd) = std::fs::read_dir(root.join("findings")) {
        files.extend(rd.filter_map(|e| e.ok()).map(|e| e.path()).filter(|p| p.extension().map(|x| x == "json").unwrap_or(false)));
    }
    let mut out = vec![];
    for p in files {
        let Ok(txt) = std::fs::read_to_string(&p) else { continue };
        let Ok(v) = serde_json::from_str::<Value>(&txt) else { continue };
        for f in v.get("findings").and_then(|f| f.as_array()).cloned().unwrap_or_default() {
            if f.get("status").and_then(|s| s.as_str()) != Some("known") {
                continue;
            }
            let applies = match f.get("property") {
                Some(Value::String(s)) => s == prop,
                Some(Value::Array(a)) => a.iter().any(|x| x.as_str() == Some(prop)),
                _ => false,
            };
            if applies {
                if let Some(m) = f.get("match").and_then(|m| m.as_object()) {
                    out.push(m.clone());
                }
            }
        }
    }
    out
}

pub fn is_known(known: &[serde_json::Map<String, Value>], class: &Value) -> bool {
    known.iter().any(|m| {
        m.iter().all(|(k, want)| match (class.get(k), want) {
            (Some(g), Value::Array(alts)) => alts.iter().any(|a| a == g),
            (Some(g), w) => g == w,
            (None, _) => false,
        })
    })
}

impl<'a> Pool<'a> {
    pub fn new(check: &'a Check) -> Pool<'a> {
        let exe = std::env::current_exe().unwrap_or_else(|e| vx_kit::report::machinery(&format!("current_exe: {e}")));
        let dir = check.scratch_dir();
        let only = check.replay.as_ref().and_then(|v| v.get("case_id")).and_then(|c| c.as_str()).map(String::from);
        let known = load_known(check.verif_root(), &check.id);
        Pool {
            check,
            exe,
            dir,
            tier: if check.thorough() { "thorough" } else { "quick" },
            only,
            counter: Default::default(),
            worker_deaths: Mutex::new(0),
            known,
            unmatched: Default::default(),
            stopped_early: Default::default(),
        }
    }

    fn spawn(&self, job: &Job) -> WorkerResult {
        let n = self.counter.fetch_add(1, Ordering::Relaxed);
        let out = self.dir.join(format!("w{n}.jsonl"));
        let errp = out.with_extension("err");
        let _ = std::fs::remove_file(&out);
        let errf = std::fs::File::create(&errp).ok();
        let mut cmd = Command::new(&self.exe);
        cmd.arg("--worker").arg(job.family).arg(job.lo.to_string()).arg(job.hi.to_string()).arg(self.tier).arg(&out);
        if job.probe {
            cmd.arg("--probe");
        }
        cmd.arg("--block").arg(job.block.to_string());
        if let Some(o) = &self.only {
            cmd.arg("--only").arg(o);
        }
        cmd.stdin(Stdio::null()).stdout(Stdio::null()).env("RUST_BACKTRACE", "0");
        match errf {
            Some(f) => {
                cmd.stderr(Stdio::from(f));
            }
            None => {
                cmd.stderr(Stdio::null());
            }
        }
        let status = cmd.status();
        let mut lines = vec![];
        if let Ok(txt) = std::fs::read_to_string(&out) {
            for l in txt.lines() {
                if let Ok(v) = serde_json::from_str::<Value>(l) {
                    lines.push(v);
                }
            }
        }
        let prog = Progress::read_file(&out.with_extension("prog"));
        let died = match status {
            Ok(s) if s.success() => None,
            Ok(s) => {
                use std::os::unix::process::ExitStatusExt;
                let how = if let Some(sig) = s.signal() {
                    format!("signal {sig}")
                } else if s.code() == Some(7) {
                    "stopped early".to_string()
                } else if s.code() == Some(98) {
                    "hang (per-case budget exceeded)".to_string()
                } else {
                    format!("exit code {}", s.code().unwrap_or(-1))
                };
                Some((how, std::fs::read_to_string(&errp).unwrap_or_default()))
            }
            Err(e) => Some((format!("spawn failed: {e}"), String::new())),
        };
        for ext in ["jsonl", "err", "prog", "dcm"] {
            let _ = std::fs::remove_file(out.with_extension(ext));
        }
        WorkerResult { lines, died, prog }
    }

    /// Run all jobs on one worker per core.
    pub fn run(&self, mut jobs: Vec<Job>) {
        // VERIF_SEED only rotates the order
        if !jobs.is_empty() {
            let r = (self.check.seed as usize) % jobs.len();
            jobs.rotate_left(r);
        }
        jobs.reverse();
        let queue = Mutex::new(jobs);
        let threads = std::env::var("VERIF_THREADS").ok().and_then(|s| s.parse().ok()).unwrap_or_else(|| std::thread::available_parallelism().map(|n| n.get()).unwrap_or(4)).max(1);
        std::thread::scope(|s| {
            for _ in 0..threads {
                s.spawn(|| {
                    let mut l = self.check.local();
                    loop {
                        if self.stopped_early.load(Ordering::Relaxed) {
                            break;
                        }
                        let job = { queue.lock().unwrap().pop() };
                        let Some(job) = job else { break };
                        let r = self.spawn(&job);
                        for v in &r.lines {
                            for f in v["fails"].as_array().into_iter().flatten() {
                                for c in f["cases"].as_array().into_iter().flatten() {
                                    if !is_known(&self.known, &c["class"]) {
                                        self.unmatched.fetch_add(1, Ordering::Relaxed);
                                    }
                                }
                            }
                        }
                        let upto = merge_lines(self.check, &mut l, &r.lines).max(job.lo);
                        match r.died {
                            None => {
                                if upto < job.hi {
                                    self.check.machinery_error(&format!("worker for {}[{}..{}) ended at {upto}", job.family, job.lo, job.hi));
                                }
                            }
                            Some((how, _)) if how == "stopped early" && self.unmatched.load(Ordering::Relaxed) > 0 => {
                                if !self.stopped_early.swap(true, Ordering::Relaxed) {
                                    self.check.cap(&format!("stopped early: a worker isolated {EARLY_STOP_DEATHS} deaths that match no known finding (the verdict is settled); the rest of the universe was not run"));
                                }
                                break;
                            }
                            Some((how, stderr)) => {
                                let short: String = stderr.chars().take(300).collect();
                                if job.probe {
                                    // the isolating worker must survive: its subjects run in children
                                    self.check.machinery_error(&format!("isolating worker for {}/{} died ({how}): {short}", job.family, job.lo));
                                    continue;
                                }
                                match r.prog {
                                    Some((idx, _ord, st)) if st != 0 && idx >= upto && idx < job.hi => {
                                        *self.worker_deaths.lock().unwrap() += 1;
                                        let mut q = queue.lock().unwrap();
                                        // redo what was not flushed before the culprit, continue after it, isolate it
                                        if idx + 1 < job.hi {
                                            q.push(Job { family: job.family, lo: idx + 1, hi: job.hi, probe: false, block: job.block });
                                        }
                                        if upto < idx {
                                            q.push(Job { family: job.family, lo: upto, hi: idx, probe: false, block: job.block });
                                        }
                                        q.push(Job { family: job.family, lo: idx, hi: idx + 1, probe: true, block: 1 });
                                    }
                                    _ => {
                                        self.check.machinery_error(&format!("worker for {}[{}..{}) died ({how}) outside a case: {short}", job.family, job.lo, job.hi));
                                    }
                                }
                            }
                        }
                    }
                });
            }
        });
    }

    pub fn cleanup(&self) {
        let _ = std::fs::remove_dir_all(&self.dir);
    }
}

/// Merge flushed result lines into the check's counters; returns the highest `upto`.
pub fn merge_lines(check: &Check, l: &mut Local, lines: &[Value]) -> u64 {
    let mut upto = 0;
    for v in lines {
        upto = upto.max(v["upto"].as_u64().unwrap_or(0));
        l.evals(v["evals"].as_u64().unwrap_or(0));
        l.nontrivial_distinct_by_construction(v["nontrivial"].as_u64().unwrap_or(0));
        if let Some(o) = v["outcomes"].as_object() {
            for (k, n) in o {
                let n = n.as_u64().unwrap_or(0);
                if n == 0 {
                    continue;
                }
                match v["samples"].get(k).cloned() {
                    Some(s) => {
                        l.outcome_with(k, || s);
                        l.outcome_n(k, n - 1);
                    }
                    None => l.outcome_n(k, n),
                }
            }
        }
        if let Some(ms) = v["machinery"].as_array() {
            for m in ms {
                check.machinery_error(m.as_str().unwrap_or("?"));
            }
        }
        if let Some(fs) = v["fails"].as_array() {
            for f in fs {
                let count = f["count"].as_u64().unwrap_or(0);
                let cases = f["cases"].as_array().cloned().unwrap_or_default();
                let mut done = 0;
                for c in &cases {
                    l.fail(c["case_id"].as_str().unwrap_or("?"), c["class"].clone(), c["detail"].clone());
                    done += 1;
                }
                // further failing cases of this class in this block are counted with the first witness
                if let Some(c) = cases.first() {
                    while done < count {
                        l.fail(c["case_id"].as_str().unwrap_or("?"), c["class"].clone(), c["detail"].clone());
                        done += 1;
                    }
                }
            }
        }
    }
    upto
}

/// Split 0..n into jobs of `chunk` indices.
pub fn jobs_for(family: &'static str, n: u64, chunk: u64, block: u64) -> Vec<Job> {
    let mut v = vec![];
    let mut lo = 0;
    while lo < n {
        let hi = (lo + chunk).min(n);
        v.push(Job { family, lo, hi, probe: false, block });
        lo = hi;
    }
    v
}
