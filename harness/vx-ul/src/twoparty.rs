//! Two-party scheduler over an in-memory duplex connection (DESIGN.md 1 "Two-party scheduler", 2.5).
//!
//! Two real association objects ("R" = requestor = side 0, "A" = acceptor = side 1) talk over two byte
//! FIFOs. Exactly one party runs at a time:
//!  * sync API: each peer runs on an OS thread under a baton (`SyncPeers`) and hands the baton back at
//!    every pipe `read`, at barriers / action points, and at thread end;
//!  * async API: each peer is a future polled by `AsyncPeers` (no reactor); the pipe returns `Pending`
//!    at the same points.
//! Writes to the unbounded pipe are invisible to the other party until its next read, so they are no
//! scheduling points. At a read the driver decides (explorer choices, choice 0 = default) whether the
//! other party runs first and how many of the available bytes are delivered.
//!
//! The pipe records every byte, splits each direction into PDUs (own framing code: type, reserved,
//! 32-bit big-endian length) and keeps one global event trace in the vocabulary of DESIGN.md C30.
#![allow(dead_code)]

use std::collections::VecDeque;
use std::future::Future;
use std::pin::Pin;
use std::sync::{Arc, Condvar, Mutex};
use std::task::{Context, Poll, Wake, Waker};
use vx_kit::Ctx;

pub const R: usize = 0;
pub const A: usize = 1;
pub fn side_name(s: usize) -> &'static str {
    if s == R { "R" } else { "A" }
}
pub fn other(s: usize) -> usize {
    1 - s
}

/// kind of a PDU by its type byte
pub fn pdu_kind(t: u8) -> &'static str {
    match t {
        1 => "ARQ",
        2 => "AAC",
        3 => "ARJ",
        4 => "DATA",
        5 => "RRQ",
        6 => "RRP",
        7 => "ABORT",
        _ => "UNK",
    }
}

#[derive(Clone, Copy, PartialEq, Eq, Debug)]
pub enum Stat {
    /// can run (not started, at an action point, or released from a barrier)
    Ready,
    /// being executed right now
    Running,
    /// blocked in a pipe read until the driver grants it
    AtRead,
    /// waiting at a phase barrier
    AtBarrier,
    /// async only: returned Pending with self-wake (environment answer), poll again
    Repoll,
    Done,
}

#[derive(Clone, Copy, Debug)]
pub enum Grant {
    Bytes(usize),
    Eof,
    TimedOut,
}

#[derive(Default)]
pub struct Dir {
    /// bytes in flight
    pub buf: VecDeque<u8>,
    pub writer_closed: bool,
    pub reader_closed: bool,
    /// everything ever written into this direction
    pub wire: Vec<u8>,
    scanned: usize,
    /// complete PDUs seen on this direction: (type, length field, offset of the PDU in `wire`)
    pub pdus: Vec<(u8, u32, usize)>,
    /// bytes handed to the reader so far
    pub delivered: usize,
}

#[derive(Clone, Copy, Default)]
pub struct Knobs {
    /// explore which party runs when both can
    pub sched: bool,
    /// explore read segmentation: 0 = deliver all, 1 = {all, 1 byte}, 2 = {all, 1, to PDU boundary, one past, half}
    pub seg: u8,
    /// async: explore `Pending` (self-woken) at writes, shutdown and reads
    pub pending: bool,
    /// async: explore partial acceptance of writes
    pub partial_write: bool,
    /// never hand a reader more than the rest of the current PDU (model path replay: one take per read)
    pub one_pdu_per_read: bool,
}

#[derive(Clone, Copy, PartialEq, Eq)]
enum Turn {
    Driver,
    Peer(usize),
}

pub struct State {
    /// dirs[s] = bytes written by side s
    pub dirs: [Dir; 2],
    pub closed: [bool; 2],
    close_seen: [bool; 2],
    pub events: Vec<String>,
    pub recording: bool,
    pub stat: [Stat; 2],
    want: [usize; 2],
    grant: [Option<Grant>; 2],
    turn: Turn,
    pub ctx: Option<Ctx>,
    pub knobs: Knobs,
    /// yield at every action point too (model path replay)
    pub fine: bool,
    pub panics: Vec<String>,
    pub n_pending: u64,
    pub n_partial: u64,
    pub n_switch: u64,
    pub n_steps: u64,
    /// the peer that ran last
    cur: usize,
    /// sync peers: the yielding peer's thread takes the scheduling decision itself and hands the
    /// baton directly to the next peer (no round trip through the driver thread)
    chain: bool,
    phase_end: Option<PhaseEnd>,
    budget: u32,
    /// when Some: a hash of the global state (bytes written / delivered per direction, peer statuses,
    /// closes, events so far) is pushed at every scheduler step
    pub state_log: Option<Vec<u64>>,
}

enum Pick {
    Run(usize),
    End(PhaseEnd),
}

impl State {
    /// the scheduling decision: which peer runs next (explorer choice when both can)
    fn pick_next(&mut self) -> Pick {
        if self.budget == 0 {
            return Pick::End(PhaseEnd::Spin);
        }
        self.budget -= 1;
        let settled = |s: Stat| matches!(s, Stat::AtBarrier | Stat::Done);
        if settled(self.stat[0]) && settled(self.stat[1]) {
            return Pick::End(PhaseEnd::Complete);
        }
        let (c, o) = (self.cur, other(self.cur));
        // a re-poll after an injected Pending is not a scheduling point
        if self.stat[c] == Stat::Repoll {
            return Pick::Run(c);
        }
        match (self.enabled(c), self.enabled(o)) {
            (true, true) => Pick::Run(if self.choose(2, self.knobs.sched) == 1 { o } else { c }),
            (true, false) => Pick::Run(c),
            (false, true) => Pick::Run(o),
            (false, false) => Pick::End(PhaseEnd::Deadlock),
        }
    }
    /// bookkeeping before peer `p` runs one segment; grants its read if it is blocked in one
    fn begin_step(&mut self, p: usize) {
        self.n_steps += 1;
        self.snapshot();
        if self.stat[p] == Stat::AtRead {
            self.decide_grant(p);
        }
        if p != self.cur {
            self.n_switch += 1;
        }
        self.cur = p;
    }
    fn snapshot(&mut self) {
        if self.state_log.is_none() {
            return;
        }
        let key = (
            (self.dirs[0].wire.len(), self.dirs[0].delivered, self.dirs[0].writer_closed),
            (self.dirs[1].wire.len(), self.dirs[1].delivered, self.dirs[1].writer_closed),
            (self.stat[0] as u8, self.stat[1] as u8, self.closed),
            self.events.len(),
        );
        let h = vx_kit::hash_of(&key);
        self.state_log.as_mut().unwrap().push(h);
    }
    pub fn ev(&mut self, e: String) {
        if self.recording {
            self.events.push(e);
        }
    }
    fn choose(&self, n: usize, enabled: bool) -> usize {
        if n <= 1 || !enabled {
            return 0;
        }
        match &self.ctx {
            Some(c) => c.choose(n),
            None => 0,
        }
    }
    fn write(&mut self, side: usize, data: &[u8]) {
        let rc = self.dirs[side].reader_closed;
        let d = &mut self.dirs[side];
        d.wire.extend_from_slice(data);
        if !rc {
            d.buf.extend(data);
        }
        let mut evs = vec![];
        loop {
            let rest = &d.wire[d.scanned..];
            if rest.len() < 6 {
                break;
            }
            let len = u32::from_be_bytes([rest[2], rest[3], rest[4], rest[5]]);
            if (rest.len() as u64) < 6 + len as u64 {
                break;
            }
            d.pdus.push((rest[0], len, d.scanned));
            evs.push(format!("put({},{})", side_name(side), pdu_kind(rest[0])));
            d.scanned += 6 + len as usize;
        }
        for e in evs {
            self.ev(e);
        }
    }
    fn close_event(&mut self, side: usize) {
        if !self.close_seen[side] {
            self.close_seen[side] = true;
            self.ev(format!("close({})", side_name(side)));
        }
    }
    /// write half only (async shutdown)
    fn half_close(&mut self, side: usize) {
        self.dirs[side].writer_closed = true;
        self.close_event(side);
    }
    fn close(&mut self, side: usize) {
        if self.closed[side] {
            return;
        }
        self.closed[side] = true;
        self.dirs[side].writer_closed = true;
        let o = other(side);
        self.dirs[o].reader_closed = true;
        self.dirs[o].buf.clear();
        self.close_event(side);
    }
    fn readable(&self, side: usize) -> bool {
        let d = &self.dirs[other(side)];
        !d.buf.is_empty() || d.writer_closed
    }
    fn enabled(&self, side: usize) -> bool {
        match self.stat[side] {
            Stat::Ready | Stat::Repoll => true,
            Stat::AtRead => self.readable(side),
            _ => false,
        }
    }
    /// the bytes of the granted read (at most `cap`), empty at the end of the stream
    fn take_grant(&mut self, side: usize, cap: usize) -> std::io::Result<Vec<u8>> {
        match self.grant[side].take() {
            Some(Grant::Bytes(n)) => {
                let d = &mut self.dirs[other(side)];
                let n = n.min(cap).min(d.buf.len());
                let mut out: Vec<u8> = Vec::with_capacity(n);
                let (a, b) = d.buf.as_slices();
                let na = n.min(a.len());
                out.extend_from_slice(&a[..na]);
                out.extend_from_slice(&b[..n - na]);
                d.buf.drain(..n);
                d.delivered += n;
                Ok(out)
            }
            Some(Grant::Eof) => {
                self.ev(format!("eof({})", side_name(side)));
                Ok(vec![])
            }
            Some(Grant::TimedOut) | None => Err(std::io::Error::new(
                std::io::ErrorKind::TimedOut,
                "scheduler: no peer can make progress (read timed out)",
            )),
        }
    }
    /// decide the grant for a reader that is about to be resumed
    fn decide_grant(&mut self, side: usize) {
        let (avail, closed, boundary) = {
            let d = &self.dirs[other(side)];
            let next_end = d
                .pdus
                .iter()
                .map(|&(_, len, off)| off + 6 + len as usize)
                .find(|&e| e > d.delivered);
            (d.buf.len().min(self.want[side]), d.writer_closed, next_end.map(|e| e - d.delivered))
        };
        if avail == 0 {
            self.grant[side] = Some(if closed { Grant::Eof } else { Grant::TimedOut });
            return;
        }
        let avail = match boundary {
            Some(b) if self.knobs.one_pdu_per_read => avail.min(b),
            _ => avail,
        };
        let mut menu = vec![avail];
        if self.knobs.seg >= 1 && avail > 1 {
            menu.push(1);
        }
        if self.knobs.seg >= 2 {
            if let Some(b) = boundary {
                for k in [b, b + 1] {
                    if k > 1 && k < avail && !menu.contains(&k) {
                        menu.push(k);
                    }
                }
            }
            let h = avail / 2;
            if h > 1 && !menu.contains(&h) {
                menu.push(h);
            }
        }
        let k = menu[self.choose(menu.len(), true)];
        if k != avail {
            self.n_partial += 1;
        }
        self.grant[side] = Some(Grant::Bytes(k));
    }
}

pub struct Shared {
    pub m: Mutex<State>,
    /// one condition variable per party: [R, A, driver]
    cv: [Condvar; 3],
}

impl Shared {
    pub fn new(ctx: Option<Ctx>, knobs: Knobs) -> Arc<Shared> {
        Arc::new(Shared {
            m: Mutex::new(State {
                dirs: [Dir::default(), Dir::default()],
                closed: [false; 2],
                close_seen: [false; 2],
                events: vec![],
                recording: false,
                stat: [Stat::Ready; 2],
                want: [0; 2],
                grant: [None, None],
                turn: Turn::Driver,
                ctx,
                knobs,
                fine: false,
                panics: vec![],
                n_pending: 0,
                n_partial: 0,
                n_switch: 0,
                n_steps: 0,
                cur: R,
                chain: false,
                phase_end: None,
                budget: 0,
                state_log: None,
            }),
            cv: [Condvar::new(), Condvar::new(), Condvar::new()],
        })
    }
    pub fn lock(&self) -> std::sync::MutexGuard<'_, State> {
        self.m.lock().unwrap_or_else(|e| e.into_inner())
    }
    pub fn event(&self, e: String) {
        self.lock().ev(e);
    }
    fn wake(&self, t: Turn) {
        match t {
            Turn::Peer(p) => self.cv[p].notify_one(),
            Turn::Driver => self.cv[2].notify_one(),
        }
    }
    /// the running sync peer gives up the baton: in chain mode it schedules the next segment itself
    fn pass_on(&self, g: &mut State, side: usize) -> bool {
        if g.chain {
            match g.pick_next() {
                Pick::Run(p) => {
                    g.begin_step(p);
                    if p == side {
                        return true; // keeps running
                    }
                    g.turn = Turn::Peer(p);
                }
                Pick::End(e) => {
                    g.phase_end = Some(e);
                    g.chain = false;
                    g.turn = Turn::Driver;
                }
            }
        } else {
            g.turn = Turn::Driver;
        }
        self.wake(g.turn);
        false
    }
    /// sync peer: yield with status `st`, return when resumed
    fn sync_yield(&self, side: usize, st: Stat, want: usize) {
        let mut g = self.lock();
        g.stat[side] = st;
        g.want[side] = want;
        if !self.pass_on(&mut g, side) {
            while g.turn != Turn::Peer(side) {
                g = self.cv[side].wait(g).unwrap_or_else(|e| e.into_inner());
            }
        }
        g.stat[side] = Stat::Running;
    }
    /// sync peer: phase barrier
    pub fn barrier(&self, side: usize) {
        self.sync_yield(side, Stat::AtBarrier, 0);
    }
    /// sync peer: action point (a scheduling point only in fine mode)
    pub fn action_point(&self, side: usize) {
        if self.lock().fine {
            self.sync_yield(side, Stat::Ready, 0);
        }
    }
    /// async peer: phase barrier
    pub fn barrier_async(self: &Arc<Self>, side: usize) -> YieldFut {
        YieldFut { sh: self.clone(), side, kind: Stat::AtBarrier, armed: true }
    }
    /// async peer: action point
    pub fn action_point_async(self: &Arc<Self>, side: usize) -> YieldFut {
        let fine = self.lock().fine;
        YieldFut { sh: self.clone(), side, kind: Stat::Ready, armed: fine }
    }
}

pub struct YieldFut {
    sh: Arc<Shared>,
    side: usize,
    kind: Stat,
    armed: bool,
}
impl Future for YieldFut {
    type Output = ();
    fn poll(mut self: Pin<&mut Self>, _cx: &mut Context<'_>) -> Poll<()> {
        if self.armed {
            self.armed = false;
            self.sh.lock().stat[self.side] = self.kind;
            Poll::Pending
        } else {
            Poll::Ready(())
        }
    }
}

// ---------------------------------------------------------------------------------------------
// sync end
// ---------------------------------------------------------------------------------------------
pub struct SyncEnd {
    pub sh: Arc<Shared>,
    pub side: usize,
}

impl std::io::Read for SyncEnd {
    fn read(&mut self, buf: &mut [u8]) -> std::io::Result<usize> {
        if buf.is_empty() {
            return Ok(0);
        }
        if self.sh.lock().closed[self.side] {
            return Err(std::io::Error::new(std::io::ErrorKind::NotConnected, "read on a closed end"));
        }
        self.sh.sync_yield(self.side, Stat::AtRead, buf.len());
        let got = self.sh.lock().take_grant(self.side, buf.len())?;
        buf[..got.len()].copy_from_slice(&got);
        Ok(got.len())
    }
}
impl std::io::Write for SyncEnd {
    fn write(&mut self, buf: &[u8]) -> std::io::Result<usize> {
        let mut g = self.sh.lock();
        if g.closed[self.side] {
            return Err(std::io::Error::new(std::io::ErrorKind::BrokenPipe, "write on a closed end"));
        }
        g.write(self.side, buf);
        Ok(buf.len())
    }
    fn flush(&mut self) -> std::io::Result<()> {
        Ok(())
    }
}
impl dicom_ul::association::CloseSocket for SyncEnd {
    fn close(&mut self) -> std::io::Result<()> {
        self.sh.lock().close(self.side);
        Ok(())
    }
}
impl Drop for SyncEnd {
    fn drop(&mut self) {
        self.sh.lock().close(self.side);
    }
}

// ---------------------------------------------------------------------------------------------
// async end
// ---------------------------------------------------------------------------------------------
pub struct AsyncEnd {
    pub sh: Arc<Shared>,
    pub side: usize,
    /// a Pending was just injected for this operation: do not inject again
    pended: bool,
}
impl AsyncEnd {
    pub fn new(sh: Arc<Shared>, side: usize) -> Self {
        AsyncEnd { sh, side, pended: false }
    }
    /// environment answer "not ready yet": Pending after waking ourselves
    fn maybe_pending(&mut self, cx: &mut Context<'_>) -> bool {
        if self.pended {
            self.pended = false;
            return false;
        }
        let mut g = self.sh.lock();
        let on = g.knobs.pending;
        if g.choose(2, on) == 1 {
            g.n_pending += 1;
            g.stat[self.side] = Stat::Repoll;
            drop(g);
            self.pended = true;
            cx.waker().wake_by_ref();
            return true;
        }
        false
    }
}
impl tokio::io::AsyncRead for AsyncEnd {
    fn poll_read(
        mut self: Pin<&mut Self>,
        _cx: &mut Context<'_>,
        buf: &mut tokio::io::ReadBuf<'_>,
    ) -> Poll<std::io::Result<()>> {
        if buf.remaining() == 0 {
            return Poll::Ready(Ok(()));
        }
        let side = self.side;
        let mut g = self.sh.lock();
        if g.closed[side] {
            return Poll::Ready(Err(std::io::Error::new(
                std::io::ErrorKind::NotConnected,
                "read on a closed end",
            )));
        }
        if g.grant[side].is_some() {
            let r = g.take_grant(side, buf.remaining());
            drop(g);
            self.pended = false;
            return Poll::Ready(r.map(|v| buf.put_slice(&v)));
        }
        g.stat[side] = Stat::AtRead;
        g.want[side] = buf.remaining();
        Poll::Pending
    }
}
impl tokio::io::AsyncWrite for AsyncEnd {
    fn poll_write(
        mut self: Pin<&mut Self>,
        cx: &mut Context<'_>,
        buf: &[u8],
    ) -> Poll<std::io::Result<usize>> {
        if self.sh.lock().closed[self.side] {
            return Poll::Ready(Err(std::io::Error::new(
                std::io::ErrorKind::BrokenPipe,
                "write on a closed end",
            )));
        }
        if buf.is_empty() {
            return Poll::Ready(Ok(0));
        }
        if self.maybe_pending(cx) {
            return Poll::Pending;
        }
        let side = self.side;
        let mut g = self.sh.lock();
        let mut n = buf.len();
        if g.knobs.partial_write && n > 1 {
            let menu = [n, 1, n / 2];
            let m = if n / 2 > 1 { 3 } else { 2 };
            n = menu[g.choose(m, true)];
            if n != buf.len() {
                g.n_partial += 1;
            }
        }
        g.write(side, &buf[..n]);
        Poll::Ready(Ok(n))
    }
    fn poll_flush(self: Pin<&mut Self>, _cx: &mut Context<'_>) -> Poll<std::io::Result<()>> {
        Poll::Ready(Ok(()))
    }
    fn poll_shutdown(mut self: Pin<&mut Self>, cx: &mut Context<'_>) -> Poll<std::io::Result<()>> {
        if self.maybe_pending(cx) {
            return Poll::Pending;
        }
        let side = self.side;
        self.sh.lock().half_close(side);
        Poll::Ready(Ok(()))
    }
}
impl Drop for AsyncEnd {
    fn drop(&mut self) {
        self.sh.lock().close(self.side);
    }
}

// ---------------------------------------------------------------------------------------------
// peers
// ---------------------------------------------------------------------------------------------
pub trait Resume {
    /// run peer `p` until it yields; its new status is in the shared state
    fn resume(&mut self, p: usize);
    /// can the peers schedule each other without the driver (sync threads)?
    fn chains(&self) -> bool {
        false
    }
}

type Job = Box<dyn FnOnce() + Send>;
thread_local! {
    /// two persistent peer threads per exploring thread (spawning two OS threads per execution
    /// serialises the whole process on the address-space lock)
    static POOL: std::cell::RefCell<Option<[std::sync::mpsc::Sender<Job>; 2]>> = const { std::cell::RefCell::new(None) };
}
fn pool_run(side: usize, job: Job) {
    POOL.with(|p| {
        let mut p = p.borrow_mut();
        if p.is_none() {
            let mk = |name: &str| {
                let (tx, rx) = std::sync::mpsc::channel::<Job>();
                std::thread::Builder::new()
                    .name(name.to_string())
                    .stack_size(1 << 20)
                    .spawn(move || {
                        while let Ok(job) = rx.recv() {
                            job();
                        }
                    })
                    .expect("spawn peer thread");
                tx
            };
            *p = Some([mk("peer-R"), mk("peer-A")]);
        }
        p.as_ref().unwrap()[side].send(job).expect("peer thread is gone");
    });
}

pub struct SyncPeers {
    sh: Arc<Shared>,
}
impl SyncPeers {
    pub fn new(sh: &Arc<Shared>) -> Self {
        SyncPeers { sh: sh.clone() }
    }
    /// `body` gets this side's end of the connection; it starts when first resumed
    pub fn spawn(&mut self, side: usize, body: Box<dyn FnOnce(SyncEnd) + Send>) {
        let sh = self.sh.clone();
        pool_run(
            side,
            Box::new(move || {
                {
                    let mut g = sh.lock();
                    while g.turn != Turn::Peer(side) {
                        g = sh.cv[side].wait(g).unwrap_or_else(|e| e.into_inner());
                    }
                    g.stat[side] = Stat::Running;
                }
                let end = SyncEnd { sh: sh.clone(), side };
                let r = vx_kit::guard(move || body(end));
                let mut g = sh.lock();
                if let Err(p) = r {
                    g.panics.push(format!("{}: {p}", side_name(side)));
                    g.close(side);
                }
                g.stat[side] = Stat::Done;
                sh.pass_on(&mut g, side);
            }),
        );
    }
    /// nothing to wait for: a peer is Done before the driver gets the baton back
    pub fn join(self) {}
}
impl Resume for SyncPeers {
    fn resume(&mut self, p: usize) {
        let mut g = self.sh.lock();
        g.turn = Turn::Peer(p);
        self.sh.cv[p].notify_one();
        while g.turn != Turn::Driver {
            g = self.sh.cv[2].wait(g).unwrap_or_else(|e| e.into_inner());
        }
    }
    fn chains(&self) -> bool {
        true
    }
}

struct FlagWaker(std::sync::atomic::AtomicU64);
impl Wake for FlagWaker {
    fn wake(self: Arc<Self>) {
        self.0.fetch_add(1, std::sync::atomic::Ordering::Relaxed);
    }
    fn wake_by_ref(self: &Arc<Self>) {
        self.0.fetch_add(1, std::sync::atomic::Ordering::Relaxed);
    }
}

pub type PeerFut = Pin<Box<dyn Future<Output = ()> + Send>>;

/// hand-rolled single-threaded executor: a peer is polled exactly when the driver resumes it
pub struct AsyncPeers {
    sh: Arc<Shared>,
    futs: [Option<PeerFut>; 2],
    flag: Arc<FlagWaker>,
    waker: Waker,
}
impl AsyncPeers {
    pub fn new(sh: &Arc<Shared>, r: PeerFut, a: PeerFut) -> Self {
        let flag = Arc::new(FlagWaker(std::sync::atomic::AtomicU64::new(0)));
        AsyncPeers { sh: sh.clone(), futs: [Some(r), Some(a)], waker: Waker::from(flag.clone()), flag }
    }
}
impl Resume for AsyncPeers {
    fn resume(&mut self, p: usize) {
        let Some(mut fut) = self.futs[p].take() else {
            self.sh.lock().stat[p] = Stat::Done;
            return;
        };
        self.sh.lock().stat[p] = Stat::Running;
        let wakes0 = self.flag.0.load(std::sync::atomic::Ordering::Relaxed);
        let waker = self.waker.clone();
        let r = vx_kit::guard(|| {
            let mut cx = Context::from_waker(&waker);
            fut.as_mut().poll(&mut cx)
        });
        match r {
            Ok(Poll::Ready(())) => {
                drop(fut);
                self.sh.lock().stat[p] = Stat::Done;
            }
            Ok(Poll::Pending) => {
                let mut g = self.sh.lock();
                match g.stat[p] {
                    Stat::Running => {
                        // Pending from a source the pipe does not know
                        g.panics.push(format!("{}: future returned Pending without a pipe reason", side_name(p)));
                        g.stat[p] = Stat::Done;
                        drop(g);
                        drop(fut);
                    }
                    Stat::Repoll => {
                        let woken = self.flag.0.load(std::sync::atomic::Ordering::Relaxed) > wakes0;
                        if !woken {
                            g.panics.push("pipe returned Pending without wake".into());
                        }
                        drop(g);
                        self.futs[p] = Some(fut);
                    }
                    _ => {
                        drop(g);
                        self.futs[p] = Some(fut);
                    }
                }
            }
            Err(msg) => {
                // the future is dropped after a panic; its end closes
                let r2 = vx_kit::guard(move || drop(fut));
                let mut g = self.sh.lock();
                g.panics.push(format!("{}: {msg}", side_name(p)));
                if r2.is_err() {
                    g.panics.push(format!("{}: second panic while dropping the future", side_name(p)));
                }
                g.close(p);
                g.stat[p] = Stat::Done;
            }
        }
    }
}

// ---------------------------------------------------------------------------------------------
// driver
// ---------------------------------------------------------------------------------------------
#[derive(Clone, Copy, PartialEq, Eq, Debug)]
pub enum PhaseEnd {
    /// every peer is at the barrier or done
    Complete,
    /// some peer is blocked in a read that can never be served
    Deadlock,
    /// step budget exhausted (a peer spins)
    Spin,
}

pub struct Driver {
    pub sh: Arc<Shared>,
}

impl Driver {
    pub fn new(sh: &Arc<Shared>) -> Self {
        Driver { sh: sh.clone() }
    }
    /// resume `p` for exactly one segment, granting its pending read if it is blocked in one
    pub fn step(&mut self, peers: &mut dyn Resume, p: usize) {
        {
            let mut g = self.sh.lock();
            g.chain = false;
            g.begin_step(p);
        }
        peers.resume(p);
    }
    /// Run until both peers are at a barrier / done. Scheduling and segmentation are explorer choices.
    pub fn run_phase(&mut self, peers: &mut dyn Resume) -> PhaseEnd {
        {
            let mut g = self.sh.lock();
            g.budget = 200_000;
            g.phase_end = None;
        }
        loop {
            let p = {
                let mut g = self.sh.lock();
                match g.pick_next() {
                    Pick::End(e) => return e,
                    Pick::Run(p) => {
                        g.begin_step(p);
                        g.chain = peers.chains();
                        p
                    }
                }
            };
            peers.resume(p);
            let mut g = self.sh.lock();
            g.chain = false;
            if let Some(e) = g.phase_end.take() {
                return e;
            }
        }
    }
    /// let both peers leave the barrier
    pub fn release_barrier(&mut self) {
        let mut g = self.sh.lock();
        for s in 0..2 {
            if g.stat[s] == Stat::AtBarrier {
                g.stat[s] = Stat::Ready;
            }
        }
    }
    /// End the execution whatever state it is in: stop recording and exploring, time out blocked
    /// reads, run everything to completion.
    pub fn finish(&mut self, peers: &mut dyn Resume) -> bool {
        {
            let mut g = self.sh.lock();
            g.recording = false;
            g.ctx = None;
            g.fine = false;
        }
        for _ in 0..100_000 {
            let p = {
                let mut g = self.sh.lock();
                for s in 0..2 {
                    if g.stat[s] == Stat::AtBarrier {
                        g.stat[s] = Stat::Ready;
                    }
                }
                if g.stat[0] == Stat::Done && g.stat[1] == Stat::Done {
                    return true;
                }
                let (c, o) = (g.cur, other(g.cur));
                if g.enabled(c) {
                    c
                } else if g.enabled(o) {
                    o
                } else if g.stat[c] != Stat::Done {
                    c // blocked read: decide_grant gives TimedOut
                } else {
                    o
                }
            };
            self.step(peers, p);
        }
        false
    }
}

/// A multi-thread tokio runtime whose context is entered around async executions: the library's
/// `AsyncPDataWriter::drop` calls `Handle::current()`. The executor itself never uses it.
pub fn tokio_context() -> &'static tokio::runtime::Runtime {
    static RT: std::sync::OnceLock<tokio::runtime::Runtime> = std::sync::OnceLock::new();
    RT.get_or_init(|| {
        tokio::runtime::Builder::new_multi_thread()
            .worker_threads(1)
            .build()
            .expect("tokio runtime")
    })
}

/// The library allocates read/write buffers of up to 256 KiB per association. glibc serves such sizes
/// with mmap/munmap, and thousands of executions per second on 16 threads then serialise on the
/// address-space lock. Re-exec once with malloc thresholds that keep these blocks in the arenas.
pub fn tune_allocator() {
    if std::env::var_os("MALLOC_MMAP_THRESHOLD_").is_some() {
        return;
    }
    use std::os::unix::process::CommandExt;
    if let Ok(exe) = std::env::current_exe() {
        let _ = std::process::Command::new(exe)
            .args(std::env::args_os().skip(1))
            .env("MALLOC_MMAP_THRESHOLD_", "1073741824")
            .env("MALLOC_TRIM_THRESHOLD_", "4294967295")
            .exec();
        // exec failed: carry on untuned
    }
}
