//! C27 — PDU reception is independent of segmentation.
//!
//! Subjects: `read_pdu_from_wire`, `read_pdu_from_wire_async` with one `read_buffer` carried across
//! receives, and `receive()` of `ClientAssociation`, `ServerAssociation`, `AsyncClientAssociation`,
//! `AsyncServerAssociation` established through the hook constructors (4.3) over a scripted socket
//! (the establishment PDU travels in the same segmented stream, so coalescing of the A-ASSOCIATE-AC/RQ
//! with what follows is part of the universe).
//!
//! Universe: every sequence of 1-3 PDUs from an 8-PDU alphabet (584), encoded by the reference
//! codec; for each stream every segmentation with <= k cuts, the all-1-byte one and full coalescing;
//! async: Pending before <= 2 of the deliveries. For the association entry points: sequences of
//! <= 2 PDUs and cuts at the positions around every PDU boundary and header end (<= 3 of them).
//! Oracle: exactly the PDU sequence (hand-written expected values), then `ConnectionClosed`.
use bytes::BytesMut;
use dicom_ul::association::client::ClientAssociationOptions;
use dicom_ul::association::server::ServerAssociationOptions;
use dicom_ul::association::{read_pdu_from_wire, read_pdu_from_wire_async, Error as AErr};
use dicom_ul::pdu::*;
use std::collections::HashSet;
use std::sync::Mutex;
use vx_kit::gen::{cut_sets, cuts_to_segments, subsets_up_to};
use vx_kit::{guard, json, Check, Level, Local};
use vx_ref::pdu as rp;
use vx_ref::pdu::{RAssocHead, RPcAc, RPcRq, RPdu, RPdv, RUserItem};
use vx_ul::*;

const MAXLEN: u32 = 131_072;
const ABSTRACT: &str = "1.2.840.10008.1.1";
const IMPLICIT: &str = "1.2.840.10008.1.2";

struct Sym {
    name: &'static str,
    r: RPdu,
    d: Pdu,
}

fn alphabet() -> Vec<Sym> {
    let mut head = RAssocHead::new("B", "A");
    head.app_context = b"1.2".to_vec();
    head.user_info = None;
    vec![
        Sym {
            name: "AC",
            r: RPdu::AssociateAc { head, pcs: vec![RPcAc { id: 1, result: 0, transfer_syntax: b"1.2".to_vec() }] },
            d: Pdu::AssociationAC(AssociationAC {
                protocol_version: 1,
                calling_ae_title: "A".into(),
                called_ae_title: "B".into(),
                application_context_name: "1.2".into(),
                presentation_contexts: vec![PresentationContextResult { id: 1, reason: PresentationContextResultReason::Acceptance, transfer_syntax: "1.2".into() }],
                user_variables: vec![],
            }),
        },
        Sym {
            name: "RJ",
            r: RPdu::AssociateRj { result: 2, source: 3, reason: 1 },
            d: Pdu::AssociationRJ(AssociationRJ {
                result: AssociationRJResult::Transient,
                source: AssociationRJSource::ServiceProviderPresentation(AssociationRJServiceProviderPresentationReason::TemporaryCongestion),
            }),
        },
        Sym {
            name: "D1",
            r: RPdu::PData(vec![RPdv::new(1, true, true, vec![0x04, 0x00])]),
            d: Pdu::PData { data: vec![PDataValue { presentation_context_id: 1, value_type: PDataValueType::Command, is_last: true, data: vec![0x04, 0x00] }] },
        },
        Sym {
            name: "D2",
            r: RPdu::PData(vec![RPdv::new(1, false, false, vec![1, 2, 3]), RPdv::new(3, false, true, vec![])]),
            d: Pdu::PData {
                data: vec![
                    PDataValue { presentation_context_id: 1, value_type: PDataValueType::Data, is_last: false, data: vec![1, 2, 3] },
                    PDataValue { presentation_context_id: 3, value_type: PDataValueType::Data, is_last: true, data: vec![] },
                ],
            },
        },
        Sym { name: "RRQ", r: RPdu::ReleaseRq, d: Pdu::ReleaseRQ },
        Sym { name: "RRP", r: RPdu::ReleaseRp, d: Pdu::ReleaseRP },
        Sym {
            name: "AB",
            r: RPdu::Abort { source: 2, reason: 2 },
            d: Pdu::AbortRQ { source: AbortRQSource::ServiceProvider(AbortRQServiceProviderReason::UnexpectedPdu) },
        },
        Sym { name: "UNK", r: RPdu::Unknown { pdu_type: 0x0A, data: vec![7, 0, 4] }, d: Pdu::Unknown { pdu_type: 0x0A, data: vec![7, 0, 4] } },
    ]
}

/// the establishment PDU the scripted peer "sent" and the matching options
fn peer_ac() -> Vec<u8> {
    let mut head = RAssocHead::new("ANY-SCP", "THIS-SCU");
    head.user_info = Some(vec![RUserItem::MaxLength(MAXLEN), RUserItem::ImplClassUid(b"1.2.3".to_vec()), RUserItem::ImplVersionName(b"PEER".to_vec())]);
    rp::encode(&RPdu::AssociateAc { head, pcs: vec![RPcAc { id: 1, result: 0, transfer_syntax: IMPLICIT.as_bytes().to_vec() }] }).unwrap()
}

fn peer_rq() -> Vec<u8> {
    let mut head = RAssocHead::new("THIS-SCP", "PEER-SCU");
    head.user_info = Some(vec![RUserItem::MaxLength(MAXLEN), RUserItem::ImplClassUid(b"1.2.3".to_vec()), RUserItem::ImplVersionName(b"PEER".to_vec())]);
    rp::encode(&RPdu::AssociateRq {
        head,
        pcs: vec![RPcRq { id: 1, abstract_syntax: ABSTRACT.as_bytes().to_vec(), transfer_syntaxes: vec![IMPLICIT.as_bytes().to_vec()] }],
    })
    .unwrap()
}

#[derive(Clone, Copy, PartialEq, Eq, Debug)]
enum Entry {
    WireSync,
    WireAsync,
    ClientSync,
    ServerSync,
    ClientAsync,
    ServerAsync,
}

impl Entry {
    fn is_async(self) -> bool {
        matches!(self, Entry::WireAsync | Entry::ClientAsync | Entry::ServerAsync)
    }
    fn prefix(self) -> Vec<u8> {
        match self {
            Entry::WireSync | Entry::WireAsync => vec![],
            Entry::ClientSync | Entry::ClientAsync => peer_ac(),
            Entry::ServerSync | Entry::ServerAsync => peer_rq(),
        }
    }
}

type Obs = (Vec<Result<Pdu, String>>, Vec<(u32, u32, u32)>, u64);

fn classify_err(e: &AErr) -> String {
    match e {
        AErr::ConnectionClosed { .. } => "ConnectionClosed".into(),
        other => format!("{other:?}").chars().take(160).collect(),
    }
}

thread_local! {
    static RT: tokio::runtime::Runtime = context_runtime();
}

fn drive_or<T>(d: Driven<Result<T, AErr>>) -> Result<T, String> {
    match d {
        Driven::Done { value, .. } => value.map_err(|e| classify_err(&e)),
        Driven::Stalled { polls } => Err(format!("Pending without wake-up at poll {polls}")),
        Driven::Runaway { polls } => Err(format!("no completion after {polls} polls")),
    }
}

/// Run one entry point over one segmented stream; returns the receive results (until the first error).
fn observe(entry: Entry, stream: &[u8], segs: &[usize], pend: &[usize], want: usize) -> Result<Obs, String> {
    let limit = want + 2;
    let mut out = vec![];
    let mut states = vec![];
    match entry {
        Entry::WireSync => {
            let (mut tr, rec) = ScriptRead::segmented(stream.to_vec(), segs);
            let mut rb = BytesMut::new();
            for _ in 0..limit {
                let r = read_pdu_from_wire(&mut tr, &mut rb, MAXLEN, true).map_err(|e| classify_err(&e));
                states.push((rec.pos() as u32, out.len() as u32, rb.len() as u32));
                let stop = r.is_err();
                out.push(r);
                if stop {
                    break;
                }
            }
            Ok((out, states, rec.calls() as u64))
        }
        Entry::WireAsync => {
            let (mut tr, rec) = ScriptAsyncRead::segmented(stream.to_vec(), segs, pend);
            let mut rb = BytesMut::new();
            for _ in 0..limit {
                let r = drive_or(drive_local(read_pdu_from_wire_async(&mut tr, &mut rb, MAXLEN, true), 10_000));
                states.push((rec.pos() as u32, out.len() as u32, rb.len() as u32));
                let stop = r.is_err();
                out.push(r);
                if stop {
                    break;
                }
            }
            Ok((out, states, rec.calls() as u64))
        }
        Entry::ClientSync => {
            let (tr, rec) = ScriptRead::segmented(stream.to_vec(), segs);
            let (tw, _w) = ScriptWrite::new(Decide::Default);
            let mut a = ClientAssociationOptions::new()
                .with_abstract_syntax(ABSTRACT)
                .max_pdu_length(MAXLEN)
                .verif_establish_over(SyncSock::new(tr, tw))
                .map_err(|e| format!("establish failed: {}", classify_err(&e)))?;
            for _ in 0..limit {
                let r = a.receive().map_err(|e| classify_err(&e));
                states.push((rec.pos() as u32, out.len() as u32, 0));
                let stop = r.is_err();
                out.push(r);
                if stop {
                    break;
                }
            }
            Ok((out, states, rec.calls() as u64))
        }
        Entry::ServerSync => {
            let (tr, rec) = ScriptRead::segmented(stream.to_vec(), segs);
            let (tw, _w) = ScriptWrite::new(Decide::Default);
            let mut a = ServerAssociationOptions::new()
                .accept_any()
                .with_abstract_syntax(ABSTRACT)
                .max_pdu_length(MAXLEN)
                .verif_establish_over(SyncSock::new(tr, tw))
                .map_err(|e| format!("establish failed: {}", classify_err(&e)))?;
            for _ in 0..limit {
                let r = a.receive().map_err(|e| classify_err(&e));
                states.push((rec.pos() as u32, out.len() as u32, 0));
                let stop = r.is_err();
                out.push(r);
                if stop {
                    break;
                }
            }
            Ok((out, states, rec.calls() as u64))
        }
        Entry::ClientAsync => RT.with(|rt| {
            let _g = rt.enter();
            let (tr, rec) = ScriptAsyncRead::segmented(stream.to_vec(), segs, pend);
            let (tw, _w) = ScriptAsyncWrite::new(Decide::Default);
            let opts = ClientAssociationOptions::new().with_abstract_syntax(ABSTRACT).max_pdu_length(MAXLEN);
            let mut a = drive_or(drive_local(opts.verif_establish_over_async(AsyncSock { r: tr, w: tw }), 10_000)).map_err(|e| format!("establish failed: {e}"))?;
            for _ in 0..limit {
                let r = drive_or(drive_local(a.receive(), 10_000));
                states.push((rec.pos() as u32, out.len() as u32, 0));
                let stop = r.is_err();
                out.push(r);
                if stop {
                    break;
                }
            }
            Ok((out, states, rec.calls() as u64))
        }),
        Entry::ServerAsync => RT.with(|rt| {
            let _g = rt.enter();
            let (tr, rec) = ScriptAsyncRead::segmented(stream.to_vec(), segs, pend);
            let (tw, _w) = ScriptAsyncWrite::new(Decide::Default);
            let opts = ServerAssociationOptions::new().accept_any().with_abstract_syntax(ABSTRACT).max_pdu_length(MAXLEN);
            let mut a = drive_or(drive_local(opts.verif_establish_over_async(AsyncSock { r: tr, w: tw }), 10_000)).map_err(|e| format!("establish failed: {e}"))?;
            for _ in 0..limit {
                let r = drive_or(drive_local(a.receive(), 10_000));
                states.push((rec.pos() as u32, out.len() as u32, 0));
                let stop = r.is_err();
                out.push(r);
                if stop {
                    break;
                }
            }
            Ok((out, states, rec.calls() as u64))
        }),
    }
}

fn short_hex(b: &[u8]) -> String {
    if b.len() <= 320 {
        rp::hex(b)
    } else {
        format!("{}...({} bytes)", rp::hex(&b[..64]), b.len())
    }
}

fn short_segs(s: &[usize]) -> String {
    if s.len() <= 12 {
        format!("{s:?}")
    } else {
        format!("{:?}...({} segments)", &s[..8], s.len())
    }
}

/// a P-DATA PDU of `total` bytes on the wire (header included) and the expected value
fn big_pdata(total: usize) -> (Vec<u8>, Pdu) {
    let data: Vec<u8> = (0..total - 12).map(|i| (i % 251) as u8).collect();
    let bytes = rp::encode(&RPdu::PData(vec![RPdv::new(1, false, true, data.clone())])).unwrap();
    assert_eq!(bytes.len(), total);
    (bytes, Pdu::PData { data: vec![PDataValue { presentation_context_id: 1, value_type: PDataValueType::Data, is_last: true, data }] })
}

const BIG_SIZES: [usize; 9] = [1023, 1024, 1025, 4096, 8191, 8192, 8193, 16384, 70000];
/// sequence patterns of the large-PDU family: B = big P-DATA, b = P-DATA of 1024 bytes,
/// d = small P-DATA, r = A-RELEASE-RQ, a = A-ABORT
const BIG_PATTERNS: [&str; 6] = ["Br", "dB", "BB", "dBa", "Brb", "rBd"];

struct Shared {
    states: Mutex<HashSet<(u8, u32, u32, u32)>>,
}

#[allow(clippy::too_many_arguments)]
fn one_run(l: &mut Local, sh_states: &mut HashSet<(u8, u32, u32, u32)>, entry: Entry, seq_name: &str, expected: &[&Pdu], stream: &[u8], segs: &[usize], seg_name: &str, pend: &[usize]) {
    let case_id = format!("{entry:?}/{seq_name}/{seg_name}/p{}", pend.iter().map(|p| p.to_string()).collect::<Vec<_>>().join("."));
    if !l.want(&case_id) {
        return;
    }
    l.eval();
    let r = guard(|| observe(entry, stream, segs, pend, expected.len()));
    let class = |effect: &str| json!({"entry": format!("{entry:?}"), "effect": effect, "pdus": expected.len(), "pendings": pend.len()});
    let detail = |m: String| json!({"sequence": seq_name, "stream": short_hex(stream), "segments": short_segs(segs), "pending_before_delivery": pend, "message": m});
    match r {
        Err(p) => {
            l.outcome("panic");
            l.fail(&case_id, class("panic"), detail(p));
        }
        Ok(Err(e)) => {
            l.outcome("establish-failed");
            l.fail(&case_id, class("establish-failed"), detail(e));
        }
        Ok(Ok((got, states, reads))) => {
            l.check.add_transitions(reads + got.len() as u64);
            for s in states {
                sh_states.insert((entry as u8, s.0, s.1, s.2));
            }
            // exactly the sequence, then ConnectionClosed
            let mut verdict = Ok(());
            for (i, want) in expected.iter().enumerate() {
                match got.get(i) {
                    Some(Ok(p)) if p == *want => {}
                    Some(Ok(p)) => {
                        verdict = Err(("wrong-pdu", format!("receive #{i} returned {}, expected {}", p.short_description(), want.short_description())));
                        break;
                    }
                    Some(Err(e)) => {
                        verdict = Err((if e == "ConnectionClosed" { "pdu-lost" } else { "receive-error" }, format!("receive #{i} failed with {e}, expected {}", want.short_description())));
                        break;
                    }
                    None => {
                        verdict = Err(("pdu-lost", format!("only {} receives", got.len())));
                        break;
                    }
                }
            }
            if verdict.is_ok() {
                match got.get(expected.len()) {
                    Some(Err(e)) if e == "ConnectionClosed" => {}
                    Some(Ok(p)) => verdict = Err(("extra-pdu", format!("after the sequence a further receive returned {}", p.short_description()))),
                    Some(Err(e)) => verdict = Err(("wrong-end", format!("after the sequence: {e}"))),
                    None => verdict = Err(("wrong-end", "no receive after the sequence".into())),
                }
            }
            match verdict {
                Ok(()) => l.outcome_with(&format!("ok-{entry:?}{}", if pend.is_empty() { "" } else { "-with-pending" }), || json!({"case": case_id, "stream": short_hex(stream), "segments": short_segs(segs), "pending_before_delivery": pend})),
                Err((effect, m)) => {
                    l.outcome(effect);
                    l.fail(&case_id, class(effect), detail(m));
                }
            }
        }
    }
}

fn main() {
    let check = Check::from_args("C27", Level::ModelChecking);
    let cuts = check.pick(2usize, 3);
    let quick = check.quick();
    check.set_rule(&format!(
        "read_pdu_from_wire / read_pdu_from_wire_async: all 584 sequences of 1-3 PDUs over {{AC, RJ, P-DATA 1 PDV, P-DATA 2 PDVs, RELEASE-RQ, RELEASE-RP, ABORT, unknown type}} x every segmentation with <= {cuts} cuts (streams longer than 128 bytes: <= 2; quick tier, streams longer than 64 bytes: every single cut and every pair of cuts at boundary-1/boundary/boundary+1/header ends), the all-1-byte segmentation, full coalescing; async: Pending before <= 2 of the first 6 deliveries (segmentations with <= 2 cuts and the bytewise one). receive() of the 4 association types (hook 4.3 constructors): sequences of <= 2 PDUs after the establishment PDU, cuts chosen from the positions boundary-1/boundary/boundary+1 of every PDU and the 6-byte header ends (<= {cuts} cuts), bytewise; async Pending before <= 1 delivery. Large-PDU family (all 6 entry points): 6 sequence patterns of 2-3 PDUs mixing small PDUs with a P-DATA PDU of total size in {{1023,1024,1025,4096,8191,8192,8193,16384,70000}}, delivered fully coalesced, with one cut at every position around a PDU boundary / multiple of 1024 (up to 17 KiB) / multiple of 8192, byte-wise for sizes <= 1025; async Pending before the first or second delivery. A case is (entry point, sequence, segmentation, pending set); non-trivial = distinct case reaching the receive loop"
    ));
    check.assume("vx-ref PS3.8 encoder builds the streams; expected dicom-rs PDU values are written by hand per alphabet symbol");
    check.assume("association objects are built through the verif-hooks generic-transport constructors; ScriptRead/ScriptAsyncRead deliver exactly the stated segments");
    let alpha = alphabet();
    // consistency of the hand-written pairs is itself checked by C25; here only encode
    let enc: Vec<Vec<u8>> = alpha.iter().map(|s| rp::encode(&s.r).unwrap()).collect();
    let mut seqs: Vec<Vec<usize>> = vec![];
    for a in 0..alpha.len() {
        seqs.push(vec![a]);
    }
    for a in 0..alpha.len() {
        for b in 0..alpha.len() {
            seqs.push(vec![a, b]);
        }
    }
    for a in 0..alpha.len() {
        for b in 0..alpha.len() {
            for c in 0..alpha.len() {
                seqs.push(vec![a, b, c]);
            }
        }
    }
    check.extra("sequences", json!(seqs.len()));
    let entries_wire = [Entry::WireSync, Entry::WireAsync];
    let entries_assoc = [Entry::ClientSync, Entry::ServerSync, Entry::ClientAsync, Entry::ServerAsync];
    let mut jobs: Vec<(Entry, usize)> = vec![];
    for (si, s) in seqs.iter().enumerate() {
        for e in entries_wire {
            jobs.push((e, si));
        }
        if s.len() <= 2 {
            for e in entries_assoc {
                jobs.push((e, si));
            }
        }
    }
    // the empty sequence for the association entry points (receive right after establishment)
    let sh = Shared { states: Mutex::new(HashSet::new()) };
    let traces = std::sync::atomic::AtomicU64::new(0);
    check.par_range(jobs.len() as u64, |l, i| {
        let (entry, si) = jobs[i as usize];
        let seq = &seqs[si];
        let seq_name: String = seq.iter().map(|&a| alpha[a].name).collect::<Vec<_>>().join("-");
        let expected: Vec<&Pdu> = seq.iter().map(|&a| &alpha[a].d).collect();
        let mut stream = entry.prefix();
        let mut boundaries = vec![];
        if !stream.is_empty() {
            boundaries.push(stream.len());
        }
        for &a in seq {
            stream.extend_from_slice(&enc[a]);
            boundaries.push(stream.len());
        }
        let len = stream.len();
        let mut states = HashSet::new();
        let mut runs = 0u64;
        let is_wire = matches!(entry, Entry::WireSync | Entry::WireAsync);
        // positions around PDU boundaries and header ends
        let near: Vec<usize> = {
            let mut pos: Vec<usize> = vec![1];
            let mut start = 0;
            for &b in &boundaries {
                for p in [start + 5, start + 6, start + 7, b - 1, b, b + 1] {
                    if p > 0 && p < len && !pos.contains(&p) {
                        pos.push(p);
                    }
                }
                start = b;
            }
            pos.sort();
            pos
        };
        let near_sets = |k: usize| -> Vec<Vec<usize>> { subsets_up_to(near.len(), k).into_iter().map(|ix| ix.into_iter().map(|i| near[i]).collect()).collect() };
        let cut_lists: Vec<Vec<usize>> = if !is_wire {
            near_sets(cuts)
        } else if quick && len > 64 {
            // quick tier, long streams: every single cut, and every pair of cuts near boundaries
            let mut v = cut_sets(len, 1);
            v.extend(near_sets(2).into_iter().filter(|c| c.len() == 2));
            v
        } else {
            cut_sets(len, if len > 128 { cuts.min(2) } else { cuts })
        };
        let mut segms: Vec<(Vec<usize>, String, bool)> = cut_lists
            .into_iter()
            .map(|c| {
                let few = c.len() <= 2;
                (cuts_to_segments(len, &c), format!("cut{}", c.iter().map(|x| x.to_string()).collect::<Vec<_>>().join(".")), few)
            })
            .collect();
        segms.push((vec![1; len], "bytewise".into(), true));
        for (segs, name, few) in &segms {
            if entry.is_async() {
                let pend_sets = if is_wire {
                    if *few { subsets_up_to(segs.len().min(6), 2) } else { vec![vec![]] }
                } else if *few {
                    subsets_up_to(segs.len().min(4), 1)
                } else {
                    vec![vec![]]
                };
                for pend in pend_sets {
                    one_run(l, &mut states, entry, &seq_name, &expected, &stream, segs, name, &pend);
                    runs += 1;
                }
            } else {
                one_run(l, &mut states, entry, &seq_name, &expected, &stream, segs, name, &[]);
                runs += 1;
            }
        }
        l.nontrivial_distinct_by_construction(runs);
        traces.fetch_add(runs, std::sync::atomic::Ordering::Relaxed);
        sh.states.lock().unwrap().extend(states);
    });
    // large-PDU family: buffering effects (one transport read holding the end of a PDU and the start of
    // the next; PDUs larger than the receivers' internal 8 KiB reads)
    let mut big_jobs: Vec<(Entry, usize, usize)> = vec![];
    for e in [Entry::WireSync, Entry::WireAsync, Entry::ClientSync, Entry::ServerSync, Entry::ClientAsync, Entry::ServerAsync] {
        for si in 0..BIG_SIZES.len() {
            for pi in 0..BIG_PATTERNS.len() {
                big_jobs.push((e, si, pi));
            }
        }
    }
    check.extra("large_pdu_sequences", json!(big_jobs.len()));
    check.par_range(big_jobs.len() as u64, |l, i| {
        let (entry, si, pi) = big_jobs[i as usize];
        let size = BIG_SIZES[si];
        let (big_bytes, big_pdu) = big_pdata(size);
        let (b1k_bytes, b1k_pdu) = big_pdata(1024);
        let sym = |n: &str| alpha.iter().position(|s| s.name == n).unwrap();
        let mut stream = entry.prefix();
        let mut boundaries = vec![];
        if !stream.is_empty() {
            boundaries.push(stream.len());
        }
        let mut expected: Vec<&Pdu> = vec![];
        for ch in BIG_PATTERNS[pi].chars() {
            match ch {
                'B' => {
                    stream.extend_from_slice(&big_bytes);
                    expected.push(&big_pdu);
                }
                'b' => {
                    stream.extend_from_slice(&b1k_bytes);
                    expected.push(&b1k_pdu);
                }
                c => {
                    let a = sym(match c {
                        'd' => "D1",
                        'r' => "RRQ",
                        _ => "AB",
                    });
                    stream.extend_from_slice(&enc[a]);
                    expected.push(&alpha[a].d);
                }
            }
            boundaries.push(stream.len());
        }
        let len = stream.len();
        let seq_name = format!("big{size}-{}", BIG_PATTERNS[pi]);
        // interesting single cuts: around PDU boundaries, around multiples of 1024 (up to 17 KiB) and of 8192
        let mut pos: Vec<usize> = vec![1, 6];
        for &b in &boundaries {
            pos.extend([b.saturating_sub(1), b, b + 1, b + 6]);
        }
        let mut k = 1024;
        while k <= len.min(17 * 1024) {
            pos.extend([k - 1, k, k + 1]);
            k += 1024;
        }
        let mut k = 8192;
        while k <= len {
            pos.extend([k - 1, k, k + 1]);
            k += 8192;
        }
        pos.retain(|&p| p > 0 && p < len);
        pos.sort();
        pos.dedup();
        let mut segms: Vec<(Vec<usize>, String)> = vec![(vec![len], "coalesced".into())];
        for p in pos {
            segms.push((vec![p, len - p], format!("cut{p}")));
        }
        if size <= 1025 {
            segms.push((vec![1; len], "bytewise".into()));
        }
        let mut states = HashSet::new();
        let mut runs = 0u64;
        for (segs, name) in &segms {
            let pend_sets: Vec<Vec<usize>> = if entry.is_async() && name != "bytewise" { vec![vec![], vec![0], vec![1]] } else { vec![vec![]] };
            for pend in pend_sets {
                if pend.first().is_some_and(|&p| p >= segs.len()) {
                    continue;
                }
                one_run(l, &mut states, entry, &seq_name, &expected, &stream, segs, name, &pend);
                runs += 1;
            }
        }
        l.nontrivial_distinct_by_construction(runs);
        traces.fetch_add(runs, std::sync::atomic::Ordering::Relaxed);
        sh.states.lock().unwrap().extend(states);
    });
    check.add_traces(traces.load(std::sync::atomic::Ordering::Relaxed));
    let n = sh.states.lock().unwrap().len() as u64;
    check.add_states(n);
    check.finish();
}
