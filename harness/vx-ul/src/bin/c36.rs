//! C36 — AE addresses print and parse back unchanged.
//!
//! Universe: titles x addresses x {FullAeAddr<T>, AeAddr<T> with title, AeAddr<T> without title}
//! for T in {SocketAddr, SocketAddrV4, SocketAddrV6, String}.
//! Oracle (independent of the code under test): the documented syntax `{ae_title}@{address}` with the
//! address printed by T's own `Display`; the printed text must equal that, parse back (as the same
//! type) to the same title and address, and cross-parse consistently: a `FullAeAddr` text parses as an
//! `AeAddr` with `Some(title)`; an `AeAddr` text without a title parses with `ae_title() == None`
//! and is refused by `FullAeAddr` (documented: missing part); every text parses as `AeAddr<String>`
//! with the address text unchanged.
//! The empty title is outside the statement ("AE title can't be empty" is documented and tested
//! behaviour): for it the oracle is the documented behaviour (`AeAddr`: no title; `FullAeAddr`: error).
use dicom_ul::{AeAddr, FullAeAddr};
use std::net::{Ipv4Addr, Ipv6Addr, SocketAddr, SocketAddrV4, SocketAddrV6};
use vx_kit::{guard, json, Check, Level};

const TITLES: &[&str] = &["A", "A B", "a.b", "ABCDEFGHIJKLMNOP", "A:B", " A ", "[A]", "STORE-SCP_1", ""];

fn v4s(thorough: bool) -> Vec<SocketAddrV4> {
    let o: &[u8] = if thorough { &[0, 1, 9, 10, 99, 100, 127, 128, 199, 200, 254, 255] } else { &[0, 1, 127, 255] };
    let ports: &[u16] = if thorough { &[0, 1, 9, 10, 104, 9999, 10000, 11112, 65535] } else { &[0, 1, 104, 65535] };
    let (o, ports) = (o.to_vec(), ports.to_vec());
    let mut v = vec![];
    for &a in &o {
        for &b in &o {
            for &c in &o {
                for &d in &o {
                    for &p in &ports {
                        v.push(SocketAddrV4::new(Ipv4Addr::new(a, b, c, d), p));
                    }
                }
            }
        }
    }
    v
}

fn v6s() -> Vec<SocketAddrV6> {
    let ips = [
        Ipv6Addr::UNSPECIFIED,
        Ipv6Addr::LOCALHOST,
        Ipv6Addr::new(0x2001, 0xdb8, 1, 2, 3, 4, 5, 6),
        Ipv6Addr::new(0xfe80, 0, 0, 0, 0, 0, 0, 1),
        Ipv6Addr::new(0, 0, 0, 0, 0, 0xffff, 0x0102, 0x0304),
        Ipv6Addr::new(0xffff, 0xffff, 0xffff, 0xffff, 0xffff, 0xffff, 0xffff, 0xffff),
        Ipv6Addr::new(1, 0, 0, 2, 0, 0, 0, 3),
    ];
    let mut v = vec![];
    for ip in ips {
        for p in [0u16, 1, 104, 65535] {
            v.push(SocketAddrV6::new(ip, p, 0, 0));
        }
    }
    v
}

fn strings() -> Vec<String> {
    ["localhost:104", "a-b.c:1", "pacs.hospital.example.com:11112", "127.0.0.1:104", "[::1]:104", "user@host:104", "h", ""]
        .iter()
        .map(|s| s.to_string())
        .collect()
}

macro_rules! run_type {
    ($l:expr, $tname:expr, $T:ty, $addrs:expr) => {{
        let addrs: Vec<$T> = $addrs;
        for (ai, addr) in addrs.iter().enumerate() {
            let addr_text = addr.to_string();
            for (ti, title) in TITLES.iter().enumerate() {
                for kind in ["full", "ae"] {
                    let case_id = format!("{}/{}/t{}/a{}", $tname, kind, ti, ai);
                    if !$l.want(&case_id) {
                        continue;
                    }
                    $l.eval();
                    let class = json!({"type": $tname, "kind": kind, "title": title, "addr_has_at": addr_text.contains('@')});
                    let expected_text = format!("{title}@{addr_text}");
                    let r = guard(|| -> Result<&'static str, String> {
                        let printed = if kind == "full" {
                            FullAeAddr::<$T>::new(*title, addr.clone()).to_string()
                        } else {
                            AeAddr::<$T>::new(*title, addr.clone()).to_string()
                        };
                        if printed != expected_text {
                            return Err(format!("printed {printed:?}, documented syntax gives {expected_text:?}"));
                        }
                        // parse back as the same type
                        let as_full = printed.parse::<FullAeAddr<$T>>();
                        let as_ae = printed.parse::<AeAddr<$T>>();
                        let as_str = printed.parse::<AeAddr<String>>();
                        if title.is_empty() {
                            // documented: an empty title is no title
                            if as_full.is_ok() {
                                return Err("FullAeAddr accepted an empty title".into());
                            }
                            let a = as_ae.map_err(|e| format!("AeAddr parse error {e:?}"))?;
                            if a.ae_title().is_some() || a.socket_addr() != addr {
                                return Err(format!("AeAddr parse of {printed:?} gave {a:?}"));
                            }
                            return Ok("empty-title-documented");
                        }
                        let f = as_full.map_err(|e| format!("FullAeAddr parse error {e:?}"))?;
                        if f.ae_title() != *title || f.socket_addr() != addr {
                            return Err(format!("FullAeAddr parse of {printed:?} gave {f:?}"));
                        }
                        if f != FullAeAddr::<$T>::new(*title, addr.clone()) {
                            return Err("FullAeAddr value not equal after round trip".into());
                        }
                        let a = as_ae.map_err(|e| format!("AeAddr parse error {e:?}"))?;
                        if a.ae_title() != Some(*title) || a.socket_addr() != addr {
                            return Err(format!("AeAddr parse of {printed:?} gave {a:?}"));
                        }
                        if a != AeAddr::<$T>::new(*title, addr.clone()) {
                            return Err("AeAddr value not equal after round trip".into());
                        }
                        let s = as_str.map_err(|e| format!("AeAddr<String> parse error {e:?}"))?;
                        if s.ae_title() != Some(*title) || s.socket_addr() != &addr_text {
                            return Err(format!("AeAddr<String> parse of {printed:?} gave {s:?}"));
                        }
                        Ok("round-trip")
                    });
                    $l.nontrivial(&case_id);
                    match r {
                        Ok(Ok(o)) => $l.outcome_with(o, || json!({"case": case_id, "type": $tname, "kind": kind, "title": title, "address": addr_text, "printed": expected_text})),
                        Ok(Err(m)) => {
                            $l.outcome("mismatch");
                            $l.fail(&case_id, class, json!({"title": title, "address": addr_text, "message": m}));
                        }
                        Err(p) => {
                            $l.outcome("panic");
                            $l.fail(&case_id, class, json!({"title": title, "address": addr_text, "panic": p}));
                        }
                    }
                }
            }
            // without a title
            let case_id = format!("{}/none/a{}", $tname, ai);
            if !$l.want(&case_id) {
                continue;
            }
            $l.eval();
            $l.nontrivial(&case_id);
            let class = json!({"type": $tname, "kind": "none", "title": null, "addr_has_at": addr_text.contains('@')});
            let r = guard(|| -> Result<&'static str, String> {
                let printed = AeAddr::<$T>::new_socket_addr(addr.clone()).to_string();
                let a = printed.parse::<AeAddr<$T>>().map_err(|e| format!("AeAddr parse error {e:?}"))?;
                if a.ae_title().is_some() || a.socket_addr() != addr {
                    return Err(format!("AeAddr parse of {printed:?} gave {a:?}"));
                }
                if a != AeAddr::<$T>::new_socket_addr(addr.clone()) {
                    return Err("AeAddr value not equal after round trip".into());
                }
                if !addr_text.contains('@') {
                    if printed != addr_text {
                        return Err(format!("printed {printed:?}, expected the bare address {addr_text:?}"));
                    }
                    if printed.parse::<FullAeAddr<$T>>().is_ok() {
                        return Err("FullAeAddr accepted a text without a title".into());
                    }
                    Ok("no-title")
                } else {
                    Ok("no-title-at-in-address")
                }
            });
            match r {
                Ok(Ok(o)) => $l.outcome_with(o, || json!({"case": case_id, "type": $tname, "kind": "none", "address": addr_text})),
                Ok(Err(m)) => {
                    $l.outcome("mismatch");
                    $l.fail(&case_id, class, json!({"address": addr_text, "message": m}));
                }
                Err(p) => {
                    $l.outcome("panic");
                    $l.fail(&case_id, class, json!({"address": addr_text, "panic": p}));
                }
            }
        }
    }};
}

fn main() {
    let check = Check::from_args("C36", Level::Exploration);
    check.set_rule("titles {A, 'A B', a.b, 16 chars, A:B, ' A ', [A], STORE-SCP_1, empty} x addresses {every SocketAddrV4 with octets in {0,1,127,255} and port in {0,1,104,65535} (thorough: 12 octet values incl. every digit-count boundary x 9 ports); 7 IPv6 addresses x 4 ports; 8 host:port strings incl. one containing '@'} x {FullAeAddr, AeAddr with title, AeAddr without title} x T in {SocketAddr, SocketAddrV4, SocketAddrV6, String}; a case is (type, kind, title, address); non-trivial = printed and parsed");
    check.assume("std's Display/FromStr of socket addresses; the documented syntax {ae_title}@{address}");
    let thorough = check.thorough();
    // four shards, one per address type
    check.par_range(4, |l, i| match i {
        0 => {
            let mut a: Vec<SocketAddr> = v4s(thorough).into_iter().map(SocketAddr::V4).collect();
            a.extend(v6s().into_iter().map(SocketAddr::V6));
            run_type!(l, "SocketAddr", SocketAddr, a)
        }
        1 => run_type!(l, "SocketAddrV4", SocketAddrV4, v4s(thorough)),
        2 => run_type!(l, "SocketAddrV6", SocketAddrV6, v6s()),
        _ => run_type!(l, "String", String, strings()),
    });
    check.extra("universe", json!({"titles": TITLES.len(), "v4": v4s(thorough).len(), "v6": v6s().len(), "strings": strings().len()}));
    check.finish();
}
