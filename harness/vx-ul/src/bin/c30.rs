//! C30 — release and abort follow the upper-layer protocol (DESIGN.md C30, parts 2 and 3).
//!
//! Part 1 (the TLA+ model tla/Assoc.tla, checked by TLC) runs in the pre-step pre/c30.sh, which also
//! dumps TLC's state graph and converts it (tla/graph2nfa.py) into target/tla/assoc.json:
//! the action graph of the model and an NFA over observable events.
//!
//! Part 2, implementation -> model: real `ClientAssociation` x `ServerAssociation` (and their async
//! twins) are established over the in-memory duplex and run every pair of scripts of <= 3 actions per
//! side (4 in the thorough tier) under every schedule with <= 2 (quick) / 3 (thorough) deviations; the event trace of every
//! execution must be accepted by the NFA (and end in a state where both sides have ended).
//!
//! Part 3, model -> implementation: every path of the TLC graph of <= 6 (quick) / 8 (thorough) steps
//! is projected to a script pair + schedule and replayed step by step; the events the real code
//! produces in each step must equal the events the model action stands for.
#[path = "../twoparty.rs"]
mod twoparty;

use dicom_ul::association::client::ClientAssociationOptions;
use dicom_ul::association::server::ServerAssociationOptions;
use dicom_ul::association::{AsyncAssociation, Error as AErr, SyncAssociation};
use dicom_ul::pdu::{PDataValue, PDataValueType, Pdu};
use std::collections::{HashMap, HashSet};
use std::sync::{Arc, Mutex};
use twoparty::*;
use vx_kit::{explore, json, Check, Ctx, Level, Local, Value};

const VERIFICATION: &str = "1.2.840.10008.1.1";

#[derive(Clone, Copy, PartialEq, Eq, Debug, Hash)]
enum Act {
    Send,
    Recv,
    /// answer a pending A-RELEASE-RQ with A-RELEASE-RP and let the association go (no-op otherwise)
    Reply,
    Release,
    Abort,
    /// send one PDU of an unrecognised type (at most once per script, as in the model)
    Garbage,
}
impl Act {
    fn name(self) -> &'static str {
        match self {
            Act::Send => "send",
            Act::Recv => "recv",
            Act::Reply => "reply",
            Act::Release => "release",
            Act::Abort => "abort",
            Act::Garbage => "garbage",
        }
    }
}
fn script_name(s: &[Act]) -> String {
    if s.is_empty() {
        "drop".into()
    } else {
        s.iter().map(|a| a.name()).collect::<Vec<_>>().join("-")
    }
}

/// every script of <= `n` actions; release and abort consume the association, so they come last
fn scripts(n: usize) -> Vec<Vec<Act>> {
    let cont = [Act::Send, Act::Recv, Act::Reply, Act::Garbage];
    let term = [Act::Release, Act::Abort];
    let mut out: Vec<Vec<Act>> = vec![vec![]];
    let mut open: Vec<Vec<Act>> = vec![vec![]];
    for _ in 0..n {
        let mut next = vec![];
        for p in &open {
            for a in cont {
                let mut q = p.clone();
                q.push(a);
                out.push(q.clone());
                next.push(q);
            }
            for a in term {
                let mut q = p.clone();
                q.push(a);
                out.push(q);
            }
        }
        open = next;
    }
    out.retain(|s| s.iter().filter(|a| **a == Act::Garbage).count() <= 1);
    out
}
fn garbage_pdu() -> Pdu {
    Pdu::Unknown { pdu_type: 0x99, data: vec![1, 2, 3, 4] }
}

fn kind_of(p: &Pdu) -> &'static str {
    match p {
        Pdu::PData { .. } => "DATA",
        Pdu::ReleaseRQ => "RRQ",
        Pdu::ReleaseRP => "RRP",
        Pdu::AbortRQ { .. } => "ABORT",
        Pdu::AssociationRQ(_) => "ARQ",
        Pdu::AssociationAC(_) => "AAC",
        Pdu::AssociationRJ(_) => "ARJ",
        Pdu::Unknown { .. } => "UNK",
    }
}
fn class_of(e: &AErr) -> &'static str {
    match e {
        AErr::UnexpectedPdu { .. } => "Unexpected",
        AErr::UnknownPdu { .. } => "Unknown",
        AErr::ConnectionClosed { .. } => "Closed",
        AErr::SendTooLongPdu { .. } => "TooLong",
        AErr::Aborted { .. } => "Aborted",
        _ => "Wire",
    }
}
fn ret<T>(s: usize, op: &str, r: &Result<T, AErr>) -> String {
    format!("ret({},{},{})", side_name(s), op, match r {
        Ok(_) => "Ok",
        Err(e) => class_of(e),
    })
}
fn data_pdu(pc: u8) -> Pdu {
    Pdu::PData {
        data: vec![PDataValue {
            presentation_context_id: pc,
            value_type: PDataValueType::Command,
            is_last: true,
            data: vec![0x5a; 8],
        }],
    }
}
/// events a finished release() stands for
fn release_events(s: usize, r: &Result<(), AErr>) -> Vec<String> {
    let mut v = vec![];
    match r {
        Ok(()) => v.push(format!("take({},RRP)", side_name(s))),
        Err(AErr::UnexpectedPdu { pdu, .. }) | Err(AErr::UnknownPdu { pdu, .. }) => {
            v.push(format!("take({},{})", side_name(s), kind_of(pdu)))
        }
        Err(_) => {}
    }
    v.push(ret(s, "release", r));
    v
}

/// The application driving one side (sync API). A conformant user of the PDU-level API: it lets the
/// association go after being handed an A-ABORT, an end of stream or an error, and after replying to
/// a release request.
fn run_sync<T: SyncAssociation<SyncEnd>>(sh: &Arc<Shared>, s: usize, assoc: T, script: &[Act]) {
    let pc = assoc.presentation_contexts().first().map(|p| p.id).unwrap_or(1);
    let mut assoc = Some(assoc);
    let mut pend = false;
    let mut broke = false;
    for &act in script {
        if act == Act::Reply && !pend {
            continue;
        }
        sh.action_point(s);
        match act {
            Act::Send => {
                let r = SyncAssociation::send(assoc.as_mut().unwrap(), &data_pdu(pc));
                sh.event(ret(s, "send", &r));
                if r.is_err() {
                    broke = true;
                }
            }
            Act::Recv => match SyncAssociation::receive(assoc.as_mut().unwrap()) {
                Ok(pdu) => {
                    sh.event(format!("take({},{})", side_name(s), kind_of(&pdu)));
                    sh.event(format!("ret({},receive,Ok)", side_name(s)));
                    match pdu {
                        Pdu::ReleaseRQ => pend = true,
                        Pdu::AbortRQ { .. } => broke = true,
                        _ => {}
                    }
                }
                Err(e) => {
                    sh.event(ret::<()>(s, "receive", &Err(e)));
                    broke = true;
                }
            },
            Act::Reply => {
                let r = SyncAssociation::send(assoc.as_mut().unwrap(), &Pdu::ReleaseRP);
                sh.event(ret(s, "send", &r));
                broke = true;
            }
            Act::Release => {
                let r = SyncAssociation::release(assoc.take().unwrap());
                for e in release_events(s, &r) {
                    sh.event(e);
                }
                broke = true;
            }
            Act::Abort => {
                let r = SyncAssociation::abort(assoc.take().unwrap());
                sh.event(ret(s, "abort", &r));
                broke = true;
            }
            Act::Garbage => {
                let r = SyncAssociation::send(assoc.as_mut().unwrap(), &garbage_pdu());
                sh.event(ret(s, "send", &r));
                if r.is_err() {
                    broke = true;
                }
            }
        }
        if broke {
            break;
        }
    }
    if !broke {
        // the script is exhausted: letting the association go is an action of its own
        sh.action_point(s);
    }
    drop(assoc);
}

async fn run_async<T: AsyncAssociation<AsyncEnd> + Send>(sh: Arc<Shared>, s: usize, assoc: T, script: Vec<Act>) {
    let pc = assoc.presentation_contexts().first().map(|p| p.id).unwrap_or(1);
    let mut assoc = Some(assoc);
    let mut pend = false;
    let mut broke = false;
    for &act in &script {
        if act == Act::Reply && !pend {
            continue;
        }
        sh.action_point_async(s).await;
        match act {
            Act::Send => {
                let r = AsyncAssociation::send(assoc.as_mut().unwrap(), &data_pdu(pc)).await;
                sh.event(ret(s, "send", &r));
                if r.is_err() {
                    broke = true;
                }
            }
            Act::Recv => match AsyncAssociation::receive(assoc.as_mut().unwrap()).await {
                Ok(pdu) => {
                    sh.event(format!("take({},{})", side_name(s), kind_of(&pdu)));
                    sh.event(format!("ret({},receive,Ok)", side_name(s)));
                    match pdu {
                        Pdu::ReleaseRQ => pend = true,
                        Pdu::AbortRQ { .. } => broke = true,
                        _ => {}
                    }
                }
                Err(e) => {
                    sh.event(ret::<()>(s, "receive", &Err(e)));
                    broke = true;
                }
            },
            Act::Reply => {
                let r = AsyncAssociation::send(assoc.as_mut().unwrap(), &Pdu::ReleaseRP).await;
                sh.event(ret(s, "send", &r));
                broke = true;
            }
            Act::Release => {
                let r = AsyncAssociation::release(assoc.take().unwrap()).await;
                for e in release_events(s, &r) {
                    sh.event(e);
                }
                broke = true;
            }
            Act::Abort => {
                let r = AsyncAssociation::abort(assoc.take().unwrap()).await;
                sh.event(ret(s, "abort", &r));
                broke = true;
            }
            Act::Garbage => {
                let r = AsyncAssociation::send(assoc.as_mut().unwrap(), &garbage_pdu()).await;
                sh.event(ret(s, "send", &r));
                if r.is_err() {
                    broke = true;
                }
            }
        }
        if broke {
            break;
        }
    }
    if !broke {
        sh.action_point_async(s).await;
    }
    drop(assoc);
}

fn client_opts() -> ClientAssociationOptions<'static> {
    ClientAssociationOptions::new().with_abstract_syntax(VERIFICATION)
}
fn server_opts() -> ServerAssociationOptions<'static, dicom_ul::association::server::AcceptAny, dicom_ul::association::server::DefaultNegotiation> {
    ServerAssociationOptions::new().with_abstract_syntax(VERIFICATION)
}

enum Peers {
    Sync(SyncPeers),
    Async(AsyncPeers),
}
impl Peers {
    fn r(&mut self) -> &mut dyn Resume {
        match self {
            Peers::Sync(p) => p,
            Peers::Async(p) => p,
        }
    }
    fn join(self) {
        if let Peers::Sync(p) = self {
            p.join()
        }
    }
}

/// establishment failures are recorded here (machinery: the default negotiation must succeed)
type Fails = Arc<Mutex<Vec<String>>>;

fn start(sh: &Arc<Shared>, is_async: bool, sr: &[Act], sa: &[Act], fails: &Fails) -> Peers {
    if !is_async {
        let mut peers = SyncPeers::new(sh);
        let (sh_r, sc_r, f_r) = (sh.clone(), sr.to_vec(), fails.clone());
        peers.spawn(R, Box::new(move |end| match client_opts().verif_establish_over(end) {
            Ok(a) => {
                sh_r.barrier(R);
                run_sync(&sh_r, R, a, &sc_r)
            }
            Err(e) => f_r.lock().unwrap().push(format!("requestor: {e}")),
        }));
        let (sh_a, sc_a, f_a) = (sh.clone(), sa.to_vec(), fails.clone());
        peers.spawn(A, Box::new(move |end| match server_opts().verif_establish_over(end) {
            Ok(a) => {
                sh_a.barrier(A);
                run_sync(&sh_a, A, a, &sc_a)
            }
            Err(e) => f_a.lock().unwrap().push(format!("acceptor: {e}")),
        }));
        Peers::Sync(peers)
    } else {
        let (sh_r, sc_r, f_r) = (sh.clone(), sr.to_vec(), fails.clone());
        let fr: PeerFut = Box::pin(async move {
            let end = AsyncEnd::new(sh_r.clone(), R);
            match client_opts().verif_establish_over_async(end).await {
                Ok(a) => {
                    sh_r.barrier_async(R).await;
                    run_async(sh_r, R, a, sc_r).await
                }
                Err(e) => f_r.lock().unwrap().push(format!("requestor: {e}")),
            }
        });
        let (sh_a, sc_a, f_a) = (sh.clone(), sa.to_vec(), fails.clone());
        let fa: PeerFut = Box::pin(async move {
            let end = AsyncEnd::new(sh_a.clone(), A);
            let opts = server_opts();
            match opts.verif_establish_over_async(end).await {
                Ok(a) => {
                    sh_a.barrier_async(A).await;
                    run_async(sh_a, A, a, sc_a).await
                }
                Err(e) => f_a.lock().unwrap().push(format!("acceptor: {e}")),
            }
        });
        Peers::Async(AsyncPeers::new(sh, fr, fa))
    }
}

// ---------------------------------------------------------------------------------------------
// the automaton
// ---------------------------------------------------------------------------------------------
struct Edge {
    dst: u32,
    act: String,
    side: usize,
    kind: String,
    events: Vec<String>,
}
struct Model {
    /// action graph: succ[n] = outgoing edges
    succ: Vec<Vec<Edge>>,
    nfa: HashMap<(u32, String), Vec<u32>>,
    final_: HashSet<u32>,
    tlc: Value,
    n_states: u64,
    n_trans: u64,
}
impl Model {
    fn load(root: &std::path::Path, file: &str) -> Model {
        let p = root.join("target/tla").join(file);
        let txt = std::fs::read_to_string(&p)
            .unwrap_or_else(|e| vx_kit::report::machinery(&format!("{}: {e} (pre-step c30.sh not run?)", p.display())));
        let v: Value = serde_json::from_str(&txt).unwrap_or_else(|e| vx_kit::report::machinery(&format!("assoc.json: {e}")));
        let n = v["model_states"].as_u64().unwrap() as usize;
        let mut succ: Vec<Vec<Edge>> = (0..n).map(|_| vec![]).collect();
        for g in v["graph"].as_array().unwrap() {
            let a = g[0].as_u64().unwrap() as usize;
            succ[a].push(Edge {
                dst: g[1].as_u64().unwrap() as u32,
                act: g[2].as_str().unwrap().to_string(),
                side: if g[3].as_str().unwrap() == "R" { R } else { A },
                kind: g[4].as_str().unwrap().to_string(),
                events: g[5].as_array().unwrap().iter().map(|e| e.as_str().unwrap().to_string()).collect(),
            });
        }
        let mut nfa: HashMap<(u32, String), Vec<u32>> = HashMap::new();
        for e in v["nfa_edges"].as_array().unwrap() {
            nfa.entry((e[0].as_u64().unwrap() as u32, e[1].as_str().unwrap().to_string()))
                .or_default()
                .push(e[2].as_u64().unwrap() as u32);
        }
        let final_ = v["final"].as_array().unwrap().iter().map(|x| x.as_u64().unwrap() as u32).collect();
        Model {
            succ,
            nfa,
            final_,
            tlc: v["tlc"].clone(),
            n_states: n as u64,
            n_trans: v["model_transitions"].as_u64().unwrap(),
        }
    }
    /// Ok(set of NFA states after the trace) or Err(index of the first event no run can produce)
    fn run(&self, trace: &[String]) -> Result<HashSet<u32>, usize> {
        let mut cur: HashSet<u32> = HashSet::from([0]);
        for (i, e) in trace.iter().enumerate() {
            let mut nxt = HashSet::new();
            for &q in &cur {
                if let Some(v) = self.nfa.get(&(q, e.clone())) {
                    nxt.extend(v.iter().copied());
                }
            }
            if nxt.is_empty() {
                return Err(i);
            }
            cur = nxt;
        }
        Ok(cur)
    }
}

/// strip the side so that a class descriptor does not depend on it
fn generic(ev: &str) -> String {
    ev.replace("(R,", "(s,").replace("(A,", "(s,").replace("(R)", "(s)").replace("(A)", "(s)")
}

struct ExecResult {
    events: Vec<String>,
    end: PhaseEnd,
    panics: Vec<String>,
    est_fail: Vec<String>,
    clean_exit: bool,
    stats: (u64, u64, u64),
}

/// one execution of a script pair under the schedule dictated by `ctx`
fn execute(is_async: bool, sr: &[Act], sa: &[Act], ctx: Option<Ctx>, knobs: Knobs) -> ExecResult {
    let sh = Shared::new(None, Knobs::default());
    let fails: Fails = Arc::new(Mutex::new(vec![]));
    let mut peers = start(&sh, is_async, sr, sa, &fails);
    let mut drv = Driver::new(&sh);
    // phase 1: establishment under the default schedule
    let e1 = drv.run_phase(peers.r());
    let est_fail = fails.lock().unwrap().clone();
    let mut end = e1;
    if e1 == PhaseEnd::Complete && est_fail.is_empty() {
        {
            let mut g = sh.lock();
            g.recording = true;
            g.ctx = ctx;
            g.knobs = knobs;
        }
        drv.release_barrier();
        end = drv.run_phase(peers.r());
    }
    let clean_exit = drv.finish(peers.r());
    peers.join();
    let g = sh.lock();
    ExecResult {
        events: g.events.clone(),
        end,
        panics: g.panics.clone(),
        est_fail,
        clean_exit,
        stats: (g.n_switch, g.n_partial, g.n_pending),
    }
}

fn part2(check: &Check, model: &Model) {
    let all = scripts(check.pick(3, 4));
    let n = all.len() as u64;
    let bound = check.pick(2, 3);
    check.extra("scripts_per_side", json!(n));
    check.extra("deviation_bound", json!(bound));
    let total_exec = std::sync::atomic::AtomicU64::new(0);
    let switched = std::sync::atomic::AtomicU64::new(0);
    let pendings = std::sync::atomic::AtomicU64::new(0);
    let partials = std::sync::atomic::AtomicU64::new(0);
    check.par_range(n * n * 2, |l: &mut Local, i| {
        let is_async = i % 2 == 1;
        let (ri, ai) = (((i / 2) / n) as usize, ((i / 2) % n) as usize);
        let (sr, sa) = (&all[ri], &all[ai]);
        let api = if is_async { "async" } else { "sync" };
        let case_id = format!("i2m/{api}/{}/{}", script_name(sr), script_name(sa));
        if !l.want(&case_id) {
            return;
        }
        let _rt = if is_async { Some(tokio_context().enter()) } else { None };
        let knobs = Knobs { sched: true, seg: 1, pending: is_async, partial_write: false, one_pdu_per_read: false };
        let verbose = l.check.verbose;
        let mut reported = false;
        let st = explore(Some(bound), 2_000_000, |ctx| {
            let r = execute(is_async, sr, sa, Some(ctx.clone()), knobs);
            l.eval();
            switched.fetch_add(r.stats.0, std::sync::atomic::Ordering::Relaxed);
            partials.fetch_add(r.stats.1, std::sync::atomic::Ordering::Relaxed);
            pendings.fetch_add(r.stats.2, std::sync::atomic::Ordering::Relaxed);
            if verbose {
                eprintln!("schedule {:?}: end={:?} events={:?}", ctx.choices(), r.end, r.events);
            }
            let mut bad: Option<(Value, Value)> = None;
            if !r.est_fail.is_empty() || r.end == PhaseEnd::Spin || !r.clean_exit {
                l.check.machinery_error(&format!("{case_id}: establishment/driver failure {:?} {:?}", r.est_fail, r.end));
                return;
            }
            if !r.panics.is_empty() {
                bad = Some((json!({"part": "impl2model", "api": api, "kind": "panic"}), json!({"panics": r.panics})));
            } else {
                match model.run(&r.events) {
                    Err(at) => {
                        bad = Some((
                            json!({"part": "impl2model", "api": api, "kind": "trace-not-a-model-behaviour", "event": generic(&r.events[at])}),
                            json!({"rejected_event_index": at, "rejected_event": r.events[at]}),
                        ));
                        l.outcome("rejected");
                    }
                    Ok(states) => {
                        if r.end == PhaseEnd::Deadlock {
                            l.outcome("accepted-prefix-then-both-blocked");
                        } else if states.iter().any(|q| model.final_.contains(q)) {
                            l.outcome_with("accepted-complete", || json!({"case": case_id, "trace": r.events}));
                        } else {
                            bad = Some((
                                json!({"part": "impl2model", "api": api, "kind": "execution-ended-but-model-has-not"}),
                                json!({}),
                            ));
                            l.outcome("incomplete");
                        }
                    }
                }
                l.nontrivial(&(is_async, &r.events));
            }
            if let Some((class, mut detail)) = bad {
                if !reported {
                    reported = true;
                    detail["script_R"] = json!(script_name(sr));
                    detail["script_A"] = json!(script_name(sa));
                    detail["schedule_choices"] = json!(ctx.choices());
                    detail["trace"] = json!(r.events);
                    l.fail(&case_id, class, detail);
                }
            }
        });
        match st {
            Ok(s) => {
                total_exec.fetch_add(s.executions, std::sync::atomic::Ordering::Relaxed);
                if s.capped {
                    l.check.cap("more than 2e6 schedules for one script pair");
                }
            }
            Err(e) => l.check.machinery_error(&format!("{case_id}: {e}")),
        }
    });
    let ld = |a: &std::sync::atomic::AtomicU64| a.load(std::sync::atomic::Ordering::Relaxed);
    check.extra("impl2model_executions", json!(ld(&total_exec)));
    check.extra("impl2model_peer_switches", json!(ld(&switched)));
    check.extra("impl2model_partial_deliveries", json!(ld(&partials)));
    check.extra("impl2model_pending_injected", json!(ld(&pendings)));
    if !check.replaying() && (ld(&switched) == 0 || ld(&partials) == 0 || ld(&pendings) == 0) {
        check.machinery_error("vacuous: some kind of schedule deviation was never taken");
    }
}

// ---------------------------------------------------------------------------------------------
// part 3: model -> implementation
// ---------------------------------------------------------------------------------------------
fn act_of(e: &Edge) -> Option<Act> {
    Some(match e.act.as_str() {
        "SendData" => Act::Send,
        "SendUnk" => Act::Garbage,
        "Recv" | "RecvEof" => Act::Recv,
        "ReleaseReq" => Act::Release,
        "Rsp" => Act::Reply,
        "Abort" => Act::Abort,
        _ => return None, // Wait*, Drop: no script action of their own
    })
}

fn replay_path(is_async: bool, model: &Model, path: &[(u32, usize)]) -> Result<(), (usize, Value)> {
    // project the path to the two scripts
    let mut sc: [Vec<Act>; 2] = [vec![], vec![]];
    for &(n, ei) in path {
        let e = &model.succ[n as usize][ei];
        if let Some(a) = act_of(e) {
            sc[e.side].push(a);
        }
    }
    let sh = Shared::new(None, Knobs::default());
    let fails: Fails = Arc::new(Mutex::new(vec![]));
    let mut peers = start(&sh, is_async, &sc[R], &sc[A], &fails);
    let mut drv = Driver::new(&sh);
    let e1 = drv.run_phase(peers.r());
    if e1 != PhaseEnd::Complete || !fails.lock().unwrap().is_empty() {
        drv.finish(peers.r());
        peers.join();
        return Err((usize::MAX, json!({"establishment": *fails.lock().unwrap()})));
    }
    {
        let mut g = sh.lock();
        g.recording = true;
        g.fine = true;
        g.knobs = Knobs { one_pdu_per_read: true, ..Knobs::default() };
    }
    drv.release_barrier();
    // park both peers at their first action point (nothing observable happens on the way)
    drv.step(peers.r(), R);
    drv.step(peers.r(), A);
    let mut result = Ok(());
    let mut seen = 0usize;
    if !sh.lock().events.is_empty() {
        result = Err((usize::MAX, json!({"events_before_first_action": sh.lock().events.clone()})));
    }
    if result.is_ok() {
        for (i, &(n, ei)) in path.iter().enumerate() {
            let e = &model.succ[n as usize][ei];
            let s = e.side;
            let st0 = sh.lock().stat[s];
            let wants_read = matches!(e.act.as_str(), "Wait" | "WaitEof");
            let ok_state = if wants_read { st0 == Stat::AtRead } else { st0 == Stat::Ready };
            if !ok_state {
                result = Err((i, json!({"why": "peer is not where the model says", "peer_status": format!("{st0:?}"), "action": e.act, "side": side_name(s)})));
                break;
            }
            drv.step(peers.r(), s);
            if matches!(e.act.as_str(), "Recv" | "RecvEof") {
                // the receive has reached its read: serve it
                let mut guard = 0;
                while sh.lock().stat[s] == Stat::AtRead && guard < 64 {
                    drv.step(peers.r(), s);
                    guard += 1;
                }
            }
            let got: Vec<String> = sh.lock().events[seen..].to_vec();
            seen += got.len();
            if got != e.events {
                result = Err((i, json!({"why": "observations differ from the model step", "action": e.act, "side": side_name(s), "kind": e.kind,
                    "expected": e.events, "got": got})));
                break;
            }
        }
    }
    let panics = sh.lock().panics.clone();
    let trace = sh.lock().events.clone();
    drv.finish(peers.r());
    peers.join();
    if !panics.is_empty() {
        return Err((usize::MAX, json!({"panics": panics})));
    }
    if result.is_ok() && model.run(&trace).is_err() {
        return Err((usize::MAX, json!({"why": "replayed trace not accepted by the NFA built from the same graph", "trace": trace})));
    }
    result
}

fn part3(check: &Check, model: &Model) {
    let k = check.pick(6, 8);
    // all paths of <= k steps that cannot be extended within k, as (node, edge index) lists
    let mut paths: Vec<Vec<(u32, usize)>> = vec![];
    fn rec(m: &Model, n: u32, k: usize, acc: &mut Vec<(u32, usize)>, out: &mut Vec<Vec<(u32, usize)>>) {
        let nx = &m.succ[n as usize];
        if acc.len() == k || nx.is_empty() {
            out.push(acc.clone());
            return;
        }
        for (ei, e) in nx.iter().enumerate() {
            acc.push((n, ei));
            rec(m, e.dst, k, acc, out);
            acc.pop();
        }
    }
    rec(model, 0, k, &mut vec![], &mut paths);
    check.extra("model2impl_path_length", json!(k));
    check.extra("model2impl_paths", json!(paths.len()));
    let covered_states: Mutex<HashSet<u32>> = Mutex::new(HashSet::from([0]));
    let covered_edges: Mutex<HashSet<(u32, usize)>> = Mutex::new(HashSet::new());
    let validated = std::sync::atomic::AtomicU64::new(0);
    let np = paths.len() as u64;
    check.par_range(np * 2, |l: &mut Local, i| {
        let is_async = i % 2 == 1;
        let pi = (i / 2) as usize;
        let api = if is_async { "async" } else { "sync" };
        let case_id = format!("m2i/{api}/{pi}");
        if !l.want(&case_id) {
            return;
        }
        let _rt = if is_async { Some(tokio_context().enter()) } else { None };
        let path = &paths[pi];
        let labels: Vec<String> = path
            .iter()
            .map(|&(n, ei)| {
                let e = &model.succ[n as usize][ei];
                format!("{}({}{}{})", e.act, side_name(e.side), if e.kind.is_empty() { "" } else { "," }, e.kind)
            })
            .collect();
        l.eval();
        match replay_path(is_async, model, path) {
            Ok(()) => {
                validated.fetch_add(1, std::sync::atomic::Ordering::Relaxed);
                l.nontrivial(&(is_async, &labels));
                l.outcome_with("path-reproduced", || json!({"case": case_id, "path": labels}));
                let mut cs = covered_states.lock().unwrap();
                let mut ce = covered_edges.lock().unwrap();
                for &(n, ei) in path {
                    ce.insert((n, ei));
                    cs.insert(model.succ[n as usize][ei].dst);
                }
            }
            Err((step, detail)) => {
                l.outcome("path-not-reproduced");
                let (act, kind) = if step < path.len() {
                    let e = &model.succ[path[step].0 as usize][path[step].1];
                    (e.act.clone(), e.kind.clone())
                } else {
                    ("-".to_string(), "-".to_string())
                };
                l.fail(
                    &case_id,
                    json!({"part": "model2impl", "api": api, "kind": "path-not-reproduced", "action": act, "pdu": kind}),
                    json!({"path": labels, "failing_step": step, "detail": detail}),
                );
            }
        }
    });
    check.add_traces(validated.load(std::sync::atomic::Ordering::Relaxed));
    check.add_states(covered_states.lock().unwrap().len() as u64);
    check.add_transitions(covered_edges.lock().unwrap().len() as u64);
}

// ---------------------------------------------------------------------------------------------
// part 4: the real storescp binary (sync and --non-blocking) behind a lock-step raw requestor
// ---------------------------------------------------------------------------------------------
mod tool {
    use std::io::{Read, Write};
    use std::net::TcpStream;

    pub const SC_IMAGE: &str = "1.2.840.10008.5.1.4.1.1.7";
    fn ui(u: &str) -> Vec<u8> {
        let mut v = u.as_bytes().to_vec();
        if v.len() % 2 == 1 {
            v.push(0);
        }
        v
    }
    fn el(g: u16, e: u16, val: &[u8]) -> Vec<u8> {
        let mut v = vec![];
        v.extend_from_slice(&g.to_le_bytes());
        v.extend_from_slice(&e.to_le_bytes());
        v.extend_from_slice(&(val.len() as u32).to_le_bytes());
        v.extend_from_slice(val);
        v
    }
    fn command(rest: Vec<u8>) -> Vec<u8> {
        let mut v = el(0, 0, &(rest.len() as u32).to_le_bytes());
        v.extend(rest);
        v
    }
    pub fn c_echo_rq(id: u16) -> Vec<u8> {
        let mut r = el(0, 2, &ui(super::VERIFICATION));
        r.extend(el(0, 0x100, &0x0030u16.to_le_bytes()));
        r.extend(el(0, 0x110, &id.to_le_bytes()));
        r.extend(el(0, 0x800, &0x0101u16.to_le_bytes()));
        command(r)
    }
    pub fn c_store_rq(id: u16, inst: &str) -> Vec<u8> {
        let mut r = el(0, 2, &ui(SC_IMAGE));
        r.extend(el(0, 0x100, &0x0001u16.to_le_bytes()));
        r.extend(el(0, 0x110, &id.to_le_bytes()));
        r.extend(el(0, 0x700, &0u16.to_le_bytes()));
        r.extend(el(0, 0x800, &0x0001u16.to_le_bytes()));
        r.extend(el(0, 0x1000, &ui(inst)));
        command(r)
    }
    pub fn dataset(inst: &str) -> Vec<u8> {
        let mut r = el(8, 0x16, &ui(SC_IMAGE));
        r.extend(el(8, 0x18, &ui(inst)));
        r
    }
    pub fn pdu(t: u8, body: &[u8]) -> Vec<u8> {
        let mut v = vec![t, 0];
        v.extend_from_slice(&(body.len() as u32).to_be_bytes());
        v.extend_from_slice(body);
        v
    }
    pub fn pdata(pc: u8, is_command: bool, data: &[u8]) -> Vec<u8> {
        let mut b = vec![];
        b.extend_from_slice(&(data.len() as u32 + 2).to_be_bytes());
        b.push(pc);
        b.push(if is_command { 3 } else { 2 });
        b.extend_from_slice(data);
        pdu(4, &b)
    }
    fn item(t: u8, d: &[u8]) -> Vec<u8> {
        let mut v = vec![t, 0];
        v.extend_from_slice(&(d.len() as u16).to_be_bytes());
        v.extend_from_slice(d);
        v
    }
    pub fn associate_rq() -> Vec<u8> {
        let mut b = vec![0, 1, 0, 0];
        b.extend_from_slice(format!("{:<16}", "ANY-SCP").as_bytes());
        b.extend_from_slice(format!("{:<16}", "RAW-SCU").as_bytes());
        b.extend_from_slice(&[0u8; 32]);
        b.extend(item(0x10, b"1.2.840.10008.3.1.1.1"));
        for (id, abs) in [(1u8, super::VERIFICATION), (3u8, SC_IMAGE)] {
            let mut pc = vec![id, 0, 0, 0];
            pc.extend(item(0x30, abs.as_bytes()));
            pc.extend(item(0x40, b"1.2.840.10008.1.2"));
            b.extend(item(0x20, &pc));
        }
        let mut ui_ = item(0x51, &16384u32.to_be_bytes());
        ui_.extend(item(0x52, b"1.2.826.0.1.3680043.2.1143.999"));
        b.extend(item(0x50, &ui_));
        pdu(1, &b)
    }
    /// Ok(Some(type)) for a PDU, Ok(None) when the peer closed (EOF or reset)
    pub fn read_pdu(s: &mut TcpStream) -> Result<Option<(u8, Vec<u8>)>, String> {
        let mut h = [0u8; 6];
        let mut got = 0;
        while got < 6 {
            match s.read(&mut h[got..]) {
                Ok(0) => return if got == 0 { Ok(None) } else { Err("end of stream inside a PDU header".into()) },
                Ok(n) => got += n,
                Err(e) if e.kind() == std::io::ErrorKind::ConnectionReset => return Ok(None),
                Err(e) => return Err(format!("read: {e}")),
            }
        }
        let len = u32::from_be_bytes([h[2], h[3], h[4], h[5]]) as usize;
        let mut body = vec![0u8; len];
        s.read_exact(&mut body).map_err(|e| format!("read body: {e}"))?;
        Ok(Some((h[0], body)))
    }
    pub fn send(s: &mut TcpStream, b: &[u8]) -> Result<(), String> {
        s.write_all(b).map_err(|e| format!("write: {e}"))
    }
}

/// all words: <= 3 letters of {E = C-ECHO, S = small C-STORE, G = garbage PDU}, then one of
/// {Q = A-RELEASE-RQ, B = A-ABORT, X = close}
fn tool_words() -> Vec<String> {
    let mut pre = vec![String::new()];
    let mut last = vec![String::new()];
    for _ in 0..3 {
        let mut nx = vec![];
        for p in &last {
            for c in ['E', 'S', 'G'] {
                nx.push(format!("{p}{c}"));
            }
        }
        pre.extend(nx.iter().cloned());
        last = nx;
    }
    let mut out = vec![];
    for p in pre {
        for t in ['Q', 'B', 'X'] {
            out.push(format!("{p}{t}"));
        }
    }
    out
}

/// run one word against the server; returns (wire-level trace, expectations that failed)
fn tool_word(port: u16, word: &str, serial: u32) -> Result<(Vec<String>, Vec<String>), String> {
    use std::net::{Shutdown, TcpStream};
    let mut s = TcpStream::connect(("127.0.0.1", port)).map_err(|e| format!("connect: {e}"))?;
    s.set_read_timeout(Some(std::time::Duration::from_secs(10))).ok();
    s.set_nodelay(true).ok();
    tool::send(&mut s, &tool::associate_rq())?;
    match tool::read_pdu(&mut s)? {
        Some((2, _)) => {}
        other => return Err(format!("no A-ASSOCIATE-AC: {:?}", other.map(|p| p.0))),
    }
    let mut trace: Vec<String> = vec![];
    let mut wrong: Vec<String> = vec![];
    let kind = |t: u8| pdu_kind(t);
    let mut expect = |s: &mut TcpStream, trace: &mut Vec<String>, wrong: &mut Vec<String>, what: &str, after: &str| -> Result<(), String> {
        let got = tool::read_pdu(s)?;
        let g = match &got {
            Some((t, _)) => {
                trace.push(format!("put(A,{})", kind(*t)));
                kind(*t).to_string()
            }
            None => {
                trace.push("close(A)".into());
                "EOF".to_string()
            }
        };
        if g != what {
            wrong.push(format!("after {after}: expected {what} from the SCP, got {g}"));
        }
        Ok(())
    };
    for (i, c) in word.chars().enumerate() {
        let id = (i + 1) as u16;
        match c {
            'E' => {
                tool::send(&mut s, &tool::pdata(1, true, &tool::c_echo_rq(id)))?;
                trace.push("put(R,DATA)".into());
                expect(&mut s, &mut trace, &mut wrong, "DATA", "C-ECHO-RQ")?;
            }
            'S' => {
                let inst = format!("1.2.3.{serial}.{i}");
                tool::send(&mut s, &tool::pdata(3, true, &tool::c_store_rq(id, &inst)))?;
                trace.push("put(R,DATA)".into());
                tool::send(&mut s, &tool::pdata(3, false, &tool::dataset(&inst)))?;
                trace.push("put(R,DATA)".into());
                expect(&mut s, &mut trace, &mut wrong, "DATA", "C-STORE-RQ")?;
            }
            'G' => {
                tool::send(&mut s, &tool::pdu(0x99, &[1, 2, 3, 4]))?;
                trace.push("put(R,UNK)".into());
            }
            'Q' => {
                tool::send(&mut s, &tool::pdu(5, &[0, 0, 0, 0]))?;
                trace.push("put(R,RRQ)".into());
                // (I4) the next emission of the acceptor is the release reply, then nothing but the close
                expect(&mut s, &mut trace, &mut wrong, "RRP", "A-RELEASE-RQ")?;
                if wrong.is_empty() {
                    expect(&mut s, &mut trace, &mut wrong, "EOF", "A-RELEASE-RP")?;
                }
                let _ = s.shutdown(Shutdown::Both);
                trace.push("close(R)".into());
            }
            'B' => {
                tool::send(&mut s, &tool::pdu(7, &[0, 0, 2, 0]))?;
                trace.push("put(R,ABORT)".into());
                let _ = s.shutdown(Shutdown::Write);
                trace.push("close(R)".into());
                expect(&mut s, &mut trace, &mut wrong, "EOF", "A-ABORT")?;
            }
            _ => {
                let _ = s.shutdown(Shutdown::Write);
                trace.push("close(R)".into());
                expect(&mut s, &mut trace, &mut wrong, "EOF", "close")?;
            }
        }
    }
    Ok((trace, wrong))
}

struct Server {
    child: std::process::Child,
    port: u16,
}
impl Drop for Server {
    fn drop(&mut self) {
        let _ = self.child.kill();
        let _ = self.child.wait();
    }
}
fn start_storescp(check: &Check, non_blocking: bool, out: &std::path::Path) -> Result<Server, String> {
    let tgt = std::env::var("VERIF_TARGET").map(std::path::PathBuf::from).unwrap_or_else(|_| check.verif_root().join("target"));
    let exe = tgt.join("repo/release/dicom-storescp");
    if !exe.is_file() {
        return Err(format!("{} not found (pre-step did not build the tools?)", exe.display()));
    }
    // Port choice, spawn and readiness probe are serialised: two servers started at the same time could
    // otherwise be handed the same free port, and the probe of one would be answered by the other.
    static START: std::sync::Mutex<()> = std::sync::Mutex::new(());
    let _guard = START.lock().unwrap_or_else(|e| e.into_inner());
    for _attempt in 0..5 {
        let port = std::net::TcpListener::bind("127.0.0.1:0").and_then(|l| l.local_addr()).map_err(|e| e.to_string())?.port();
        let mut cmd = std::process::Command::new(&exe);
        cmd.arg("-p").arg(port.to_string()).arg("-o").arg(out);
        if non_blocking {
            cmd.arg("--non-blocking");
        }
        cmd.stdout(std::process::Stdio::null()).stderr(std::process::Stdio::null());
        let mut srv = Server { child: cmd.spawn().map_err(|e| format!("spawn: {e}"))?, port };
        for _ in 0..400 {
            if let Ok(Some(_)) = srv.child.try_wait() {
                break; // port taken meanwhile: try another
            }
            if std::net::TcpStream::connect(("127.0.0.1", port)).is_ok() {
                // the answer must come from OUR child: it has to be still alive a moment later
                std::thread::sleep(std::time::Duration::from_millis(50));
                if let Ok(None) = srv.child.try_wait() {
                    return Ok(srv);
                }
                break;
            }
            std::thread::sleep(std::time::Duration::from_millis(25));
        }
    }
    Err("storescp did not start listening".into())
}

/// epsilon-NFA run: only put(..) and close(..) are visible on the wire
fn wire_accepts(model: &Model, trace: &[String]) -> Result<bool, usize> {
    let visible = |e: &str| e.starts_with("put(") || e.starts_with("close(");
    // adjacency by source
    let mut by_src: HashMap<u32, Vec<(&String, &Vec<u32>)>> = HashMap::new();
    for ((q, e), v) in &model.nfa {
        by_src.entry(*q).or_default().push((e, v));
    }
    let closure = |set: &mut HashSet<u32>| {
        let mut stack: Vec<u32> = set.iter().copied().collect();
        while let Some(q) = stack.pop() {
            if let Some(es) = by_src.get(&q) {
                for (e, v) in es {
                    if !visible(e) {
                        for &d in *v {
                            if set.insert(d) {
                                stack.push(d);
                            }
                        }
                    }
                }
            }
        }
    };
    let mut cur: HashSet<u32> = HashSet::from([0]);
    closure(&mut cur);
    for (i, ev) in trace.iter().enumerate() {
        let mut nxt = HashSet::new();
        for &q in &cur {
            if let Some(v) = model.nfa.get(&(q, ev.clone())) {
                nxt.extend(v.iter().copied());
            }
        }
        if nxt.is_empty() {
            return Err(i);
        }
        closure(&mut nxt);
        cur = nxt;
    }
    Ok(cur.iter().any(|q| model.final_.contains(q)))
}

fn part4(check: &Check, scp: &Model) {
    let words = tool_words();
    check.extra("tool_words", json!(words.len()));
    let scratch = check.scratch_dir();
    let done = std::sync::atomic::AtomicU64::new(0);
    check.par_range(2, |l: &mut Local, m| {
        let non_blocking = m == 1;
        let mode = if non_blocking { "non-blocking" } else { "sync" };
        if l.check.replaying() && !l.check.replay.as_ref().and_then(|r| r["case_id"].as_str()).map(|c| c.starts_with(&format!("tool/{mode}/"))).unwrap_or(false) {
            return;
        }
        let out = scratch.join(mode);
        let _ = std::fs::create_dir_all(&out);
        let mut srv = match start_storescp(l.check, non_blocking, &out) {
            Ok(s) => s,
            Err(e) => {
                l.check.machinery_error(&format!("storescp ({mode}): {e}"));
                return;
            }
        };
        for (wi, w) in words.iter().enumerate() {
            let case_id = format!("tool/{mode}/{w}");
            if !l.want(&case_id) {
                continue;
            }
            l.eval();
            let mut res = tool_word(srv.port, w, wi as u32);
            if res.is_err() {
                // environment or verdict? run the word once more against a FRESH server process; only a
                // failure that reproduces there is attributed to the word
                match start_storescp(l.check, non_blocking, &out) {
                    Ok(s) => {
                        srv = s;
                        l.outcome("tool-word-retried-on-fresh-server");
                        res = tool_word(srv.port, w, wi as u32);
                    }
                    Err(e) => {
                        l.check.machinery_error(&format!("storescp ({mode}) restart: {e}"));
                        return;
                    }
                }
            }
            match res {
                Err(e) => {
                    l.outcome("tool-no-answer");
                    l.fail(&case_id, json!({"part": "tool", "mode": mode, "kind": "scp-stopped-answering", "last": w.chars().last().map(|c| c.to_string())}), json!({"word": w, "error": e}));
                }
                Ok((trace, wrong)) => {
                    l.nontrivial(&(mode, w));
                    if l.check.verbose {
                        eprintln!("{case_id}: {trace:?} {wrong:?}");
                    }
                    let acc = wire_accepts(scp, &trace);
                    if !wrong.is_empty() {
                        l.outcome("tool-unexpected-reply");
                        l.fail(&case_id, json!({"part": "tool", "mode": mode, "kind": "scp-reply-not-as-required", "last": w.chars().last().map(|c| c.to_string())}), json!({"word": w, "trace": trace, "wrong": wrong}));
                    } else if acc != Ok(true) {
                        l.outcome("tool-trace-rejected");
                        l.fail(&case_id, json!({"part": "tool", "mode": mode, "kind": "wire-trace-not-a-model-behaviour"}), json!({"word": w, "trace": trace, "automaton": format!("{acc:?}")}));
                    } else {
                        done.fetch_add(1, std::sync::atomic::Ordering::Relaxed);
                        l.outcome_with("tool-trace-accepted", || json!({"case": case_id, "trace": trace}));
                    }
                }
            }
        }
        drop(srv);
    });
    let _ = std::fs::remove_dir_all(&scratch);
    check.extra("tool_traces_accepted", json!(done.load(std::sync::atomic::Ordering::Relaxed)));
}

fn main() {
    tune_allocator();
    let check = Check::from_args("C30", Level::ModelChecking);
    let model = Model::load(check.verif_root(), "assoc.json");
    let scp_model = Model::load(check.verif_root(), "assoc_scp.json");
    check.set_rule(
        "Part 1: TLC explores tla/Assoc.tla (two peers, FIFO channels, <= 4 API actions per side, PDU kinds DATA/RRQ/RRP/ABORT/unknown) completely and checks \
         invariants I1-I5 in general and in conforming-SCP mode (one run, the initial state fixes the mode; pre-step; numbers under `tlc`). \
         Part 2: every pair of scripts of <= 3 (quick) / 4 (thorough) actions per side over {send P-DATA, send a PDU of unknown type (at most once), receive, reply to a release \
         request, release(), abort(); then drop} x {sync, async API} x every schedule with <= 2 (quick) / 3 (thorough) deviations \
         (other peer first, 1-byte delivery, Pending at a write/shutdown); an execution is one evaluation; it is non-trivial \
         when it produced an event trace, distinct by (api, trace); each trace must be a behaviour of the automaton built \
         from TLC's dumped graph. Part 3: every path of that graph of <= 6 (quick) / 8 (thorough) steps that cannot be \
         extended within the bound is replayed step by step on real associations and must produce exactly the model's \
         events in every step (traces_validated_against_impl). `states`/`transitions` are the distinct model states and \
         transitions the Rust side actually drove the implementation through in part 3; TLC's own totals are under `tlc`. \
         Part 4: the real storescp binary (sync and --non-blocking) is driven over loopback TCP by a lock-step raw requestor \
         with every word of <= 3 letters over {C-ECHO, small C-STORE, garbage PDU} followed by {A-RELEASE-RQ, A-ABORT, close}; \
         each reply must be the required one (release request answered by the release reply as the next emission, then the \
         close; nothing after an abort) and the wire trace must be accepted by the conforming-SCP automaton (puts and closes \
         visible, everything else silent).",
    );
    check.assume("the in-memory duplex stands for TCP: ordered, lossless until a side closes; a write towards a closed side succeeds and is lost");
    check.assume("the application driving a side lets the association go after an A-ABORT, an end of stream, an error, and after replying to a release request");
    check.assume("part 4: lock-step exchange over loopback TCP makes the wire content deterministic; the order in which the raw requestor observes PDUs is a linearisation of the two directions");
    check.assume("TLC's state graph dump is faithful; tla/graph2nfa.py maps each model action to the event list documented there");
    if model.tlc.get("no_error").and_then(|b| b.as_bool()) != Some(true) {
        check.machinery_error("TLC log does not report a clean run");
    }
    check.extra("tlc", json!({
        "run": model.tlc,
        "general_mode": {"states": model.n_states, "transitions": model.n_trans},
        "conforming_scp_mode": {"states": scp_model.n_states, "transitions": scp_model.n_trans},
        "invariants": ["TypeOK", "I1", "I2", "I3", "I4", "I5"],
    }));
    part2(&check, &model);
    part3(&check, &model);
    part4(&check, &scp_model);
    check.finish();
}
