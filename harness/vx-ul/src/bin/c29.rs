//! C29 — requestor and acceptor agree on the association and respect PDU limits (DESIGN.md C29).
//!
//! Real `ClientAssociationOptions` x `ServerAssociationOptions` (sync pair and async pair) are joined
//! by the in-memory duplex through the generic-transport hooks (DESIGN 4.3) under the two-party
//! scheduler; establishment and the following sends / receives are explored with <= 1 schedule
//! deviation (which peer runs, how a read is segmented, Pending at an async write). The oracle uses
//! only the *configured* values and what is on the wire (own A-ASSOCIATE parser below).
//! A fixed deterministic subset also goes through the real `establish` / `establish_async` over
//! loopback TCP behind a PDU-wise recording relay; negotiated state and wire bytes must equal the twin's.
#[path = "../twoparty.rs"]
mod twoparty;

use dicom_ul::association::client::ClientAssociationOptions;
use dicom_ul::association::server::{AcceptAny, Negotiation, ServerAssociationOptions};
use dicom_ul::association::{Association, AsyncAssociation, Error as AErr, SyncAssociation};
use dicom_ul::pdu::{
    ReadError, PDataValue, PDataValueType, Pdu, PresentationContextResultReason, RequestorRoles, MAXIMUM_PDU_SIZE,
};
use std::collections::{BTreeSet, HashSet};
use std::io::{Read, Write};
use std::sync::atomic::{AtomicU64, Ordering};
use std::sync::{Arc, Mutex};
use twoparty::*;
use vx_kit::{explore, json, Check, Ctx, Level, Local, Value};

const ABS_A: &str = "1.2.840.10008.1.1";
const ABS_B: &str = "1.2.840.10008.5.1.4.1.1.7";
const TS_I: &str = "1.2.840.10008.1.2";
const TS_E: &str = "1.2.840.10008.1.2.1";
/// registered, but not supported in this build (registry without the deflate feature)
const TS_D: &str = "1.2.840.10008.1.2.1.99";
const TS_X: &str = "1.9.9";
/// smallest maximum the library's PDU reader admits (PS3.8 allows any; documented as MINIMUM_PDU_SIZE)
const MIN_OWN: u32 = 1018;

/// what the options builders document: larger values are silently truncated to MAXIMUM_PDU_SIZE
fn eff(v: u32) -> u32 {
    v.min(MAXIMUM_PDU_SIZE)
}
/// the maximum the peer has to respect: 0 means "the largest supported"
fn norm(v: u32) -> u32 {
    if v == 0 { MAXIMUM_PDU_SIZE } else { eff(v) }
}
/// can the side's own PDU reader work with this configured maximum?
fn own_valid(v: u32) -> bool {
    eff(v) >= MIN_OWN
}

#[derive(Clone, Debug)]
struct CliCfg {
    pcs: Vec<(String, Vec<String>)>,
    max: u32,
    strict: bool,
    ext: bool,
    role: bool,
}
#[derive(Clone, Debug)]
struct SrvCfg {
    abs: Vec<String>,
    ts: Vec<String>,
    promiscuous: bool,
    max: u32,
    strict: bool,
    echo: bool,
}
#[derive(Clone, Copy, Debug, PartialEq, Eq)]
enum Post {
    /// send one P-DATA PDU whose length field is the peer's configured maximum + delta
    Rel(i32),
    /// send one P-DATA PDU with this length field
    Abs(u32),
    /// send_pdata with this payload: 0 / 1 / 2 * peer maximum + 3 (marker u32::MAX)
    Pdata(u32),
}
#[derive(Clone, Debug)]
struct Case {
    fam: &'static str,
    id: String,
    cli: CliCfg,
    srv: SrvCfg,
    post: [Vec<Post>; 2],
}

#[derive(Clone, Copy, Debug)]
struct Neg {
    echo: bool,
}
impl Negotiation for Neg {
    fn extended_negotiation(&self, _sop: &str, input: &[u8]) -> Option<Vec<u8>> {
        if self.echo { Some(input.to_vec()) } else { None }
    }
    fn negotiate_roles(&self, _sop: &str, scu: bool, scp: bool) -> Option<RequestorRoles> {
        if self.echo { Some(RequestorRoles { scu, scp }) } else { None }
    }
}

fn client_opts(c: &CliCfg) -> ClientAssociationOptions<'static> {
    let mut o = ClientAssociationOptions::new().max_pdu_length(c.max).strict(c.strict);
    for (a, ts) in &c.pcs {
        o = o.with_presentation_context(a.clone(), ts.clone());
    }
    if c.ext {
        o = o.with_extended_negotiation(ABS_A.to_string(), vec![1u8, 0, 1]);
    }
    if c.role {
        o = o.with_role_selection(ABS_A.to_string(), true, true);
    }
    o
}
type SrvOpts = ServerAssociationOptions<'static, AcceptAny, Neg>;
fn server_opts(c: &SrvCfg) -> SrvOpts {
    let mut o = ServerAssociationOptions::new()
        .with_negotiation(Neg { echo: c.echo })
        .max_pdu_length(c.max)
        .strict(c.strict)
        .promiscuous(c.promiscuous);
    for a in &c.abs {
        o = o.with_abstract_syntax(a.clone());
    }
    for t in &c.ts {
        o = o.with_transfer_syntax(t.clone());
    }
    o
}

// ---------------------------------------------------------------------------------------------
// what a side reports
// ---------------------------------------------------------------------------------------------
#[derive(Clone, Debug, PartialEq, Eq, Default)]
struct Negot {
    /// accepted contexts only: (id, abstract syntax, transfer syntax), in the side's order
    accepted: Vec<(u8, String, String)>,
    acceptor_max: u32,
    requestor_max: u32,
    user_vars: Vec<String>,
}
fn negot_of<T: Association>(a: &T) -> Negot {
    Negot {
        accepted: a
            .presentation_contexts()
            .iter()
            .filter(|p| p.reason == PresentationContextResultReason::Acceptance)
            .map(|p| (p.id, p.abstract_syntax.clone(), p.transfer_syntax.clone()))
            .collect(),
        acceptor_max: a.acceptor_max_pdu_length(),
        requestor_max: a.requestor_max_pdu_length(),
        user_vars: a.user_variables().iter().map(|u| format!("{u:?}")).collect(),
    }
}
fn err_class(e: &AErr) -> String {
    match e {
        AErr::NoAcceptedPresentationContexts { .. } => "NoAcceptedPresentationContexts".into(),
        AErr::MissingAbstractSyntax { .. } => "MissingAbstractSyntax".into(),
        AErr::Rejected { .. } => "Rejected".into(),
        AErr::Aborted { .. } => "Aborted".into(),
        AErr::ConnectionClosed { .. } => "ConnectionClosed".into(),
        AErr::SendTooLongPdu { .. } => "SendTooLongPdu".into(),
        AErr::UnexpectedPdu { .. } => "UnexpectedPdu".into(),
        AErr::UnknownPdu { .. } => "UnknownPdu".into(),
        AErr::ReceivePdu { source } => format!("ReceivePdu:{}", match source {
            ReadError::InvalidMaxPdu { .. } => "InvalidMaxPdu".to_string(),
            ReadError::PduTooLarge { .. } => "PduTooLarge".to_string(),
            ReadError::ReadPdu { .. } => "ReadPdu".to_string(),
            // Display only: Debug would resolve the captured backtrace
            other => words(&other.to_string()),
        }),
        AErr::SendPdu { .. } => "SendPdu".into(),
        AErr::WireSend { .. } => "WireSend".into(),
        AErr::WireRead { .. } => "WireRead".into(),
        AErr::ProtocolVersionMismatch { .. } => "ProtocolVersionMismatch".into(),
        other => words(&other.to_string()),
    }
}
fn words(s: &str) -> String {
    s.split_whitespace().take(4).collect::<Vec<_>>().join("-")
}

#[derive(Clone, Debug)]
struct ActRes {
    what: &'static str,
    /// length field asked for (send) / payload (send_pdata)
    size: u64,
    class: String,
    put_pdus: usize,
    put_bytes: usize,
}
#[derive(Default, Debug)]
struct SideRes {
    est: Option<Result<Negot, String>>,
    acts: Vec<ActRes>,
    /// results of the draining receives: Ok(PDU length field) / Err(class)
    recv: Vec<Result<u32, String>>,
    expected_recv: usize,
}
type Res = Arc<Mutex<[SideRes; 2]>>;

fn data_pdu_of_len(pc: u8, len: u32) -> Pdu {
    // length field = 4 (PDV length) + 2 (context id, control header) + data
    Pdu::PData {
        data: vec![PDataValue {
            presentation_context_id: pc,
            value_type: PDataValueType::Data,
            is_last: true,
            data: vec![0xA5; (len as usize).saturating_sub(6)],
        }],
    }
}
/// the concrete size of a post action, from the *configured* maximum of the receiving side
fn resolve(p: Post, peer_cfg_max: u32) -> (bool, u32) {
    let m = norm(peer_cfg_max);
    let big = m > (1 << 20);
    match p {
        Post::Rel(d) if big => (false, match d { -1 => 1017, 0 => 16_379, 1 => 65_542, _ => 70_000 }),
        Post::Rel(d) => (false, (m as i64 + d as i64) as u32),
        Post::Abs(v) => (false, v),
        Post::Pdata(u32::MAX) => (true, if big { 40_003 } else { 2 * m + 3 }),
        Post::Pdata(n) => (true, n),
    }
}
fn wire_mark(sh: &Arc<Shared>, s: usize) -> (usize, usize) {
    let g = sh.lock();
    (g.dirs[s].pdus.len(), g.dirs[s].wire.len())
}
fn first_accepted<T: Association>(a: &T) -> u8 {
    a.presentation_contexts()
        .iter()
        .find(|p| p.reason == PresentationContextResultReason::Acceptance)
        .map(|p| p.id)
        .unwrap_or(1)
}
fn data_pdus_on(sh: &Arc<Shared>, s: usize) -> usize {
    sh.lock().dirs[s].pdus.iter().filter(|p| p.0 == 4).count()
}

fn post_sync<T: SyncAssociation<SyncEnd>>(sh: &Arc<Shared>, s: usize, a: &mut T, post: &[Post], peer_cfg_max: u32, res: &Res) {
    let pc = first_accepted(a);
    for &p in post {
        let (is_pdata, size) = resolve(p, peer_cfg_max);
        let m0 = wire_mark(sh, s);
        let class = if is_pdata {
            let payload = vec![0x3Cu8; size as usize];
            let mut w = SyncAssociation::send_pdata(a, pc);
            let r = w.write_all(&payload).and_then(|_| w.finish());
            match r {
                Ok(()) => "Ok".to_string(),
                Err(e) => format!("Io:{:?}", e.kind()),
            }
        } else {
            match SyncAssociation::send(a, &data_pdu_of_len(pc, size)) {
                Ok(()) => "Ok".to_string(),
                Err(e) => err_class(&e),
            }
        };
        let m1 = wire_mark(sh, s);
        res.lock().unwrap()[s].acts.push(ActRes {
            what: if is_pdata { "send_pdata" } else { "send" },
            size: size as u64,
            class,
            put_pdus: m1.0 - m0.0,
            put_bytes: m1.1 - m0.1,
        });
    }
}
fn drain_sync<T: SyncAssociation<SyncEnd>>(sh: &Arc<Shared>, s: usize, a: &mut T, res: &Res) {
    let n = data_pdus_on(sh, other(s));
    res.lock().unwrap()[s].expected_recv = n;
    for _ in 0..n {
        let r = SyncAssociation::receive(a);
        let stop = r.is_err();
        res.lock().unwrap()[s].recv.push(match r {
            Ok(Pdu::PData { data }) => Ok(data.iter().map(|d| d.data.len() as u32 + 6).sum::<u32>()),
            Ok(p) => Err(format!("other PDU: {}", p.short_description())),
            Err(e) => Err(err_class(&e)),
        });
        if stop {
            break;
        }
    }
}
async fn post_async<T: AsyncAssociation<AsyncEnd> + Send>(sh: &Arc<Shared>, s: usize, a: &mut T, post: &[Post], peer_cfg_max: u32, res: &Res) {
    use tokio::io::AsyncWriteExt;
    let pc = first_accepted(a);
    for &p in post {
        let (is_pdata, size) = resolve(p, peer_cfg_max);
        let m0 = wire_mark(sh, s);
        let class = if is_pdata {
            let payload = vec![0x3Cu8; size as usize];
            let mut w = AsyncAssociation::send_pdata(a, pc);
            let r = match w.write_all(&payload).await {
                Ok(()) => w.finish().await,
                Err(e) => Err(e),
            };
            match r {
                Ok(()) => "Ok".to_string(),
                Err(e) => format!("Io:{:?}", e.kind()),
            }
        } else {
            match AsyncAssociation::send(a, &data_pdu_of_len(pc, size)).await {
                Ok(()) => "Ok".to_string(),
                Err(e) => err_class(&e),
            }
        };
        let m1 = wire_mark(sh, s);
        res.lock().unwrap()[s].acts.push(ActRes {
            what: if is_pdata { "send_pdata" } else { "send" },
            size: size as u64,
            class,
            put_pdus: m1.0 - m0.0,
            put_bytes: m1.1 - m0.1,
        });
    }
}
async fn drain_async<T: AsyncAssociation<AsyncEnd> + Send>(sh: &Arc<Shared>, s: usize, a: &mut T, res: &Res) {
    let n = data_pdus_on(sh, other(s));
    res.lock().unwrap()[s].expected_recv = n;
    for _ in 0..n {
        let r = AsyncAssociation::receive(a).await;
        let stop = r.is_err();
        res.lock().unwrap()[s].recv.push(match r {
            Ok(Pdu::PData { data }) => Ok(data.iter().map(|d| d.data.len() as u32 + 6).sum::<u32>()),
            Ok(p) => Err(format!("other PDU: {}", p.short_description())),
            Err(e) => Err(err_class(&e)),
        });
        if stop {
            break;
        }
    }
}

enum Peers {
    Sync(SyncPeers),
    Async(AsyncPeers),
}
impl Peers {
    fn r(&mut self) -> &mut dyn Resume {
        match self {
            Peers::Sync(p) => p,
            Peers::Async(p) => p,
        }
    }
    fn join(self) {
        if let Peers::Sync(p) = self {
            p.join()
        }
    }
}

fn start(sh: &Arc<Shared>, is_async: bool, case: &Case, res: &Res) -> Peers {
    let (cmax, smax) = (case.cli.max, case.srv.max);
    if !is_async {
        let mut peers = SyncPeers::new(sh);
        let (sh1, c1, r1) = (sh.clone(), case.clone(), res.clone());
        peers.spawn(R, Box::new(move |end| match client_opts(&c1.cli).verif_establish_over(end) {
            Ok(mut a) => {
                r1.lock().unwrap()[R].est = Some(Ok(negot_of(&a)));
                sh1.barrier(R);
                post_sync(&sh1, R, &mut a, &c1.post[R], smax, &r1);
                sh1.barrier(R);
                drain_sync(&sh1, R, &mut a, &r1);
            }
            Err(e) => r1.lock().unwrap()[R].est = Some(Err(err_class(&e))),
        }));
        let (sh2, c2, r2) = (sh.clone(), case.clone(), res.clone());
        peers.spawn(A, Box::new(move |end| match server_opts(&c2.srv).verif_establish_over(end) {
            Ok(mut a) => {
                r2.lock().unwrap()[A].est = Some(Ok(negot_of(&a)));
                sh2.barrier(A);
                post_sync(&sh2, A, &mut a, &c2.post[A], cmax, &r2);
                sh2.barrier(A);
                drain_sync(&sh2, A, &mut a, &r2);
            }
            Err(e) => r2.lock().unwrap()[A].est = Some(Err(err_class(&e))),
        }));
        Peers::Sync(peers)
    } else {
        let (sh1, c1, r1) = (sh.clone(), case.clone(), res.clone());
        let fr: PeerFut = Box::pin(async move {
            let end = AsyncEnd::new(sh1.clone(), R);
            match client_opts(&c1.cli).verif_establish_over_async(end).await {
                Ok(mut a) => {
                    r1.lock().unwrap()[R].est = Some(Ok(negot_of(&a)));
                    sh1.barrier_async(R).await;
                    post_async(&sh1, R, &mut a, &c1.post[R], smax, &r1).await;
                    sh1.barrier_async(R).await;
                    drain_async(&sh1, R, &mut a, &r1).await;
                }
                Err(e) => r1.lock().unwrap()[R].est = Some(Err(err_class(&e))),
            }
        });
        let (sh2, c2, r2) = (sh.clone(), case.clone(), res.clone());
        let fa: PeerFut = Box::pin(async move {
            let end = AsyncEnd::new(sh2.clone(), A);
            let opts = server_opts(&c2.srv);
            match opts.verif_establish_over_async(end).await {
                Ok(mut a) => {
                    r2.lock().unwrap()[A].est = Some(Ok(negot_of(&a)));
                    sh2.barrier_async(A).await;
                    post_async(&sh2, A, &mut a, &c2.post[A], cmax, &r2).await;
                    sh2.barrier_async(A).await;
                    drain_async(&sh2, A, &mut a, &r2).await;
                }
                Err(e) => r2.lock().unwrap()[A].est = Some(Err(err_class(&e))),
            }
        });
        Peers::Async(AsyncPeers::new(sh, fr, fa))
    }
}

// ---------------------------------------------------------------------------------------------
// own reading of A-ASSOCIATE-RQ / -AC from the wire (PS3.8 9.3.2, 9.3.3)
// ---------------------------------------------------------------------------------------------
#[derive(Default, Debug, Clone)]
struct WireAssoc {
    /// RQ: (id, abstract syntax); AC: (id, reason, transfer syntax)
    rq_pcs: Vec<(u8, String)>,
    ac_pcs: Vec<(u8, u8, String)>,
    max_len: Option<u32>,
}
fn uid(b: &[u8]) -> String {
    String::from_utf8_lossy(b).trim_end_matches(['\0', ' ']).to_string()
}
fn items(mut b: &[u8]) -> Vec<(u8, &[u8])> {
    let mut v = vec![];
    while b.len() >= 4 {
        let l = u16::from_be_bytes([b[2], b[3]]) as usize;
        if b.len() < 4 + l {
            break;
        }
        v.push((b[0], &b[4..4 + l]));
        b = &b[4 + l..];
    }
    v
}
fn parse_assoc(body: &[u8]) -> WireAssoc {
    let mut w = WireAssoc::default();
    if body.len() < 68 {
        return w;
    }
    for (t, d) in items(&body[68..]) {
        match t {
            0x20 if d.len() >= 4 => {
                let abs = items(&d[4..]).iter().find(|i| i.0 == 0x30).map(|i| uid(i.1)).unwrap_or_default();
                w.rq_pcs.push((d[0], abs));
            }
            0x21 if d.len() >= 4 => {
                let ts = items(&d[4..]).iter().find(|i| i.0 == 0x40).map(|i| uid(i.1)).unwrap_or_default();
                w.ac_pcs.push((d[0], d[2], ts));
            }
            0x50 => {
                for (st, sd) in items(d) {
                    if st == 0x51 && sd.len() == 4 {
                        w.max_len = Some(u32::from_be_bytes([sd[0], sd[1], sd[2], sd[3]]));
                    }
                }
            }
            _ => {}
        }
    }
    w
}
// ---------------------------------------------------------------------------------------------
// one execution + oracle
// ---------------------------------------------------------------------------------------------
struct Exec {
    res: [SideRes; 2],
    panics: Vec<String>,
    ends: Vec<PhaseEnd>,
    clean: bool,
    wire: [Vec<u8>; 2],
    pdus: [Vec<(u8, u32, usize)>; 2],
    steps: u64,
    stats: (u64, u64, u64),
    states: Vec<u64>,
}

fn execute(is_async: bool, case: &Case, ctx: Option<Ctx>, knobs: Knobs) -> Exec {
    let sh = Shared::new(ctx, knobs);
    sh.lock().state_log = Some(vec![]);
    let res: Res = Arc::new(Mutex::new([SideRes::default(), SideRes::default()]));
    let mut peers = start(&sh, is_async, case, &res);
    let mut drv = Driver::new(&sh);
    let mut ends = vec![];
    for phase in 0..3 {
        let e = drv.run_phase(peers.r());
        ends.push(e);
        if e != PhaseEnd::Complete {
            break;
        }
        if phase < 2 {
            drv.release_barrier();
        }
    }
    let clean = drv.finish(peers.r());
    peers.join();
    let mut g = sh.lock();
    let r = std::mem::take(&mut *res.lock().unwrap());
    Exec {
        res: r,
        panics: g.panics.clone(),
        ends,
        clean,
        wire: [std::mem::take(&mut g.dirs[0].wire), std::mem::take(&mut g.dirs[1].wire)],
        pdus: [g.dirs[0].pdus.clone(), g.dirs[1].pdus.clone()],
        steps: g.n_steps,
        stats: (g.n_switch, g.n_partial, g.n_pending),
        states: g.state_log.take().unwrap_or_default(),
    }
}

/// (kind, detail) of every violated claim
fn oracle(case: &Case, x: &Exec) -> Vec<(String, Value)> {
    let mut bad: Vec<(String, Value)> = vec![];
    if !x.panics.is_empty() {
        bad.push(("panic".into(), json!(x.panics)));
        return bad;
    }
    if x.ends.iter().any(|e| *e != PhaseEnd::Complete) || !x.clean {
        bad.push(("hang".into(), json!(format!("{:?}", x.ends))));
        return bad;
    }
    let body = |s: usize, i: usize| x.pdus[s].get(i).map(|&(t, len, off)| (t, &x.wire[s][off + 6..off + 6 + len as usize]));
    // what is on the wire
    let rq = body(R, 0).filter(|p| p.0 == 1).map(|p| parse_assoc(p.1));
    let ac = body(A, 0).filter(|p| p.0 == 2).map(|p| parse_assoc(p.1));
    let ac_len = x.pdus[A].first().map(|p| p.1).unwrap_or(0);
    let (Some(cr), Some(sr)) = (&x.res[R].est, &x.res[A].est) else {
        bad.push(("no-result".into(), json!("a side ended without a result")));
        return bad;
    };
    // requestor ids: distinct and odd
    if let Some(rq) = &rq {
        let ids: Vec<u8> = rq.rq_pcs.iter().map(|p| p.0).collect();
        let distinct: BTreeSet<u8> = ids.iter().copied().collect();
        if distinct.len() != ids.len() || ids.iter().any(|i| i % 2 == 0) {
            bad.push(("requestor-ids-not-distinct-odd".into(), json!({"ids": ids})));
        }
        if rq.max_len != Some(eff(case.cli.max)) {
            bad.push(("requestor-announces-other-maximum".into(), json!({"announced": rq.max_len, "configured": case.cli.max})));
        }
    }
    let client_can_read_ac = own_valid(case.cli.max) && (!case.cli.strict || ac_len <= eff(case.cli.max));
    if let (Some(rq), Some(ac)) = (&rq, &ac) {
        if ac.max_len != Some(eff(case.srv.max)) {
            bad.push(("acceptor-announces-other-maximum".into(), json!({"announced": ac.max_len, "configured": case.srv.max})));
        }
        let wire_accepted: Vec<(u8, String, String)> = ac
            .ac_pcs
            .iter()
            .filter(|p| p.1 == 0 && rq.rq_pcs.iter().any(|q| q.0 == p.0))
            .map(|p| (p.0, rq.rq_pcs.iter().find(|q| q.0 == p.0).unwrap().1.clone(), p.2.clone()))
            .collect();
        if client_can_read_ac {
            match cr {
                Ok(_) if wire_accepted.is_empty() => bad.push(("requestor-established-with-nothing-accepted".into(), json!({}))),
                Err(c) if wire_accepted.is_empty() && c != "NoAcceptedPresentationContexts" => {
                    bad.push(("nothing-accepted-but-other-error".into(), json!({"error": c})))
                }
                Err(c) if !wire_accepted.is_empty() => {
                    bad.push(("requestor-failed-although-contexts-were-accepted".into(), json!({"error": c, "accepted_on_wire": wire_accepted})))
                }
                _ => {}
            }
        }
        if let Ok(c) = cr {
            let a: BTreeSet<_> = c.accepted.iter().cloned().collect();
            let w: BTreeSet<_> = wire_accepted.iter().cloned().collect();
            if a != w || c.accepted.len() != wire_accepted.len() {
                bad.push(("requestor-view-differs-from-wire".into(), json!({"requestor": c.accepted, "wire": wire_accepted})));
            }
        }
    }
    if let (Ok(c), Err(e)) = (cr, sr) {
        bad.push(("requestor-established-acceptor-failed".into(), json!({"acceptor_error": e, "requestor": c.accepted})));
    }
    let (Ok(c), Ok(s)) = (cr, sr) else {
        return bad;
    };
    // agreement
    let ca: BTreeSet<_> = c.accepted.iter().cloned().collect();
    let sa: BTreeSet<_> = s.accepted.iter().cloned().collect();
    if ca != sa || c.accepted.len() != s.accepted.len() {
        bad.push(("accepted-contexts-differ".into(), json!({"requestor": c.accepted, "acceptor": s.accepted})));
    }
    let cid: BTreeSet<u8> = c.accepted.iter().map(|p| p.0).collect();
    if cid.len() != c.accepted.len() || cid.iter().any(|i| i % 2 == 0) {
        bad.push(("accepted-ids-not-distinct-odd".into(), json!({"requestor": c.accepted})));
    }
    let (nc, ns) = (norm(case.cli.max), norm(case.srv.max));
    if c.acceptor_max != ns || s.acceptor_max != ns || c.requestor_max != nc || s.requestor_max != nc {
        bad.push((
            "maximum-pdu-lengths-differ".into(),
            json!({"configured": {"requestor": case.cli.max, "acceptor": case.srv.max},
                   "requestor_view": {"acceptor_max": c.acceptor_max, "requestor_max": c.requestor_max},
                   "acceptor_view": {"acceptor_max": s.acceptor_max, "requestor_max": s.requestor_max}}),
        ));
    }
    if c.user_vars != s.user_vars {
        bad.push(("user-variables-differ".into(), json!({"requestor": c.user_vars, "acceptor": s.user_vars})));
    }
    // role / extended negotiation answers are what the acceptor's policy says
    let has = |v: &Vec<String>, what: &str| v.iter().any(|u| u.starts_with(what));
    let want_ext = case.cli.ext && case.srv.echo;
    let want_role = case.cli.role && case.srv.echo;
    if has(&c.user_vars, "SopClassExtendedNegotiationSubItem") != want_ext || has(&c.user_vars, "ScuScpRoleSelectionSubItem") != want_role {
        bad.push(("negotiation-items-not-as-answered".into(), json!({"requestor": c.user_vars, "ext_expected": want_ext, "role_expected": want_role})));
    }
    // PDU limits: nothing on the wire is longer than the receiver's configured maximum
    for s_ in 0..2 {
        let lim = if s_ == R { ns } else { nc };
        for &(t, len, _) in &x.pdus[s_] {
            if t == 4 && len > lim {
                bad.push(("pdu-longer-than-receivers-maximum".into(), json!({"sender": side_name(s_), "length": len, "receiver_maximum": lim})));
            }
        }
        for a in &x.res[s_].acts {
            if a.what == "send" {
                let too_long = a.size > lim as u64;
                let ok = if too_long {
                    a.class == "SendTooLongPdu" && a.put_bytes == 0
                } else {
                    a.class == "Ok" && a.put_pdus == 1 && a.put_bytes as u64 == a.size + 6
                };
                if !ok {
                    bad.push((
                        if too_long { "over-long-send-not-rejected-locally" } else { "admissible-send-not-sent" }.into(),
                        json!({"sender": side_name(s_), "length": a.size, "receiver_maximum": lim, "result": a.class, "pdus_put": a.put_pdus, "bytes_put": a.put_bytes}),
                    ));
                }
            } else {
                // payload + 12 header bytes per PDU, each PDU carries at most lim - 6 payload bytes
                let per = lim as u64 - 6;
                let n = if a.size == 0 { 1 } else { a.size.div_ceil(per) };
                if a.class != "Ok" || a.put_pdus as u64 != n || a.put_bytes as u64 != a.size + 12 * n {
                    bad.push(("send_pdata-wrong-framing".into(), json!({"sender": side_name(s_), "payload": a.size, "receiver_maximum": lim, "result": a.class, "pdus_put": a.put_pdus, "bytes_put": a.put_bytes, "pdus_expected": n})));
                }
            }
        }
        // the receiver (with a maximum it admits itself) gets every PDU
        let r_ = other(s_);
        let rmax = if r_ == R { case.cli.max } else { case.srv.max };
        if own_valid(rmax) {
            let sent: Vec<u32> = x.pdus[s_].iter().filter(|p| p.0 == 4).map(|p| p.1).collect();
            let got: Vec<Result<u32, String>> = x.res[r_].recv.clone();
            let all_within = sent.iter().all(|&l| l <= lim);
            if all_within && (got.len() != sent.len() || got.iter().zip(&sent).any(|(g, s)| g.as_ref().ok() != Some(s))) {
                bad.push(("receiver-did-not-get-the-pdus".into(), json!({"receiver": side_name(r_), "sent_lengths": sent, "received": format!("{got:?}")})));
            }
        }
    }
    bad
}

// ---------------------------------------------------------------------------------------------
// universes
// ---------------------------------------------------------------------------------------------
fn sv(v: &[&str]) -> Vec<String> {
    v.iter().map(|s| s.to_string()).collect()
}
fn ts_lists() -> Vec<Vec<String>> {
    vec![sv(&[]), sv(&[TS_I]), sv(&[TS_E]), sv(&[TS_E, TS_I]), sv(&[TS_D]), sv(&[TS_X]), sv(&[TS_D, TS_I])]
}
fn acceptors() -> Vec<(Vec<String>, Vec<String>, bool)> {
    let mut v = vec![];
    for abs in [sv(&[]), sv(&[ABS_A]), sv(&[ABS_A, ABS_B])] {
        for ts in [sv(&[]), sv(&[TS_E]), sv(&[TS_I, TS_E]), sv(&[TS_D])] {
            for p in [false, true] {
                v.push((abs.clone(), ts.clone(), p));
            }
        }
    }
    v
}
fn short(u: &str) -> &str {
    match u {
        ABS_A => "A",
        ABS_B => "B",
        TS_I => "I",
        TS_E => "E",
        TS_D => "D",
        TS_X => "X",
        _ => "?",
    }
}
fn pcs_name(p: &[(String, Vec<String>)]) -> String {
    if p.len() > 4 {
        return format!("{}x{}", p.len(), short(&p[0].0));
    }
    p.iter()
        .map(|(a, t)| format!("{}[{}]", short(a), t.iter().map(|x| short(x)).collect::<String>()))
        .collect::<Vec<_>>()
        .join("+")
}
const DEF_MAX: u32 = 16_378;

fn universe(thorough: bool) -> Vec<Case> {
    let mut out = vec![];
    let base_cli = |pcs: Vec<(String, Vec<String>)>| CliCfg { pcs, max: DEF_MAX, strict: true, ext: false, role: false };
    let base_srv = |abs: Vec<String>, ts: Vec<String>, p: bool| SrvCfg { abs, ts, promiscuous: p, max: DEF_MAX, strict: true, echo: false };
    // family nego: proposals x acceptor settings
    let singles: Vec<(String, Vec<String>)> = [ABS_A, ABS_B]
        .iter()
        .flat_map(|a| ts_lists().into_iter().map(move |t| (a.to_string(), t)))
        .collect();
    let mut proposals: Vec<Vec<(String, Vec<String>)>> = singles.iter().map(|s| vec![s.clone()]).collect();
    for a in &singles {
        for b in &singles {
            proposals.push(vec![a.clone(), b.clone()]);
        }
    }
    if thorough {
        // three contexts: a reduced alphabet in the third position keeps it at minutes
        let third = [(ABS_A.to_string(), sv(&[TS_E, TS_I])), (ABS_B.to_string(), sv(&[TS_X])), (ABS_B.to_string(), sv(&[TS_I]))];
        for a in &singles {
            for b in &singles {
                for c in &third {
                    proposals.push(vec![a.clone(), b.clone(), c.clone()]);
                }
            }
        }
    }
    for p in &proposals {
        for (abs, ts, pr) in acceptors() {
            let srv = base_srv(abs, ts, pr);
            out.push(Case {
                fam: "nego",
                id: format!("nego/{}/abs{}-ts{}-{}", pcs_name(p), srv.abs.len(), srv.ts.iter().map(|x| short(x)).collect::<String>(), if pr { "prom" } else { "std" }),
                cli: base_cli(p.clone()),
                srv,
                post: [vec![], vec![]],
            });
        }
    }
    // family maxpdu: maxima x strict x one send action per side
    let good: Vec<u32> = vec![1018, 1019, 4096, 16_378, MAXIMUM_PDU_SIZE];
    let mut pairs: Vec<(u32, u32)> = vec![];
    for &a in &good {
        for &b in &good {
            pairs.push((a, b));
        }
    }
    for bad in [0u32, 100, u32::MAX] {
        pairs.push((bad, 4096));
        pairs.push((4096, bad));
    }
    let acts: Vec<Vec<Post>> = vec![
        vec![],
        vec![Post::Rel(-1)],
        vec![Post::Rel(0)],
        vec![Post::Rel(1)],
        vec![Post::Rel(7)],
        vec![Post::Pdata(0)],
        vec![Post::Pdata(1)],
        vec![Post::Pdata(u32::MAX)],
    ];
    let mut scripts: Vec<[Vec<Post>; 2]> = vec![];
    for a in &acts {
        for b in &acts {
            scripts.push([a.clone(), b.clone()]);
        }
    }
    if thorough {
        for a in &acts[1..] {
            for b in &acts[1..] {
                let two: Vec<Post> = a.iter().chain(b.iter()).copied().collect();
                scripts.push([two.clone(), vec![]]);
                scripts.push([vec![], two]);
            }
        }
    }
    let stricts: Vec<(bool, bool)> = vec![(true, true), (true, false), (false, true), (false, false)];
    let pname = |p: &Vec<Post>| {
        if p.is_empty() {
            "none".to_string()
        } else {
            p.iter()
                .map(|x| match x {
                    Post::Rel(d) => format!("len{d:+}"),
                    Post::Abs(v) => format!("abs{v}"),
                    Post::Pdata(u32::MAX) => "pdata2m3".into(),
                    Post::Pdata(n) => format!("pdata{n}"),
                })
                .collect::<Vec<_>>()
                .join("_")
        }
    };
    for &(cm, sm) in &pairs {
        for &(cs, ss) in &stricts {
            for sc in &scripts {
                // a side that cannot even be established sends nothing: keep one script for those
                if (!own_valid(cm) || !own_valid(sm)) && !(sc[0].len() <= 1 && sc[1].is_empty()) {
                    continue;
                }
                let mut cli = base_cli(vec![(ABS_A.to_string(), sv(&[TS_E, TS_I]))]);
                cli.max = cm;
                cli.strict = cs;
                let mut srv = base_srv(sv(&[ABS_A]), sv(&[]), false);
                srv.max = sm;
                srv.strict = ss;
                out.push(Case {
                    fam: "maxpdu",
                    id: format!("maxpdu/r{cm}{}-a{sm}{}/{}/{}", if cs { "s" } else { "l" }, if ss { "s" } else { "l" }, pname(&sc[0]), pname(&sc[1])),
                    cli,
                    srv,
                    post: sc.clone(),
                });
            }
        }
    }
    // family items: role selection / extended negotiation x acceptor policy
    for ext in [false, true] {
        for role in [false, true] {
            for echo in [false, true] {
                for p in [vec![(ABS_A.to_string(), sv(&[TS_E, TS_I]))], vec![(ABS_B.to_string(), sv(&[TS_I])), (ABS_A.to_string(), sv(&[TS_I]))]] {
                    let mut cli = base_cli(p.clone());
                    cli.ext = ext;
                    cli.role = role;
                    let mut srv = base_srv(sv(&[ABS_A]), sv(&[]), false);
                    srv.echo = echo;
                    out.push(Case {
                        fam: "items",
                        id: format!("items/{}/ext{}-role{}-echo{}", pcs_name(&p), ext as u8, role as u8, echo as u8),
                        cli,
                        srv,
                        post: [vec![Post::Abs(100)], vec![Post::Abs(100)]],
                    });
                }
            }
        }
    }
    // family idrule: many contexts (identifiers are odd numbers in 1..=255: at most 128 exist)
    for n in [127usize, 128, 129, 130] {
        let p: Vec<(String, Vec<String>)> = (0..n).map(|i| (if i % 2 == 0 { ABS_A } else { ABS_B }.to_string(), sv(&[TS_I]))).collect();
        let mut cli = base_cli(p.clone());
        cli.max = 65_536;
        let mut srv = base_srv(sv(&[ABS_A]), sv(&[]), false);
        srv.max = 65_536;
        out.push(Case { fam: "idrule", id: format!("idrule/{n}"), cli, srv, post: [vec![Post::Abs(100)], vec![]] });
    }
    out
}

// ---------------------------------------------------------------------------------------------
// the twin against the real establish()/establish_async() over loopback TCP
// ---------------------------------------------------------------------------------------------
fn read_one_pdu(s: &mut std::net::TcpStream) -> std::io::Result<Option<Vec<u8>>> {
    let mut h = [0u8; 6];
    let mut got = 0;
    while got < 6 {
        let n = s.read(&mut h[got..])?;
        if n == 0 {
            return if got == 0 { Ok(None) } else { Err(std::io::ErrorKind::UnexpectedEof.into()) };
        }
        got += n;
    }
    let len = u32::from_be_bytes([h[2], h[3], h[4], h[5]]) as usize;
    let mut v = h.to_vec();
    v.resize(6 + len, 0);
    s.read_exact(&mut v[6..])?;
    Ok(Some(v))
}
/// PDU-wise relay in strict alternation: RQ ->, <- AC/RJ/ABORT, then the rest of the requestor's
/// bytes (an A-ABORT if it refuses), then the rest of the acceptor's.
fn relay(mut from_client: std::net::TcpStream, mut to_server: std::net::TcpStream) -> [Vec<u8>; 2] {
    let mut rec = [vec![], vec![]];
    let _ = from_client.set_read_timeout(Some(std::time::Duration::from_secs(10)));
    let _ = to_server.set_read_timeout(Some(std::time::Duration::from_secs(10)));
    if let Ok(Some(p)) = read_one_pdu(&mut from_client) {
        rec[0].extend_from_slice(&p);
        let _ = to_server.write_all(&p);
        match read_one_pdu(&mut to_server) {
            Ok(Some(q)) => {
                rec[1].extend_from_slice(&q);
                let _ = from_client.write_all(&q);
            }
            // the acceptor went away without an answer: the requestor sees the end of the stream
            _ => {
                let _ = from_client.shutdown(std::net::Shutdown::Write);
            }
        }
    }
    let mut rest = vec![];
    let _ = from_client.read_to_end(&mut rest);
    rec[0].extend_from_slice(&rest);
    let _ = to_server.write_all(&rest);
    let _ = to_server.shutdown(std::net::Shutdown::Write);
    let mut rest = vec![];
    let _ = to_server.read_to_end(&mut rest);
    rec[1].extend_from_slice(&rest);
    rec
}
type Summary = (Result<Negot, String>, Result<Negot, String>, [Vec<u8>; 2]);

fn tcp_real(is_async: bool, case: &Case) -> Result<Summary, String> {
    let srv_l = std::net::TcpListener::bind("127.0.0.1:0").map_err(|e| format!("bind: {e}"))?;
    let prx_l = std::net::TcpListener::bind("127.0.0.1:0").map_err(|e| format!("bind: {e}"))?;
    let srv_addr = srv_l.local_addr().unwrap();
    let prx_addr = prx_l.local_addr().unwrap();
    let relay_t = std::thread::spawn(move || {
        let (c, _) = prx_l.accept().expect("relay accept");
        let s = std::net::TcpStream::connect(srv_addr).expect("relay connect");
        relay(c, s)
    });
    let (cr, sr) = if !is_async {
        let scfg = case.srv.clone();
        let srv_t = std::thread::spawn(move || {
            let (sock, _) = srv_l.accept().expect("server accept");
            let opts = server_opts(&scfg);
            // the association is dropped right after the summary is taken
            opts.establish(sock).map(|a| negot_of(&a)).map_err(|e| err_class(&e))
        });
        let cr = client_opts(&case.cli).establish(prx_addr).map(|a| negot_of(&a)).map_err(|e| err_class(&e));
        (cr, srv_t.join().map_err(|_| "server thread panicked".to_string())?)
    } else {
        let rt = tokio::runtime::Builder::new_current_thread().enable_all().build().map_err(|e| e.to_string())?;
        srv_l.set_nonblocking(true).map_err(|e| e.to_string())?;
        let scfg = case.srv.clone();
        let ccfg = case.cli.clone();
        rt.block_on(async move {
            let l = tokio::net::TcpListener::from_std(srv_l).expect("listener");
            let server = async {
                let (sock, _) = l.accept().await.expect("server accept");
                let opts = server_opts(&scfg);
                opts.establish_async(sock).await.map(|a| negot_of(&a)).map_err(|e| err_class(&e))
            };
            let client = async { client_opts(&ccfg).establish_async(prx_addr).await.map(|a| negot_of(&a)).map_err(|e| err_class(&e)) };
            tokio::join!(client, server)
        })
    };
    let rec = relay_t.join().map_err(|_| "relay thread panicked".to_string())?;
    Ok((cr, sr, rec))
}
fn twin(is_async: bool, case: &Case) -> Summary {
    let x = execute(is_async, case, None, Knobs::default());
    let [r, a] = x.res;
    (r.est.unwrap_or(Err("no result".into())), a.est.unwrap_or(Err("no result".into())), x.wire)
}
fn tcp_cases() -> Vec<Case> {
    let mut v = vec![];
    let cli = |pcs: Vec<(String, Vec<String>)>, max: u32, ext: bool| CliCfg { pcs, max, strict: true, ext, role: ext };
    let srv = |abs: Vec<String>, ts: Vec<String>, p: bool, max: u32, echo: bool| SrvCfg { abs, ts, promiscuous: p, max, strict: true, echo };
    let props: Vec<Vec<(String, Vec<String>)>> = vec![
        vec![(ABS_A.into(), sv(&[TS_E, TS_I]))],
        vec![(ABS_A.into(), sv(&[TS_E])), (ABS_B.into(), sv(&[TS_I]))],
        vec![(ABS_B.into(), sv(&[TS_X]))],
        vec![(ABS_A.into(), sv(&[TS_D])), (ABS_A.into(), sv(&[TS_D, TS_I]))],
        vec![(ABS_B.into(), sv(&[])), (ABS_A.into(), sv(&[TS_I]))],
    ];
    let accs = vec![
        (sv(&[ABS_A]), sv(&[]), false),
        (sv(&[ABS_A, ABS_B]), sv(&[TS_I, TS_E]), false),
        (sv(&[]), sv(&[TS_E]), true),
        (sv(&[]), sv(&[]), false),
    ];
    let maxes = [(16_378u32, 16_378u32), (1018, MAXIMUM_PDU_SIZE), (0, 4096), (4096, 0), (u32::MAX, 1019)];
    let mut i = 0;
    for p in &props {
        for (abs, ts, pr) in &accs {
            // rotate the maxima and the items through the cases (a fixed subset, not a product)
            let (cm, sm) = maxes[i % maxes.len()];
            let ext = i % 3 == 1;
            v.push(Case {
                fam: "tcp-twin",
                id: format!("tcp-twin/{}/abs{}-ts{}-{}/r{cm}-a{sm}-items{}", pcs_name(p), abs.len(), ts.len(), if *pr { "prom" } else { "std" }, ext as u8),
                cli: cli(p.clone(), cm, ext),
                srv: srv(abs.clone(), ts.clone(), *pr, sm, i % 2 == 0),
                post: [vec![], vec![]],
            });
            i += 1;
        }
    }
    v
}

fn main() {
    tune_allocator();
    let check = Check::from_args("C29", Level::ModelChecking);
    check.set_rule(
        "Cases: family nego = requestor proposals (1-2 contexts, thorough also 3, over 2 abstract syntaxes x 7 transfer-syntax \
         lists) x 24 acceptor settings; family maxpdu = pairs of maximum PDU lengths {1018, 1019, 4096, 16378, largest; and \
         0 / 100 / 2^32-1 on one side} x strict modes x one send action per side (P-DATA with length field peer maximum -1/+0/+1/+7, \
         send_pdata of 0 / 1 / 2*maximum+3 bytes; thorough also two actions on one side), then each side receives what the wire \
         shows was sent; family items = role selection / extended negotiation on/off x acceptor policy echo/none; family \
         idrule = 127..130 proposed contexts. Every case runs with the sync pair and the async pair under every schedule with \
         <= 1 (quick) / 2 (thorough) deviations (other peer first, read segmentation {1 byte, to PDU boundary, one past, half}, Pending at an async \
         write/shutdown). One execution = one evaluation; non-trivial when both sides returned; distinct by (case, api, \
         observations). Family tcp-twin = 20 fixed cases through the real establish()/establish_async() over loopback TCP \
         behind a PDU-wise relay, compared with the in-memory twin (negotiated state and bytes). `transitions` = scheduler \
         steps (one peer segment run) executed; `states` = distinct global states (bytes written/delivered per direction, \
         peer statuses, closes) seen at those steps, per case and api.",
    );
    check.assume("the in-memory duplex stands for TCP (ordered, lossless until a close); the twin of ServerAssociationOptions::establish is tied to the original by the tcp-twin family");
    check.assume("a side configured with a maximum its own PDU reader refuses (0, < 1018) may fail locally: then only 'no panic, no hang' is claimed");
    check.assume("'largest supported' for a maximum of 0 is the crate's documented MAXIMUM_PDU_SIZE");
    let cases = universe(check.thorough());
    let bound = check.pick(1, 2);
    check.extra("deviation_bound", json!(bound));
    let mut fam_sizes = std::collections::BTreeMap::new();
    for c in &cases {
        *fam_sizes.entry(c.fam).or_insert(0u64) += 1;
    }
    check.extra("cases_per_family", json!(fam_sizes));
    let executions = AtomicU64::new(0);
    let (sw, pa, pe) = (AtomicU64::new(0), AtomicU64::new(0), AtomicU64::new(0));
    let n = cases.len() as u64;
    check.par_range(n * 2, |l: &mut Local, i| {
        let is_async = i % 2 == 1;
        let case = &cases[(i / 2) as usize];
        let api = if is_async { "async" } else { "sync" };
        let case_id = format!("{}/{api}", case.id);
        if !l.want(&case_id) {
            return;
        }
        // diagnostic filter (timing of one family / api); never set by ./check
        if let Ok(f) = std::env::var("VX_C29_ONLY") {
            if !case_id.contains(&f) || (std::env::var("VX_C29_API").ok().as_deref().unwrap_or(api) != api) {
                return;
            }
        }
        let _rt = if is_async { Some(tokio_context().enter()) } else { None };
        let knobs = Knobs { sched: true, seg: 2, pending: is_async, partial_write: false, one_pdu_per_read: false };
        let verbose = l.check.verbose;
        let mut reported: HashSet<String> = HashSet::new();
        let mut states: HashSet<u64> = HashSet::new();
        let mut steps = 0u64;
        let st = explore(Some(bound), 1_000_000, |ctx: &Ctx| {
            let x = execute(is_async, case, Some(ctx.clone()), knobs);
            l.eval();
            steps += x.steps;
            states.extend(x.states.iter().copied());
            sw.fetch_add(x.stats.0, Ordering::Relaxed);
            pa.fetch_add(x.stats.1, Ordering::Relaxed);
            pe.fetch_add(x.stats.2, Ordering::Relaxed);
            let bad = oracle(case, &x);
            if verbose {
                eprintln!("schedule {:?}: est R={:?} A={:?} acts={:?}/{:?} recv={:?}/{:?} pdus R={:?} A={:?}",
                    ctx.choices(), x.res[R].est, x.res[A].est, x.res[R].acts, x.res[A].acts, x.res[R].recv, x.res[A].recv,
                    x.pdus[R].iter().map(|p| (p.0, p.1)).collect::<Vec<_>>(), x.pdus[A].iter().map(|p| (p.0, p.1)).collect::<Vec<_>>());
            }
            let both = x.res[R].est.is_some() && x.res[A].est.is_some();
            let summary = format!(
                "R:{} A:{}",
                match &x.res[R].est { Some(Ok(_)) => "established".to_string(), Some(Err(e)) => e.clone(), None => "-".into() },
                match &x.res[A].est { Some(Ok(_)) => "established".to_string(), Some(Err(e)) => e.clone(), None => "-".into() },
            );
            if both {
                l.nontrivial(&(&case_id, format!("{:?}{:?}{:?}", x.res, x.pdus, bad.len())));
            }
            if bad.is_empty() {
                l.outcome_with(&summary, || json!({"case": case_id}));
            } else {
                l.outcome("violation");
            }
            for (kind, detail) in bad {
                if reported.insert(kind.clone()) {
                    l.fail(
                        &case_id,
                        json!({"family": case.fam, "api": api, "kind": kind, "contexts": case.cli.pcs.len()}),
                        json!({"requestor": format!("{:?}", case.cli).chars().take(600).collect::<String>(), "acceptor": format!("{:?}", case.srv),
                               "post": format!("{:?}", case.post), "schedule_choices": ctx.choices(), "what": detail,
                               "result_R": format!("{:?}", x.res[R].est).chars().take(400).collect::<String>(),
                               "result_A": format!("{:?}", x.res[A].est).chars().take(400).collect::<String>()}),
                    );
                }
            }
        });
        match st {
            Ok(s) => {
                executions.fetch_add(s.executions, Ordering::Relaxed);
                if s.capped {
                    l.check.cap("more than 1e6 schedules for one case");
                }
            }
            Err(e) => l.check.machinery_error(&format!("{case_id}: {e}")),
        }
        l.check.add_states(states.len() as u64);
        l.check.add_transitions(steps);
    });
    check.extra("executions", json!(executions.load(Ordering::Relaxed)));
    check.extra("peer_switches", json!(sw.load(Ordering::Relaxed)));
    check.extra("partial_deliveries", json!(pa.load(Ordering::Relaxed)));
    check.extra("pending_injected", json!(pe.load(Ordering::Relaxed)));
    if !check.replaying() && (sw.load(Ordering::Relaxed) == 0 || pa.load(Ordering::Relaxed) == 0 || pe.load(Ordering::Relaxed) == 0) {
        check.machinery_error("vacuous: some kind of schedule deviation was never taken");
    }

    // the twin against the real thing
    let tcases = tcp_cases();
    check.extra("tcp_twin_cases", json!(tcases.len() * 2));
    let tn = tcases.len() as u64;
    let matched = AtomicU64::new(0);
    check.par_range(tn * 2, |l: &mut Local, i| {
        let is_async = i % 2 == 1;
        let case = &tcases[(i / 2) as usize];
        let api = if is_async { "async" } else { "sync" };
        let case_id = format!("{}/{api}", case.id);
        if !l.want(&case_id) {
            return;
        }
        let _rt = if is_async { Some(tokio_context().enter()) } else { None };
        l.eval();
        let t = twin(is_async, case);
        match tcp_real(is_async, case) {
            Err(e) => l.check.machinery_error(&format!("{case_id}: loopback TCP: {e}")),
            Ok(real) => {
                l.nontrivial(&(&case_id, format!("{:?}", real.0), real.2[0].len(), real.2[1].len()));
                if real == t {
                    matched.fetch_add(1, Ordering::Relaxed);
                    l.outcome_with("tcp-equals-twin", || json!({"case": case_id, "requestor": format!("{:?}", real.0).chars().take(200).collect::<String>()}));
                } else {
                    l.outcome("tcp-differs-from-twin");
                    let which = if real.0 != t.0 { "requestor-state" } else if real.1 != t.1 { "acceptor-state" } else if real.2[0] != t.2[0] { "requestor-bytes" } else { "acceptor-bytes" };
                    l.fail(
                        &case_id,
                        json!({"family": "tcp-twin", "api": api, "kind": "real-establish-differs-from-twin", "differs": which}),
                        json!({"real_R": format!("{:?}", real.0), "twin_R": format!("{:?}", t.0), "real_A": format!("{:?}", real.1), "twin_A": format!("{:?}", t.1),
                               "real_bytes": [real.2[0].len(), real.2[1].len()], "twin_bytes": [t.2[0].len(), t.2[1].len()]}),
                    );
                }
            }
        }
    });
    check.extra("tcp_twin_matched", json!(matched.load(Ordering::Relaxed)));
    check.finish();
}
