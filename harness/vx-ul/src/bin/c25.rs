//! C25 — PDUs are encoded and decoded losslessly with exact framing.
//!
//! Subject: `dicom_ul::pdu::{write_pdu, read_pdu}` (strict and non-strict).
//! Oracle: the independent PS3.8 codec `vx_ref::pdu`. A dicom-rs `Pdu` value is translated to the
//! reference model by the *meaning* of its fields (`to_ref`, code tables written from PS3.8 tables
//! 9-21, 9-26 and PS3.7 D.3.3.7); then
//!   * reference encoding fails (content does not fit a length field)  =>  `write_pdu` must fail;
//!   * otherwise `write_pdu` must produce exactly the reference bytes, the strict reference parser
//!     must accept them (every length field equals what it frames, reserved bytes zero),
//!     `read_pdu` (strict and not) must return the same value consuming exactly those bytes,
//!     and every strict prefix must read as `Ok(None)`.
//! Code sweeps: all 4 x 65 536 A-ASSOCIATE-RJ (result, source, reason) and all 65 536 A-ABORT
//! (source, reason) byte patterns: codes defined by the standard must be read and written back
//! unchanged (where significant); nothing may panic.
//! Strict mode: every PDU kind at PDU length max-1 / max / max+1 for max in {1018, 16 378, 65 536}.
use dicom_ul::pdu::*;
use vx_kit::{guard, json, Check, Level, Local, Value};
use vx_ref::pdu as rp;
use vx_ref::pdu::{RAssocHead, RPcAc, RPcRq, RPdu, RPdv, RUserItem};

// ------------------------------------------------------------------------------------------------
// translation dicom-rs value -> reference model (by meaning)

fn rj_codes(s: &AssociationRJSource) -> (u8, u8) {
    match s {
        AssociationRJSource::ServiceUser(r) => (
            1,
            match r {
                AssociationRJServiceUserReason::NoReasonGiven => 1,
                AssociationRJServiceUserReason::ApplicationContextNameNotSupported => 2,
                AssociationRJServiceUserReason::CallingAETitleNotRecognized => 3,
                AssociationRJServiceUserReason::CalledAETitleNotRecognized => 7,
                AssociationRJServiceUserReason::Reserved(x) => *x,
            },
        ),
        AssociationRJSource::ServiceProviderASCE(r) => (
            2,
            match r {
                AssociationRJServiceProviderASCEReason::NoReasonGiven => 1,
                AssociationRJServiceProviderASCEReason::ProtocolVersionNotSupported => 2,
            },
        ),
        AssociationRJSource::ServiceProviderPresentation(r) => (
            3,
            match r {
                AssociationRJServiceProviderPresentationReason::TemporaryCongestion => 1,
                AssociationRJServiceProviderPresentationReason::LocalLimitExceeded => 2,
                AssociationRJServiceProviderPresentationReason::Reserved(x) => *x,
            },
        ),
    }
}

fn abort_codes(s: &AbortRQSource) -> (u8, u8) {
    match s {
        AbortRQSource::ServiceUser => (0, 0),
        AbortRQSource::Reserved => (1, 0),
        AbortRQSource::ServiceProvider(r) => (
            2,
            match r {
                AbortRQServiceProviderReason::ReasonNotSpecified => 0,
                AbortRQServiceProviderReason::UnrecognizedPdu => 1,
                AbortRQServiceProviderReason::UnexpectedPdu => 2,
                AbortRQServiceProviderReason::Reserved => 3,
                AbortRQServiceProviderReason::UnrecognizedPduParameter => 4,
                AbortRQServiceProviderReason::UnexpectedPduParameter => 5,
                AbortRQServiceProviderReason::InvalidPduParameter => 6,
            },
        ),
    }
}

fn user_to_ref(u: &UserVariableItem) -> RUserItem {
    match u {
        UserVariableItem::Unknown(t, d) => RUserItem::Unknown { item_type: *t, data: d.clone() },
        UserVariableItem::MaxLength(m) => RUserItem::MaxLength(*m),
        UserVariableItem::ImplementationClassUID(s) => RUserItem::ImplClassUid(s.as_bytes().to_vec()),
        UserVariableItem::ImplementationVersionName(s) => RUserItem::ImplVersionName(s.as_bytes().to_vec()),
        UserVariableItem::SopClassExtendedNegotiationSubItem(uid, d) => {
            RUserItem::ExtNeg { uid: uid.as_bytes().to_vec(), info: d.clone() }
        }
        UserVariableItem::ScuScpRoleSelectionSubItem(uid, r) => {
            RUserItem::RoleSelection { uid: uid.as_bytes().to_vec(), scu: r.scu as u8, scp: r.scp as u8 }
        }
        UserVariableItem::UserIdentityItem(id) => RUserItem::UserIdentityRq {
            id_type: match id.identity_type() {
                UserIdentityType::Username => 1,
                UserIdentityType::UsernamePassword => 2,
                UserIdentityType::KerberosServiceTicket => 3,
                UserIdentityType::SamlAssertion => 4,
                UserIdentityType::Jwt => 5,
                _ => 0,
            },
            positive_response: id.positive_response_requested() as u8,
            primary: id.primary_field(),
            secondary: id.secondary_field(),
        },
    }
}

fn head_to_ref(version: u16, called: &str, calling: &str, app: &str, users: &[UserVariableItem]) -> RAssocHead {
    RAssocHead {
        protocol_version: version,
        called_ae: rp::ae16(called),
        calling_ae: rp::ae16(calling),
        app_context: app.as_bytes().to_vec(),
        // the writer's documented behaviour: no user information item when there are no user variables
        user_info: if users.is_empty() { None } else { Some(users.iter().map(user_to_ref).collect()) },
    }
}

fn to_ref(p: &Pdu) -> RPdu {
    match p {
        Pdu::Unknown { pdu_type, data } => RPdu::Unknown { pdu_type: *pdu_type, data: data.clone() },
        Pdu::AssociationRQ(rq) => RPdu::AssociateRq {
            head: head_to_ref(rq.protocol_version, &rq.called_ae_title, &rq.calling_ae_title, &rq.application_context_name, &rq.user_variables),
            pcs: rq
                .presentation_contexts
                .iter()
                .map(|pc| RPcRq {
                    id: pc.id,
                    abstract_syntax: pc.abstract_syntax.as_bytes().to_vec(),
                    transfer_syntaxes: pc.transfer_syntaxes.iter().map(|t| t.as_bytes().to_vec()).collect(),
                })
                .collect(),
        },
        Pdu::AssociationAC(ac) => RPdu::AssociateAc {
            head: head_to_ref(ac.protocol_version, &ac.called_ae_title, &ac.calling_ae_title, &ac.application_context_name, &ac.user_variables),
            pcs: ac
                .presentation_contexts
                .iter()
                .map(|pc| RPcAc {
                    id: pc.id,
                    result: match pc.reason {
                        PresentationContextResultReason::Acceptance => 0,
                        PresentationContextResultReason::UserRejection => 1,
                        PresentationContextResultReason::NoReason => 2,
                        PresentationContextResultReason::AbstractSyntaxNotSupported => 3,
                        PresentationContextResultReason::TransferSyntaxesNotSupported => 4,
                    },
                    transfer_syntax: pc.transfer_syntax.as_bytes().to_vec(),
                })
                .collect(),
        },
        Pdu::AssociationRJ(rj) => {
            let (source, reason) = rj_codes(&rj.source);
            RPdu::AssociateRj {
                result: match rj.result {
                    AssociationRJResult::Permanent => 1,
                    AssociationRJResult::Transient => 2,
                },
                source,
                reason,
            }
        }
        Pdu::PData { data } => RPdu::PData(
            data.iter()
                .map(|v| RPdv::new(v.presentation_context_id, v.value_type == PDataValueType::Command, v.is_last, v.data.clone()))
                .collect(),
        ),
        Pdu::ReleaseRQ => RPdu::ReleaseRq,
        Pdu::ReleaseRP => RPdu::ReleaseRp,
        Pdu::AbortRQ { source } => {
            let (source, reason) = abort_codes(source);
            RPdu::Abort { source, reason }
        }
    }
}

// ------------------------------------------------------------------------------------------------
// universe

const IMPLICIT: &str = "1.2.840.10008.1.2";
const EXPLICIT: &str = "1.2.840.10008.1.2.1";
const VERIFICATION: &str = "1.2.840.10008.1.1";
const T16: &str = "ABCDEFGHIJKLMNOP";

/// user item alphabet, grouped by kind
fn user_alphabet() -> Vec<Vec<UserVariableItem>> {
    use UserVariableItem::*;
    let s = |x: &str| x.to_string();
    let mut ids = vec![];
    for (ty, sec) in [
        (UserIdentityType::Username, ""),
        (UserIdentityType::UsernamePassword, "pw"),
        (UserIdentityType::KerberosServiceTicket, ""),
        (UserIdentityType::SamlAssertion, ""),
        (UserIdentityType::Jwt, ""),
    ] {
        for pos in [false, true] {
            ids.push(UserIdentityItem(UserIdentity::new(pos, ty.clone(), b"usr".to_vec(), sec.as_bytes().to_vec())));
        }
    }
    for prim in ["", "u", "user"] {
        ids.push(UserIdentityItem(UserIdentity::new(false, UserIdentityType::Username, prim.as_bytes().to_vec(), vec![])));
    }
    for sec in ["", "p", "pass"] {
        ids.push(UserIdentityItem(UserIdentity::new(true, UserIdentityType::UsernamePassword, b"user".to_vec(), sec.as_bytes().to_vec())));
    }
    vec![
        vec![MaxLength(0), MaxLength(16378), MaxLength(0xFFFF_FFFE), MaxLength(0x0102_0304)],
        vec![ImplementationClassUID(s("")), ImplementationClassUID(s("1")), ImplementationClassUID(s("1.2.3")), ImplementationClassUID(s("1.2.840.10008"))],
        vec![ImplementationVersionName(s("")), ImplementationVersionName(s("V")), ImplementationVersionName(s("V_1")), ImplementationVersionName(s("DICOM-rs 0.10.0"))],
        vec![
            SopClassExtendedNegotiationSubItem(s("1.2.3"), vec![]),
            SopClassExtendedNegotiationSubItem(s("1.2.3"), vec![1]),
            SopClassExtendedNegotiationSubItem(s("1.2.3"), vec![1, 0, 1]),
            SopClassExtendedNegotiationSubItem(s("1.2.3"), vec![0, 5, 0x31, 0x2e]),
            SopClassExtendedNegotiationSubItem(s("1.22"), vec![1]),
            SopClassExtendedNegotiationSubItem(s(""), vec![]),
        ],
        vec![
            ScuScpRoleSelectionSubItem(s("1.2.3"), RequestorRoles { scu: false, scp: false }),
            ScuScpRoleSelectionSubItem(s("1.2.3"), RequestorRoles { scu: true, scp: false }),
            ScuScpRoleSelectionSubItem(s("1.2.3"), RequestorRoles { scu: false, scp: true }),
            ScuScpRoleSelectionSubItem(s("1.2.3"), RequestorRoles { scu: true, scp: true }),
            ScuScpRoleSelectionSubItem(s(""), RequestorRoles { scu: true, scp: true }),
            ScuScpRoleSelectionSubItem(s("1.22"), RequestorRoles { scu: true, scp: false }),
        ],
        ids,
        vec![
            // asynchronous operations window and user identity response: valid items the library keeps opaque
            Unknown(0x53, vec![0, 1, 0, 1]),
            Unknown(0x59, vec![0, 2, b'o', b'k']),
            // SOP class common extended negotiation
            Unknown(0x57, vec![0, 3, b'1', b'.', b'2', 0, 3, b'1', b'.', b'3', 0, 0]),
            Unknown(0x5A, vec![]),
            Unknown(0x5A, vec![1]),
            Unknown(0x5A, vec![1, 2, 3]),
            Unknown(0xFF, vec![0x50, 0]),
        ],
    ]
}

/// every list made of one item from each of <= 3 distinct kinds (kind order), the reversed list,
/// and two items of the same kind for the kinds that repeat in practice
fn user_lists(max_kinds: usize) -> Vec<Vec<UserVariableItem>> {
    let alpha = user_alphabet();
    let mut out = vec![vec![]];
    for kinds in vx_kit::gen::subsets_up_to(alpha.len(), max_kinds) {
        if kinds.is_empty() {
            continue;
        }
        let radices: Vec<u64> = kinds.iter().map(|&k| alpha[k].len() as u64).collect();
        for idx in 0..vx_kit::gen::product_size(&radices) {
            let d = vx_kit::gen::unrank(idx, &radices);
            let l: Vec<UserVariableItem> = kinds.iter().zip(d).map(|(&k, i)| alpha[k][i as usize].clone()).collect();
            if l.len() == 2 {
                let mut r = l.clone();
                r.reverse();
                out.push(r);
            }
            out.push(l);
        }
    }
    for k in [3, 4, 6] {
        for a in &alpha[k] {
            for b in &alpha[k] {
                out.push(vec![a.clone(), b.clone()]);
            }
        }
    }
    out
}

fn lists_up_to<T: Clone>(alpha: &[T], three: bool) -> Vec<Vec<T>> {
    let mut out = vec![vec![]];
    for a in alpha {
        out.push(vec![a.clone()]);
    }
    for a in alpha {
        for b in alpha {
            out.push(vec![a.clone(), b.clone()]);
        }
    }
    if three {
        for a in alpha {
            for b in alpha {
                for c in alpha {
                    out.push(vec![a.clone(), b.clone(), c.clone()]);
                }
            }
        }
    }
    out
}

fn pc_rq_lists(three: bool) -> Vec<Vec<PresentationContextProposed>> {
    let mut alpha = vec![];
    for id in [1u8, 255] {
        for abs in [VERIFICATION, "1.2"] {
            for ts in [vec![], vec![IMPLICIT], vec![EXPLICIT], vec![IMPLICIT, EXPLICIT]] {
                alpha.push(PresentationContextProposed {
                    id,
                    abstract_syntax: abs.to_string(),
                    transfer_syntaxes: ts.iter().map(|s| s.to_string()).collect(),
                });
            }
        }
    }
    lists_up_to(&alpha, three)
}

fn pc_ac_lists(three: bool) -> Vec<Vec<PresentationContextResult>> {
    use PresentationContextResultReason::*;
    let mut alpha = vec![];
    for id in [1u8, 255] {
        for reason in [Acceptance, UserRejection, NoReason, AbstractSyntaxNotSupported, TransferSyntaxesNotSupported] {
            for ts in [IMPLICIT, "1.2"] {
                alpha.push(PresentationContextResult { id, reason: reason.clone(), transfer_syntax: ts.to_string() });
            }
        }
    }
    lists_up_to(&alpha, three)
}

struct Case {
    id: String,
    family: &'static str,
    pdu: Pdu,
}

fn small_universe(thorough: bool) -> Vec<Case> {
    let mut out = vec![];
    let users = user_lists(if thorough { 4 } else { 3 });
    // (a) user-information sweep over a fixed head
    for (i, u) in users.iter().enumerate() {
        out.push(Case {
            id: format!("rq-users/{i}"),
            family: "assoc-users",
            pdu: Pdu::AssociationRQ(AssociationRQ {
                protocol_version: 1,
                calling_ae_title: "SCU".into(),
                called_ae_title: "SCP".into(),
                application_context_name: rp::APP_CONTEXT.into(),
                presentation_contexts: vec![PresentationContextProposed { id: 1, abstract_syntax: VERIFICATION.into(), transfer_syntaxes: vec![IMPLICIT.into()] }],
                user_variables: u.clone(),
            }),
        });
        out.push(Case {
            id: format!("ac-users/{i}"),
            family: "assoc-users",
            pdu: Pdu::AssociationAC(AssociationAC {
                protocol_version: 1,
                calling_ae_title: "SCU".into(),
                called_ae_title: "SCP".into(),
                application_context_name: rp::APP_CONTEXT.into(),
                presentation_contexts: vec![PresentationContextResult { id: 1, reason: PresentationContextResultReason::Acceptance, transfer_syntax: IMPLICIT.into() }],
                user_variables: u.clone(),
            }),
        });
    }
    // (b) head and presentation-context sweep with three user lists
    let alpha = user_alphabet();
    let few_users = [vec![], vec![alpha[0][1].clone()], vec![alpha[0][1].clone(), alpha[1][3].clone(), alpha[2][3].clone()]];
    let heads = [("A", "B"), (T16, "A"), ("A", T16)];
    for (hi, (called, calling)) in heads.iter().enumerate() {
        for version in [1u16, 0x0102] {
            for app in [rp::APP_CONTEXT, "1.2"] {
                for (ui, u) in few_users.iter().enumerate() {
                    for (pi, pcs) in pc_rq_lists(thorough).into_iter().enumerate() {
                        out.push(Case {
                            id: format!("rq-pcs/h{hi}/v{version}/app{}/u{ui}/{pi}", app.len()),
                            family: "assoc-pcs",
                            pdu: Pdu::AssociationRQ(AssociationRQ {
                                protocol_version: version,
                                calling_ae_title: calling.to_string(),
                                called_ae_title: called.to_string(),
                                application_context_name: app.into(),
                                presentation_contexts: pcs,
                                user_variables: u.clone(),
                            }),
                        });
                    }
                    for (pi, pcs) in pc_ac_lists(thorough && hi == 0).into_iter().enumerate() {
                        out.push(Case {
                            id: format!("ac-pcs/h{hi}/v{version}/app{}/u{ui}/{pi}", app.len()),
                            family: "assoc-pcs",
                            pdu: Pdu::AssociationAC(AssociationAC {
                                protocol_version: version,
                                calling_ae_title: calling.to_string(),
                                called_ae_title: called.to_string(),
                                application_context_name: app.into(),
                                presentation_contexts: pcs,
                                user_variables: u.clone(),
                            }),
                        });
                    }
                }
            }
        }
    }
    // (c) every reject and abort value the type can express with codes the standard lists
    let mut rj_sources = vec![];
    for r in [
        AssociationRJServiceUserReason::NoReasonGiven,
        AssociationRJServiceUserReason::ApplicationContextNameNotSupported,
        AssociationRJServiceUserReason::CallingAETitleNotRecognized,
        AssociationRJServiceUserReason::CalledAETitleNotRecognized,
    ] {
        rj_sources.push(AssociationRJSource::ServiceUser(r));
    }
    for x in [4u8, 5, 6, 8, 9, 10] {
        rj_sources.push(AssociationRJSource::ServiceUser(AssociationRJServiceUserReason::Reserved(x)));
    }
    rj_sources.push(AssociationRJSource::ServiceProviderASCE(AssociationRJServiceProviderASCEReason::NoReasonGiven));
    rj_sources.push(AssociationRJSource::ServiceProviderASCE(AssociationRJServiceProviderASCEReason::ProtocolVersionNotSupported));
    rj_sources.push(AssociationRJSource::ServiceProviderPresentation(AssociationRJServiceProviderPresentationReason::TemporaryCongestion));
    rj_sources.push(AssociationRJSource::ServiceProviderPresentation(AssociationRJServiceProviderPresentationReason::LocalLimitExceeded));
    for x in [0u8, 3, 4, 5, 6, 7] {
        rj_sources.push(AssociationRJSource::ServiceProviderPresentation(AssociationRJServiceProviderPresentationReason::Reserved(x)));
    }
    for (i, s) in rj_sources.into_iter().enumerate() {
        for (ri, result) in [AssociationRJResult::Permanent, AssociationRJResult::Transient].into_iter().enumerate() {
            out.push(Case { id: format!("rj/{ri}/{i}"), family: "reject", pdu: Pdu::AssociationRJ(AssociationRJ { result, source: s.clone() }) });
        }
    }
    let mut aborts = vec![AbortRQSource::ServiceUser, AbortRQSource::Reserved];
    for r in [
        AbortRQServiceProviderReason::ReasonNotSpecified,
        AbortRQServiceProviderReason::UnrecognizedPdu,
        AbortRQServiceProviderReason::UnexpectedPdu,
        AbortRQServiceProviderReason::Reserved,
        AbortRQServiceProviderReason::UnrecognizedPduParameter,
        AbortRQServiceProviderReason::UnexpectedPduParameter,
        AbortRQServiceProviderReason::InvalidPduParameter,
    ] {
        aborts.push(AbortRQSource::ServiceProvider(r));
    }
    for (i, source) in aborts.into_iter().enumerate() {
        out.push(Case { id: format!("abort/{i}"), family: "abort", pdu: Pdu::AbortRQ { source } });
    }
    out.push(Case { id: "release-rq".into(), family: "release", pdu: Pdu::ReleaseRQ });
    out.push(Case { id: "release-rp".into(), family: "release", pdu: Pdu::ReleaseRP });
    // (d) unknown PDU types
    for t in [0x00u8, 0x08, 0xFF] {
        for (di, data) in [vec![], vec![1u8], vec![4, 0, 0], (0u8..64).collect::<Vec<u8>>()].into_iter().enumerate() {
            out.push(Case { id: format!("unknown/{t}/{di}"), family: "unknown", pdu: Pdu::Unknown { pdu_type: t, data } });
        }
    }
    // (e) P-DATA: 0-3 PDVs of 0-3 bytes, both value types, both is_last, context ids {1, 255}
    let mut pdvs = vec![];
    for (id, value_type, is_last) in [
        (1u8, PDataValueType::Data, false),
        (1, PDataValueType::Data, true),
        (1, PDataValueType::Command, false),
        (1, PDataValueType::Command, true),
        (255, PDataValueType::Data, true),
        (255, PDataValueType::Command, false),
    ] {
        for n in 0..=3usize {
            // bytes that look like PDU/PDV headers
            let data = [0x04u8, 0x00, 0x00][..n].to_vec();
            pdvs.push(PDataValue { presentation_context_id: id, value_type: value_type.clone(), is_last, data });
        }
    }
    out.push(Case { id: "pdata/empty".into(), family: "pdata", pdu: Pdu::PData { data: vec![] } });
    for (a, x) in pdvs.iter().enumerate() {
        out.push(Case { id: format!("pdata/{a}"), family: "pdata", pdu: Pdu::PData { data: vec![x.clone()] } });
        for (b, y) in pdvs.iter().enumerate() {
            out.push(Case { id: format!("pdata/{a}/{b}"), family: "pdata", pdu: Pdu::PData { data: vec![x.clone(), y.clone()] } });
            for (c, z) in pdvs.iter().enumerate() {
                out.push(Case { id: format!("pdata/{a}/{b}/{c}"), family: "pdata", pdu: Pdu::PData { data: vec![x.clone(), y.clone(), z.clone()] } });
            }
        }
    }
    out
}

/// Boundary family: one variable-length field of size `n` in an otherwise small PDU.
const BOUNDARY_KINDS: &[&str] = &[
    "app-context",
    "abstract-syntax",
    "transfer-syntax-rq",
    "transfer-syntax-ac",
    "impl-class-uid",
    "impl-version-name",
    "ext-neg-data",
    "ext-neg-uid",
    "role-uid",
    "identity-primary",
    "identity-secondary",
    "unknown-user-item",
    "two-user-items-sum",
    "two-transfer-syntaxes-sum",
    "pdata",
    "unknown-pdu",
];

fn boundary_sizes(thorough: bool) -> Vec<usize> {
    let mut v: Vec<usize> = if thorough { (65_480..=65_540).collect() } else { (65_515..=65_537).collect() };
    v.extend([70_000, 131_080]);
    v
}

fn boundary_pdu(kind: &str, n: usize) -> Pdu {
    let text = |n: usize| "1".repeat(n);
    let rq = |app: String, pcs: Vec<PresentationContextProposed>, users: Vec<UserVariableItem>| {
        Pdu::AssociationRQ(AssociationRQ {
            protocol_version: 1,
            calling_ae_title: "SCU".into(),
            called_ae_title: "SCP".into(),
            application_context_name: app,
            presentation_contexts: pcs,
            user_variables: users,
        })
    };
    let pc = |abs: String, ts: Vec<String>| vec![PresentationContextProposed { id: 1, abstract_syntax: abs, transfer_syntaxes: ts }];
    let small_pc = || pc(VERIFICATION.into(), vec![IMPLICIT.into()]);
    let app = || rp::APP_CONTEXT.to_string();
    match kind {
        "app-context" => rq(text(n), small_pc(), vec![]),
        "abstract-syntax" => rq(app(), pc(text(n), vec![]), vec![]),
        "transfer-syntax-rq" => rq(app(), pc("1.2".into(), vec![text(n)]), vec![]),
        "transfer-syntax-ac" => Pdu::AssociationAC(AssociationAC {
            protocol_version: 1,
            calling_ae_title: "SCU".into(),
            called_ae_title: "SCP".into(),
            application_context_name: app(),
            presentation_contexts: vec![PresentationContextResult { id: 1, reason: PresentationContextResultReason::Acceptance, transfer_syntax: text(n) }],
            user_variables: vec![],
        }),
        "impl-class-uid" => rq(app(), small_pc(), vec![UserVariableItem::ImplementationClassUID(text(n))]),
        "impl-version-name" => rq(app(), small_pc(), vec![UserVariableItem::ImplementationVersionName(text(n))]),
        "ext-neg-data" => rq(app(), small_pc(), vec![UserVariableItem::SopClassExtendedNegotiationSubItem("1.2".into(), vec![7; n])]),
        "ext-neg-uid" => rq(app(), small_pc(), vec![UserVariableItem::SopClassExtendedNegotiationSubItem(text(n), vec![7])]),
        "role-uid" => rq(app(), small_pc(), vec![UserVariableItem::ScuScpRoleSelectionSubItem(text(n), RequestorRoles { scu: true, scp: false })]),
        "identity-primary" => rq(
            app(),
            small_pc(),
            vec![UserVariableItem::UserIdentityItem(UserIdentity::new(false, UserIdentityType::Jwt, vec![b'x'; n], vec![]))],
        ),
        "identity-secondary" => rq(
            app(),
            small_pc(),
            vec![UserVariableItem::UserIdentityItem(UserIdentity::new(false, UserIdentityType::UsernamePassword, b"u".to_vec(), vec![b'x'; n]))],
        ),
        "unknown-user-item" => rq(app(), small_pc(), vec![UserVariableItem::Unknown(0x5A, vec![9; n])]),
        "two-user-items-sum" => rq(
            app(),
            small_pc(),
            vec![UserVariableItem::Unknown(0x5A, vec![9; n / 2]), UserVariableItem::Unknown(0x5B, vec![9; n - n / 2])],
        ),
        "two-transfer-syntaxes-sum" => rq(app(), pc("1.2".into(), vec![text(n / 2), text(n - n / 2)]), vec![]),
        "pdata" => Pdu::PData {
            data: vec![PDataValue { presentation_context_id: 1, value_type: PDataValueType::Data, is_last: true, data: vec![5; n] }],
        },
        "unknown-pdu" => Pdu::Unknown { pdu_type: 0x08, data: vec![5; n] },
        _ => unreachable!(),
    }
}

// ------------------------------------------------------------------------------------------------
// the check of one PDU value

const READ_MAX: u32 = 16_384;

fn describe(p: &Pdu) -> String {
    let s = to_ref(p).summary();
    if s.len() > 400 {
        format!("{}...", &s[..400])
    } else {
        s
    }
}

fn run_case(l: &mut Local, case_id: &str, family: &str, sub: &str, p: &Pdu, all_prefixes: bool) {
    let reference = to_ref(p);
    let kind = reference.kind();
    let class = |stage: &str, effect: &str| json!({"family": family, "sub": sub, "kind": kind, "stage": stage, "effect": effect});
    let detail = |m: String| json!({"pdu": describe(p), "message": m});
    let want = rp::encode(&reference);
    let written = guard(|| {
        let mut v = Vec::new();
        write_pdu(&mut v, p).map(|_| v).map_err(|e| e.to_string())
    });
    let bytes = match (written, want) {
        (Err(pm), _) => {
            l.outcome("write-panic");
            l.fail(case_id, class("write", "panic"), detail(pm));
            return;
        }
        (Ok(Err(_)), Err(_)) => {
            l.outcome_with("write-refused-oversized", || json!({"case": case_id, "pdu": describe(p)}));
            return;
        }
        (Ok(Err(e)), Ok(_)) => {
            l.outcome("write-err");
            l.fail(case_id, class("write", "unexpected-error"), detail(e));
            return;
        }
        (Ok(Ok(b)), Err(why)) => {
            // content does not fit a length field: the writer had to fail
            let round = guard(|| read_pdu(&b[..], MAXIMUM_PDU_SIZE, false).map_err(|e| e.to_string()));
            let back = match round {
                Ok(Ok(Some(q))) if &q == p => "reads back equal".to_string(),
                Ok(Ok(Some(_))) => "reads back as a different PDU".to_string(),
                Ok(Ok(None)) => "reads back as incomplete".to_string(),
                Ok(Err(e)) => format!("reads back as error: {e}"),
                Err(pm) => format!("reader panics: {pm}"),
            };
            let refparse = rp::parse(&b, &rp::ParseOpts::default()).err().unwrap_or_else(|| "accepted".into());
            l.outcome("write-ok-but-oversized");
            l.fail(
                case_id,
                class("write", "length-field-overflow-not-refused"),
                detail(format!("{why}; write_pdu returned Ok with {} bytes; {back}; reference parser: {refparse}", b.len())),
            );
            return;
        }
        (Ok(Ok(b)), Ok(w)) => {
            if b != w {
                let at = b.iter().zip(w.iter()).position(|(x, y)| x != y).unwrap_or(b.len().min(w.len()));
                l.outcome("bytes-differ");
                l.fail(
                    case_id,
                    class("write", "bytes-differ-from-reference"),
                    detail(format!("first difference at offset {at}: wrote {} expected {}", rp::hex(&b[at..(at + 8).min(b.len())]), rp::hex(&w[at..(at + 8).min(w.len())]))),
                );
                return;
            }
            b
        }
    };
    // the reference parser accepts the output and returns the same model
    match rp::parse(&bytes, &rp::ParseOpts::default()) {
        Ok(back) => {
            if rp::encode(&back).ok().as_deref() != Some(&bytes[..]) {
                l.check.machinery_error(&format!("reference codec does not round-trip its own parse for {case_id}"));
                return;
            }
        }
        Err(e) => {
            // only possible for opaque items that are malformed instances of a standard sub-item
            l.outcome("ref-parse-reject");
            l.fail(case_id, class("ref-parse", "strict-parser-rejects-output"), detail(e));
            return;
        }
    }
    // read back, strict and not
    for strict in [false, true] {
        let max = if bytes.len() as u64 > READ_MAX as u64 + 6 { MAXIMUM_PDU_SIZE } else { READ_MAX };
        let r = guard(|| {
            let mut cur = &bytes[..];
            let r = read_pdu(&mut cur, max, strict).map_err(|e| e.to_string());
            (r, bytes.len() - cur.len())
        });
        match r {
            Err(pm) => {
                l.outcome("read-panic");
                l.fail(case_id, class("read", "panic"), detail(pm));
                return;
            }
            Ok((Err(e), _)) => {
                l.outcome("read-err");
                l.fail(case_id, class("read", "error"), detail(format!("strict={strict}: {e}")));
                return;
            }
            Ok((Ok(None), _)) => {
                l.outcome("read-none");
                l.fail(case_id, class("read", "incomplete"), detail(format!("strict={strict}: complete PDU read as incomplete")));
                return;
            }
            Ok((Ok(Some(q)), used)) => {
                if &q != p {
                    l.outcome("read-differs");
                    l.fail(case_id, class("read", "value-differs"), detail(format!("strict={strict}: read back {}", describe(&q))));
                    return;
                }
                if used != bytes.len() {
                    l.outcome("read-consumed-wrong");
                    l.fail(case_id, class("read", "consumed-wrong"), detail(format!("strict={strict}: consumed {used} of {} bytes", bytes.len())));
                    return;
                }
            }
        }
    }
    // followed by other bytes: consumes exactly its own
    {
        let mut two = bytes.clone();
        two.extend_from_slice(&[0x05, 0, 0, 0, 0, 4, 0, 0, 0, 0, 0xEE]);
        let max = if bytes.len() as u64 > READ_MAX as u64 + 6 { MAXIMUM_PDU_SIZE } else { READ_MAX };
        let r = guard(|| {
            let mut cur = &two[..];
            let a = read_pdu(&mut cur, max, true).map_err(|e| e.to_string());
            let used = two.len() - cur.len();
            let b = read_pdu(&mut cur, max, true).map_err(|e| e.to_string());
            (a, used, b, cur.len())
        });
        match r {
            Ok((Ok(Some(a)), used, Ok(Some(Pdu::ReleaseRQ)), 1)) if &a == p && used == bytes.len() => {}
            other => {
                l.outcome("read-followed-wrong");
                l.fail(case_id, class("read", "followed-by-next-pdu"), detail(format!("{other:?}").chars().take(300).collect()));
                return;
            }
        }
    }
    // every strict prefix is incomplete
    let prefix_lens: Vec<usize> = if all_prefixes {
        (0..bytes.len()).collect()
    } else {
        let n = bytes.len();
        let mut v: Vec<usize> = (0..12.min(n)).collect();
        v.extend([n / 2, n - 2, n - 1]);
        v
    };
    let max = if bytes.len() as u64 > READ_MAX as u64 + 6 { MAXIMUM_PDU_SIZE } else { READ_MAX };
    for k in prefix_lens {
        for strict in [false, true] {
            l.eval();
            let r = guard(|| read_pdu(&bytes[..k], max, strict).map_err(|e| e.to_string()));
            match r {
                Ok(Ok(None)) => {}
                Ok(Ok(Some(q))) => {
                    l.outcome("prefix-read-as-pdu");
                    l.fail(case_id, class("prefix", "read-as-pdu"), detail(format!("prefix of {k} bytes (strict={strict}) read as {}", describe(&q))));
                    return;
                }
                Ok(Err(e)) => {
                    l.outcome("prefix-error");
                    l.fail(case_id, class("prefix", "error"), detail(format!("prefix of {k} bytes (strict={strict}): {e}")));
                    return;
                }
                Err(pm) => {
                    l.outcome("prefix-panic");
                    l.fail(case_id, class("prefix", "panic"), detail(format!("prefix of {k} bytes: {pm}")));
                    return;
                }
            }
        }
    }
    l.outcome_with(&format!("ok-{kind}"), || json!({"case": case_id, "pdu": describe(p), "bytes": bytes.len()}));
}

// ------------------------------------------------------------------------------------------------
// code sweeps

/// Codes PS3.8 Table 9-21 defines (reserved ranges included: they are listed in the table).
fn rj_defined(result: u8, source: u8, reason: u8) -> bool {
    (result == 1 || result == 2)
        && match source {
            1 => (1..=10).contains(&reason),
            2 => (1..=2).contains(&reason),
            3 => reason <= 7,
            _ => false,
        }
}

/// Codes PS3.8 Table 9-26 defines; `significant` = the reason is significant (source 2 only).
fn abort_defined(source: u8, reason: u8) -> (bool, bool) {
    match source {
        0 => (true, false),
        2 => (reason <= 6, true),
        _ => (false, false),
    }
}

fn sweep_rj(l: &mut Local, result: u8, source: u8) {
    for reason in 0..=255u8 {
        let case_id = format!("rj-codes/{result}/{source}/{reason}");
        if !l.want(&case_id) {
            continue;
        }
        l.eval();
        let bytes = [3u8, 0, 0, 0, 0, 4, 0, result, source, reason];
        let defined = rj_defined(result, source, reason);
        let class = json!({"family": "rj-codes", "sub": "-", "kind": "ARJ", "stage": "read", "effect": if defined { "defined-code" } else { "undefined-code" }});
        let r = guard(|| {
            read_pdu(&bytes[..], READ_MAX, true).map_err(|e| e.to_string()).map(|o| {
                o.map(|p| {
                    let mut v = vec![];
                    let w = write_pdu(&mut v, &p).map_err(|e| e.to_string());
                    (p, w, v)
                })
            })
        });
        match r {
            Err(pm) => {
                l.outcome("rj-panic");
                l.fail(&case_id, class, json!({"bytes": rp::hex(&bytes), "panic": pm}));
            }
            Ok(Ok(Some((p, w, v)))) => {
                l.nontrivial(&case_id);
                if w.is_err() || v != bytes {
                    l.outcome("rj-not-preserved");
                    l.fail(&case_id, class, json!({"bytes": rp::hex(&bytes), "read": format!("{p:?}"), "rewritten": rp::hex(&v), "write": format!("{w:?}")}));
                } else {
                    l.outcome(if defined { "rj-defined-preserved" } else { "rj-undefined-accepted-preserved" });
                }
            }
            Ok(Ok(None)) => {
                l.outcome("rj-none");
                l.fail(&case_id, class, json!({"bytes": rp::hex(&bytes), "message": "complete PDU read as incomplete"}));
            }
            Ok(Err(e)) => {
                if defined {
                    l.outcome("rj-defined-rejected");
                    l.fail(&case_id, class, json!({"bytes": rp::hex(&bytes), "error": e}));
                } else {
                    l.outcome("rj-undefined-rejected");
                }
            }
        }
    }
}

fn sweep_abort(l: &mut Local, source: u8) {
    for reason in 0..=255u8 {
        let case_id = format!("abort-codes/{source}/{reason}");
        if !l.want(&case_id) {
            continue;
        }
        l.eval();
        let bytes = [7u8, 0, 0, 0, 0, 4, 0, 0, source, reason];
        let (defined, significant) = abort_defined(source, reason);
        let class = json!({"family": "abort-codes", "sub": "-", "kind": "ABORT", "stage": "read", "effect": if defined { "defined-code" } else { "undefined-code" }});
        let r = guard(|| {
            read_pdu(&bytes[..], READ_MAX, true).map_err(|e| e.to_string()).map(|o| {
                o.map(|p| {
                    let mut v = vec![];
                    let w = write_pdu(&mut v, &p).map_err(|e| e.to_string());
                    (p, w, v)
                })
            })
        });
        match r {
            Err(pm) => {
                l.outcome("abort-panic");
                l.fail(&case_id, class, json!({"bytes": rp::hex(&bytes), "panic": pm}));
            }
            Ok(Ok(Some((p, w, v)))) => {
                l.nontrivial(&case_id);
                // the reason of a service-user abort is not significant: it may be normalised to 0
                let same = w.is_ok() && v.len() == 10 && v[..9] == bytes[..9] && (v[9] == reason || (!significant && v[9] == 0));
                if !same {
                    l.outcome("abort-not-preserved");
                    l.fail(&case_id, class, json!({"bytes": rp::hex(&bytes), "read": format!("{p:?}"), "rewritten": rp::hex(&v)}));
                } else {
                    l.outcome(if defined { "abort-defined-preserved" } else { "abort-undefined-accepted-preserved" });
                }
            }
            Ok(Ok(None)) => {
                l.outcome("abort-none");
                l.fail(&case_id, class, json!({"bytes": rp::hex(&bytes), "message": "complete PDU read as incomplete"}));
            }
            Ok(Err(e)) => {
                if defined {
                    l.outcome("abort-defined-rejected");
                    l.fail(&case_id, class, json!({"bytes": rp::hex(&bytes), "error": e}));
                } else {
                    l.outcome("abort-undefined-rejected");
                }
            }
        }
    }
}

/// A PDU of the given kind whose PDU-length field is exactly `len`, built by the reference encoder
/// (or, for the fixed-length kinds, padded with zero bytes after the 4 defined bytes).
/// Returns (bytes, conforms to the grammar).
fn strict_pdu(kind: &str, len: u32) -> (Vec<u8>, bool) {
    let len = len as usize;
    let assoc = |is_rq: bool, users: Vec<RUserItem>, n_pcs: usize| -> RPdu {
        let mut head = RAssocHead::new("SCP", "SCU");
        head.user_info = Some(users);
        if is_rq {
            RPdu::AssociateRq {
                head,
                pcs: (0..n_pcs).map(|i| RPcRq { id: (2 * i + 1) as u8, abstract_syntax: b"1.2".to_vec(), transfer_syntaxes: vec![b"1.3".to_vec()] }).collect(),
            }
        } else {
            RPdu::AssociateAc { head, pcs: (0..n_pcs).map(|i| RPcAc { id: (2 * i + 1) as u8, result: (i % 5) as u8, transfer_syntax: b"1.3".to_vec() }).collect() }
        }
    };
    let body_len = |p: &RPdu| rp::encode(p).unwrap().len() - 6;
    let padded = |t: u8, first: [u8; 4]| {
        let mut b = first.to_vec();
        b.resize(len, 0);
        rp::frame(t, &b).unwrap()
    };
    match kind {
        "pdata" => (rp::encode(&RPdu::PData(vec![RPdv::new(1, false, true, vec![3; len - 6])])).unwrap(), true),
        "pdata-2pdv" => (rp::encode(&RPdu::PData(vec![RPdv::new(1, true, true, vec![3; 10]), RPdv::new(1, false, true, vec![4; len - 22])])).unwrap(), true),
        "unknown" => (rp::encode(&RPdu::Unknown { pdu_type: 0x09, data: vec![3; len] }).unwrap(), true),
        "rq-big-user-item" | "ac-big-user-item" => {
            let is_rq = kind.starts_with("rq");
            let base = body_len(&assoc(is_rq, vec![RUserItem::MaxLength(16384), RUserItem::Unknown { item_type: 0x5A, data: vec![] }], 1));
            (rp::encode(&assoc(is_rq, vec![RUserItem::MaxLength(16384), RUserItem::Unknown { item_type: 0x5A, data: vec![7; len - base] }], 1)).unwrap(), true)
        }
        "rq-many-contexts" | "ac-many-contexts" => {
            let is_rq = kind.starts_with("rq");
            // as many small presentation contexts as fit, the rest made up by the version name
            let one = body_len(&assoc(is_rq, vec![], 2)) - body_len(&assoc(is_rq, vec![], 1));
            let base = body_len(&assoc(is_rq, vec![RUserItem::ImplVersionName(vec![])], 0));
            let n = (len - base) / one;
            let rest = len - base - n * one;
            (rp::encode(&assoc(is_rq, vec![RUserItem::ImplVersionName(vec![b'V'; rest])], n)).unwrap(), true)
        }
        "rj-padded" => (padded(rp::T_ASSOCIATE_RJ, [0, 1, 1, 1]), false),
        "release-rq-padded" => (padded(rp::T_RELEASE_RQ, [0; 4]), false),
        "release-rp-padded" => (padded(rp::T_RELEASE_RP, [0; 4]), false),
        "abort-padded" => (padded(rp::T_ABORT, [0, 0, 2, 1]), false),
        _ => unreachable!(),
    }
}

const STRICT_KINDS: &[&str] = &[
    "pdata",
    "pdata-2pdv",
    "unknown",
    "rq-big-user-item",
    "ac-big-user-item",
    "rq-many-contexts",
    "ac-many-contexts",
    "rj-padded",
    "release-rq-padded",
    "release-rp-padded",
    "abort-padded",
];

/// strict mode: every PDU kind at PDU length max-1, max, max+1
fn strict_cases(l: &mut Local) {
    for max in [1018u32, 16_378, 65_536] {
        for (dname, len) in [("max-1", max - 1), ("max", max), ("max+1", max + 1)] {
            for &kind in STRICT_KINDS {
                if max == 65_536 && (kind.contains("big-user-item") || kind.contains("many-contexts")) {
                    // a user information item cannot exceed 65 535 bytes; many contexts is covered below that
                    if kind.contains("big-user-item") {
                        continue;
                    }
                }
                let case_id = format!("strict/{max}/{dname}/{kind}");
                if !l.want(&case_id) {
                    continue;
                }
                l.eval();
                l.nontrivial(&case_id);
                let (bytes, conforming) = strict_pdu(kind, len);
                assert_eq!(u32::from_be_bytes([bytes[2], bytes[3], bytes[4], bytes[5]]), len, "{case_id}");
                if conforming {
                    if let Err(e) = rp::parse(&bytes, &rp::ParseOpts::default()) {
                        l.check.machinery_error(&format!("{case_id}: reference parser rejects the generated PDU: {e}"));
                        continue;
                    }
                }
                let pdu_kind = match bytes[0] {
                    1 => "ARQ",
                    2 => "AAC",
                    3 => "ARJ",
                    4 => "DATA",
                    5 => "RRQ",
                    6 => "RRP",
                    7 => "ABORT",
                    _ => "UNK",
                };
                for strict in [true, false] {
                    let class = json!({"family": "strict", "sub": kind, "kind": pdu_kind, "stage": "read", "effect": format!("{dname}-strict={strict}")});
                    let r = guard(|| read_pdu(&bytes[..], max, strict).map_err(|e| e.to_string()));
                    let must_reject = strict && len > max;
                    match r {
                        Err(pm) => {
                            l.outcome("strict-panic");
                            l.fail(&case_id, class, json!({"panic": pm}));
                        }
                        Ok(Err(e)) if must_reject => l.outcome_with("strict-too-long-rejected", || json!({"case": case_id, "error": e})),
                        // padded fixed-length PDUs are outside the grammar: rejecting them is fine too
                        Ok(Err(_)) if !conforming => l.outcome("strict-padded-rejected"),
                        Ok(Ok(Some(q))) if !must_reject => {
                            let same_kind = to_ref(&q).kind() == pdu_kind;
                            if same_kind && (!conforming || rp::encode(&to_ref(&q)).ok().as_deref() == Some(&bytes[..])) {
                                l.outcome(if conforming { "strict-within-limit-read" } else { "strict-padded-read" });
                            } else {
                                l.outcome("strict-read-differs");
                                l.fail(&case_id, class, json!({"message": "read back a different PDU", "read": describe(&q)}));
                            }
                        }
                        other => {
                            l.outcome("strict-wrong");
                            l.fail(
                                &case_id,
                                class,
                                json!({"pdu_length": len, "max": max, "strict": strict, "got": format!("{other:?}").chars().take(200).collect::<String>()}),
                            );
                        }
                    }
                }
            }
        }
    }
}

fn main() {
    let check = Check::from_args("C25", Level::Exploration);
    check.set_rule("PDU values: A-ASSOCIATE-RQ/AC over (every list of <=3 (thorough 4) user items of distinct kinds from a 47-item alphabet covering all 7 user-variable kinds, all 5 identity types, payloads empty/1/odd/even, + reversed pairs + same-kind pairs) and over (AE titles x protocol version x application context x every list of 0-2 (thorough 0-3) presentation contexts with 0-2 transfer syntaxes, ids {1,255}, all 5 result reasons); every reject/abort value; release; unknown types {00,08,FF}; P-DATA with 0-3 PDVs of 0-3 bytes; boundary family: 16 variable-length fields x sizes 65515..=65537 (thorough 65480..=65540), 70000, 131080; every prefix of every small PDU x strict on/off; all 4x65536 reject and 65536 abort code patterns; strict mode: every PDU kind (P-DATA 1 and 2 PDVs, unknown, A-ASSOCIATE-RQ/AC made long by one big user item and by many presentation contexts, zero-padded RJ/release/abort) at PDU length max-1/max/max+1 for max in {1018, 16378, 65536}. A case is one PDU value; non-trivial = write_pdu was called and the oracle compared");
    check.assume("vx-ref PS3.8 codec (written from the standard) and the field-meaning translation to_ref are the trusted base");

    let cases = small_universe(check.thorough());
    check.extra("small_universe", json!(cases.len()));
    check.par_range(cases.len() as u64, |l, i| {
        let c = &cases[i as usize];
        if !l.want(&c.id) {
            return;
        }
        l.eval();
        l.nontrivial(&c.id);
        run_case(l, &c.id, c.family, "-", &c.pdu, true);
    });

    let sizes = boundary_sizes(check.thorough());
    let nb = (BOUNDARY_KINDS.len() * sizes.len()) as u64;
    check.extra("boundary_universe", json!(nb));
    check.par_range(nb, |l, i| {
        let kind = BOUNDARY_KINDS[i as usize / sizes.len()];
        let n = sizes[i as usize % sizes.len()];
        let case_id = format!("boundary/{kind}/{n}");
        if !l.want(&case_id) {
            return;
        }
        l.eval();
        l.nontrivial(&case_id);
        let p = boundary_pdu(kind, n);
        run_case(l, &case_id, "boundary", kind, &p, false);
    });

    // code sweeps: results 0..=3 x sources 0..=255 (x 256 reasons each); abort sources 0..=255
    check.par_range(4 * 256, |l, i| sweep_rj(l, (i / 256) as u8, (i % 256) as u8));
    check.par_range(256, |l, i| sweep_abort(l, i as u8));
    {
        let mut l = check.local();
        strict_cases(&mut l);
    }
    let _: Option<Value> = None;
    check.finish();
}
