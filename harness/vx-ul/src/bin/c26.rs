//! C26 — P-DATA fragmentation and reassembly under any schedule.
//!
//! Subjects: `PDataWriter` (`Write`, `finish`, drop), `AsyncPDataWriter` (`poll_write` through
//! `write_all`, `finish`) — both built through the hook constructors `verif_new` over scripted
//! transports — and `PDataReader` (`Read` and `AsyncRead`).
//!
//! Parts (each a family of cases):
//!  sw   sync writer, every composition of the payload into write calls, transport accepts everything
//!  sws  sync writer under every transport schedule (partial writes, Ok(0), Err) with <= D deviations
//!  aw   async writer under every schedule of transport answers {all, 1, half, Pending, Ok(0), Err}:
//!       <= D deviations, and every schedule of the first K answers without a deviation bound
//!  rd   sync reader over every segmentation (<= k cuts, and all-1-byte) x read sizes {1, 2, 64}
//!  ard  async reader, same plus Pending before <= 2 deliveries
//!
//! Oracle for a writer: the bytes that reached the transport parse (strict PS3.8 reference parser)
//! into P-DATA-TF PDUs with PDU length <= M, one PDV each, the given context id, type Data, `last`
//! only on the final one, payloads concatenating to the input; the async writer's bytes equal the
//! sync writer's for the same write calls under every schedule; a transport `Ok(0)`/`Err` surfaces
//! as an error; a schedule without such an answer never fails and never stalls (Pending without
//! wake-up). Oracle for the reader: reads return exactly the concatenated payload, then EOF;
//! what was received but not consumed plus what the transport still holds is exactly what followed;
//! the next receive on the same `read_buffer` returns the A-RELEASE-RQ that followed.
//!
//! Model-checking report: states = distinct (writer mode, position in the PDU being sent, length of
//! the PDU buffer) triples measured at the transport, resp. distinct (bytes delivered, bytes
//! returned, EOF seen) triples of the reader; transitions = polls / read calls; traces = executions.
use bytes::BytesMut;
use dicom_ul::association::{read_pdu_from_wire, AsyncPDataWriter, PDataReader, PDataWriter};
use dicom_ul::pdu::Pdu;
use std::collections::HashSet;
use std::io::{Read, Write};
use std::sync::Mutex;
use tokio::io::{AsyncReadExt, AsyncWriteExt};
use vx_kit::gen::{compositions, cut_sets, cuts_to_segments, subsets_up_to};
use vx_kit::{explore, guard, json, Check, Ctx, Level, Local, Value};
use vx_ref::pdu as rp;
use vx_ref::pdu::{RPdu, RPdv};
use vx_ul::*;

const PC: u8 = 5;

fn payload(n: usize) -> Vec<u8> {
    (0..n).map(|i| (i * 7 + 1) as u8).collect()
}

/// The statement's predicate on what reached the transport. Returns the number of PDUs.
fn check_stream(bytes: &[u8], m: u32, want: &[u8]) -> Result<usize, String> {
    let (pdus, rest) = rp::parse_stream(bytes, &rp::ParseOpts::default())?;
    if rest != 0 {
        return Err(format!("{rest} trailing bytes that are not a complete PDU"));
    }
    if pdus.is_empty() {
        return Err("no PDU at all (the final fragment must be marked last)".into());
    }
    let mut got = vec![];
    let mut pos = 0usize;
    for (i, p) in pdus.iter().enumerate() {
        let len = u32::from_be_bytes([bytes[pos + 2], bytes[pos + 3], bytes[pos + 4], bytes[pos + 5]]);
        pos += 6 + len as usize;
        if len > m {
            return Err(format!("PDU #{i} has PDU length {len} > maximum {m}"));
        }
        let RPdu::PData(pdvs) = p else { return Err(format!("PDU #{i} is {}", p.kind())) };
        if pdvs.len() != 1 {
            return Err(format!("PDU #{i} has {} PDVs", pdvs.len()));
        }
        let v = &pdvs[0];
        if v.pc_id != PC {
            return Err(format!("PDU #{i}: context id {}", v.pc_id));
        }
        if v.is_command() {
            return Err(format!("PDU #{i}: marked as command"));
        }
        if v.is_last() != (i + 1 == pdus.len()) {
            return Err(format!("PDU #{i} of {}: last flag is {}", pdus.len(), v.is_last()));
        }
        got.extend_from_slice(&v.data);
    }
    if got != want {
        return Err(format!("payloads concatenate to {} bytes {}, input was {} bytes {}", got.len(), rp::hex(&got), want.len(), rp::hex(want)));
    }
    Ok(pdus.len())
}

/// (mode, position in the current PDU, buffer length) triples seen at the transport
fn writer_states(calls: &[(usize, WAns)], out: &mut HashSet<(u8, u32, u32)>) {
    // reconstruct PDU boundaries from the offered lengths: an offer is the rest of the current PDU
    let mut pos = 0usize;
    let mut prev_pending = false;
    for &(offered, ans) in calls {
        out.insert((prev_pending as u8, pos as u32, (pos + offered) as u32));
        let n = match ans {
            WAns::All => offered,
            WAns::One => offered.min(1),
            WAns::Half => (offered / 2).max(1).min(offered),
            _ => 0,
        };
        prev_pending = ans == WAns::Pending;
        pos += n;
        if n == offered {
            pos = 0;
        }
    }
}

struct Shared {
    wstates: Mutex<HashSet<(u8, u32, u32)>>,
    rstates: Mutex<HashSet<(u32, u32, u8)>>,
}

fn chunk_name(ch: &[usize]) -> String {
    // run-length encoded: 3x1+2 = 1,1,1,2
    let mut out: Vec<String> = vec![];
    let mut i = 0;
    while i < ch.len() {
        let mut j = i;
        while j < ch.len() && ch[j] == ch[i] {
            j += 1;
        }
        out.push(if j - i > 2 { format!("{}x{}", j - i, ch[i]) } else { ch[i..j].iter().map(|c| c.to_string()).collect::<Vec<_>>().join("+") });
        i = j;
    }
    out.join("+")
}

fn short_hex(b: &[u8]) -> String {
    if b.len() <= 96 {
        rp::hex(b)
    } else {
        format!("{}...({} bytes)", rp::hex(&b[..96]), b.len())
    }
}

fn short_list(a: &[&str]) -> String {
    if a.len() <= 40 {
        a.join(",")
    } else {
        format!("{},...({} answers)", a[..40].join(","), a.len())
    }
}

fn dedup_chunkings(v: Vec<Vec<usize>>) -> Vec<Vec<usize>> {
    let mut out: Vec<Vec<usize>> = vec![];
    for c in v {
        if !out.contains(&c) {
            out.push(c);
        }
    }
    out
}

fn chunks_of(n: usize, k: usize) -> Vec<usize> {
    let mut v = vec![];
    let mut left = n;
    while left > 0 {
        let t = left.min(k.max(1));
        v.push(t);
        left -= t;
    }
    v
}

// ------------------------------------------------------------------------------------------------
// sync writer

#[derive(Clone, Copy, PartialEq, Eq, Debug)]
enum End {
    Finish,
    Drop,
}

fn run_sync_writer(data: &[u8], chunks: &[usize], m: u32, tw: ScriptWrite, end: End) -> Result<(), String> {
    let mut w = PDataWriter::verif_new(tw, PC, m);
    let mut pos = 0;
    for &c in chunks {
        w.write_all(&data[pos..pos + c]).map_err(|e| format!("write_all: {:?}: {e}", e.kind()))?;
        pos += c;
    }
    match end {
        End::Finish => w.finish().map_err(|e| format!("finish: {:?}: {e}", e.kind())),
        End::Drop => {
            drop(w);
            Ok(())
        }
    }
}

fn sync_writer_case(l: &mut Local, sh: &Shared, c: usize, n: usize, chunks: &[usize], end: End) {
    let m = (c + 6) as u32;
    let case_id = format!("sw/c{c}/n{n}/{}/{end:?}", chunk_name(chunks));
    if !l.want(&case_id) {
        return;
    }
    l.eval();
    l.nontrivial(&case_id);
    let data = payload(n);
    let (tw, rec) = ScriptWrite::new(Decide::Default);
    let r = guard(|| run_sync_writer(&data, chunks, m, tw, end));
    let exact_fill = {
        // some write call starts with the PDU buffer exactly full (model of the intended behaviour)
        let mut fill = 0usize;
        let mut hit = false;
        for &ch in chunks {
            if ch > 0 && fill == c {
                hit = true;
            }
            let mut rem = ch;
            while fill + rem > c {
                rem -= c - fill;
                fill = 0;
            }
            fill += rem;
        }
        hit
    };
    let class = |effect: &str| json!({"part": "sync-writer", "end": format!("{end:?}"), "effect": effect, "write_starts_on_full_buffer": exact_fill, "transport": "accepts-all"});
    let detail = |msg: String| json!({"max_pdu_length": m, "payload_len": n, "write_calls": chunk_name(chunks), "transport_bytes": short_hex(&rec.bytes()), "message": msg});
    let mut st = HashSet::new();
    writer_states(&rec.calls(), &mut st);
    sh.wstates.lock().unwrap().extend(st);
    l.check.add_transitions(rec.calls().len() as u64 + chunks.len() as u64 + 1);
    l.check.add_traces(1);
    match r {
        Err(p) => {
            l.outcome("sw-panic");
            l.fail(&case_id, class("panic"), detail(p));
        }
        Ok(Err(e)) => {
            l.outcome("sw-error-without-fault");
            l.fail(&case_id, class("error-without-transport-fault"), detail(e));
        }
        Ok(Ok(())) => match check_stream(&rec.bytes(), m, &data) {
            Ok(k) => l.outcome_with(if k == 1 { "sw-ok-1-pdu" } else { "sw-ok-n-pdus" }, || detail(format!("{k} PDUs"))),
            Err(e) => {
                l.outcome("sw-bad-stream");
                l.fail(&case_id, class("bad-stream"), detail(e));
            }
        },
    }
}

/// sync writer under transport schedules
fn sync_writer_schedules(l: &mut Local, sh: &Shared, c: usize, n: usize, chunks: &[usize], bound: usize) {
    let m = (c + 6) as u32;
    let case_id = format!("sws/c{c}/n{n}/{}", chunk_name(chunks));
    if !l.want(&case_id) {
        return;
    }
    let data = payload(n);
    let mut st = HashSet::new();
    let mut failures: Vec<(Value, Value)> = vec![];
    let mut trans = 0u64;
    let stats = explore(Some(bound), 2_000_000, |ctx: &Ctx| {
        let (tw, rec) = ScriptWrite::explored(ctx, 16);
        let r = guard(|| run_sync_writer(&data, chunks, m, tw, End::Finish));
        let calls = rec.calls();
        writer_states(&calls, &mut st);
        trans += calls.len() as u64;
        l.eval();
        let faults = calls.iter().filter(|c| matches!(c.1, WAns::Zero | WAns::Err)).count();
        let answers: Vec<&str> = calls.iter().map(|c| c.1.name()).collect();
        let class = |effect: &str| json!({"part": "sync-writer-schedules", "effect": effect, "transport": if faults > 0 { "fault" } else { "partial-writes" }});
        let detail = |msg: String| json!({"max_pdu_length": m, "payload_len": n, "write_calls": chunk_name(chunks), "transport_answers": short_list(&answers), "transport_bytes": short_hex(&rec.bytes()), "message": msg});
        match r {
            Err(p) => {
                l.outcome("sws-panic");
                failures.push((class("panic"), detail(p)));
            }
            Ok(Err(e)) if faults > 0 => {
                let _ = e;
                l.outcome("sws-fault-surfaced");
            }
            Ok(Err(e)) => {
                l.outcome("sws-error-without-fault");
                failures.push((class("error-without-transport-fault"), detail(e)));
            }
            Ok(Ok(())) if faults > 0 => {
                l.outcome("sws-fault-swallowed");
                failures.push((class("transport-fault-not-reported"), detail("Ok returned although the transport answered Ok(0)/Err".into())));
            }
            Ok(Ok(())) => match check_stream(&rec.bytes(), m, &data) {
                Ok(_) => l.outcome(if calls.iter().any(|c| c.1 != WAns::All) { "sws-ok-partial" } else { "sws-ok" }),
                Err(e) => {
                    l.outcome("sws-bad-stream");
                    failures.push((class("bad-stream"), detail(e)));
                }
            },
        }
    });
    finish_explored(l, sh, &case_id, stats, st, trans, failures);
}

fn finish_explored(
    l: &mut Local,
    sh: &Shared,
    case_id: &str,
    stats: Result<vx_kit::ExploreStats, String>,
    st: HashSet<(u8, u32, u32)>,
    trans: u64,
    failures: Vec<(Value, Value)>,
) {
    match stats {
        Err(e) => l.check.machinery_error(&format!("{case_id}: {e}")),
        Ok(s) => {
            if s.capped {
                l.check.cap(&format!("{case_id}: execution cap hit"));
            }
            l.check.add_traces(s.executions);
            l.check.add_transitions(trans);
        }
    }
    l.nontrivial(&case_id);
    sh.wstates.lock().unwrap().extend(st);
    // one report per distinct class of a configuration (the first schedule of each)
    let mut seen = HashSet::new();
    for (class, detail) in failures {
        if seen.insert(class.to_string()) {
            l.fail(case_id, class, detail);
        }
    }
}

// ------------------------------------------------------------------------------------------------
// async writer

thread_local! {
    static RT: tokio::runtime::Runtime = context_runtime();
}

fn run_async_writer(data: &[u8], chunks: &[usize], m: u32, tw: ScriptAsyncWrite) -> Driven<Result<(), String>> {
    RT.with(|rt| {
        let _g = rt.enter();
        let mut w = AsyncPDataWriter::verif_new(tw, PC, m);
        drive_local(
            async move {
                let mut pos = 0;
                for &c in chunks {
                    w.write_all(&data[pos..pos + c]).await.map_err(|e| format!("write_all: {:?}: {e}", e.kind()))?;
                    pos += c;
                }
                w.finish().await.map_err(|e| format!("finish: {:?}: {e}", e.kind()))
            },
            10_000,
        )
    })
}

fn async_writer_case(l: &mut Local, sh: &Shared, c: usize, n: usize, chunks: &[usize], bound: Option<usize>, budget: usize) {
    let m = (c + 6) as u32;
    let case_id = format!("aw/c{c}/n{n}/{}/{}", chunk_name(chunks), match bound {
        Some(b) => format!("d{b}"),
        None => format!("free{budget}"),
    });
    if !l.want(&case_id) {
        return;
    }
    let data = payload(n);
    // reference: the sync writer over an accept-all transport with the same write calls
    let (tw, srec) = ScriptWrite::new(Decide::Default);
    let sync_ok = guard(|| run_sync_writer(&data, chunks, m, tw, End::Finish));
    let sync_bytes = match sync_ok {
        Ok(Ok(())) => Some(srec.bytes()),
        _ => None, // reported by the sw part; here the predicate oracle alone decides
    };
    let mut st = HashSet::new();
    let mut failures: Vec<(Value, Value)> = vec![];
    let mut trans = 0u64;
    let stats = explore(bound, 3_000_000, |ctx: &Ctx| {
        let (tw, rec) = ScriptAsyncWrite::explored(ctx, budget);
        let r = guard(|| run_async_writer(&data, chunks, m, tw));
        let calls = rec.calls();
        writer_states(&calls, &mut st);
        l.eval();
        let faults = calls.iter().filter(|c| matches!(c.1, WAns::Zero | WAns::Err)).count();
        let pendings = calls.iter().filter(|c| c.1 == WAns::Pending).count();
        let answers: Vec<&str> = calls.iter().map(|c| c.1.name()).collect();
        let mut kinds: Vec<&str> = answers.iter().copied().filter(|a| *a != "all").collect();
        kinds.sort();
        kinds.dedup();
        let class = |effect: &str| json!({"part": "async-writer", "effect": effect, "deviating_answers": kinds.join("+")});
        let detail = |msg: String| json!({"max_pdu_length": m, "payload_len": n, "write_calls": chunk_name(chunks), "transport_answers": short_list(&answers), "transport_bytes": short_hex(&rec.bytes()), "message": msg});
        match r {
            Err(p) => {
                l.outcome("aw-panic");
                failures.push((class("panic"), detail(p)));
            }
            Ok(Driven::Stalled { polls }) => {
                trans += polls as u64 + calls.len() as u64;
                l.outcome("aw-stalled");
                failures.push((class("pending-without-wakeup"), detail(format!("future returned Pending at poll {polls} and nobody woke it"))));
            }
            Ok(Driven::Runaway { polls }) => {
                trans += polls as u64 + calls.len() as u64;
                l.outcome("aw-runaway");
                failures.push((class("does-not-terminate"), detail(format!("{polls} polls"))));
            }
            Ok(Driven::Done { value, polls }) => {
                trans += polls as u64 + calls.len() as u64;
                match value {
                    Err(_) if faults > 0 => l.outcome("aw-fault-surfaced"),
                    Err(e) => {
                        l.outcome("aw-error-without-fault");
                        failures.push((class("error-without-transport-fault"), detail(e)));
                    }
                    Ok(()) if faults > 0 => {
                        l.outcome("aw-fault-swallowed");
                        failures.push((class("transport-fault-not-reported"), detail("Ok returned although the transport answered Ok(0)/Err".into())));
                    }
                    Ok(()) => {
                        let bytes = rec.bytes();
                        if let Err(e) = check_stream(&bytes, m, &data) {
                            l.outcome("aw-bad-stream");
                            failures.push((class("bad-stream"), detail(e)));
                        } else if sync_bytes.as_ref().is_some_and(|s| *s != bytes) {
                            l.outcome("aw-differs-from-sync");
                            failures.push((class("bytes-differ-from-sync-writer"), detail(format!("sync writer wrote {}", rp::hex(sync_bytes.as_ref().unwrap())))));
                        } else {
                            l.outcome(if pendings > 0 {
                                "aw-ok-with-pending"
                            } else if calls.iter().any(|c| c.1 != WAns::All) {
                                "aw-ok-partial"
                            } else {
                                "aw-ok"
                            });
                        }
                    }
                }
            }
        }
    });
    finish_explored(l, sh, &case_id, stats, st, trans, failures);
}

// ------------------------------------------------------------------------------------------------
// reader

struct Stream {
    name: String,
    bytes: Vec<u8>,
    /// concatenated PDV payloads
    payload: Vec<u8>,
    /// offset where the P-DATA PDUs end
    data_end: usize,
}

const TRAILER: [u8; 3] = [0x04, 0x00, 0xEE];

/// 1-3 P-DATA PDUs with 1-2 PDVs each; only the very last PDV is marked last; PDV payloads of
/// 1-3 bytes (the final one may be empty); then A-RELEASE-RQ and 3 trailing bytes.
fn streams() -> Vec<Stream> {
    let mut out = vec![];
    for npdu in 1..=3usize {
        for mask in 0..(1u32 << npdu) {
            for last_empty in [false, true] {
                let mut pdus = vec![];
                let mut payload = vec![];
                let mut k = 0u8;
                for i in 0..npdu {
                    let npdv = if mask & (1 << i) != 0 { 2 } else { 1 };
                    let mut pdvs = vec![];
                    for j in 0..npdv {
                        let is_last = i + 1 == npdu && j + 1 == npdv;
                        let len = if is_last && last_empty { 0 } else { 1 + (k as usize % 3) };
                        let data: Vec<u8> = (0..len).map(|x| 0x10 * (k + 1) + x as u8).collect();
                        k += 1;
                        payload.extend_from_slice(&data);
                        pdvs.push(RPdv::new(PC, false, is_last, data));
                    }
                    pdus.push(RPdu::PData(pdvs));
                }
                if last_empty && mask != 0 && npdu > 1 {
                    continue; // keep the universe small: empty final fragment only with 1-PDV PDUs or a single PDU
                }
                pdus.push(RPdu::ReleaseRq);
                let (mut bytes, ends) = rp::encode_stream(&pdus).unwrap();
                bytes.extend_from_slice(&TRAILER);
                out.push(Stream { name: format!("p{npdu}m{mask}e{}", last_empty as u8), bytes, payload, data_end: ends[ends.len() - 2] });
            }
        }
    }
    out
}

const READ_MAX: u32 = 16_384;

fn reader_verdict(
    s: &Stream,
    got: &[u8],
    read_err: Option<String>,
    read_buffer_after: &[u8],
    delivered: usize,
    next: Result<Pdu, String>,
    read_buffer_final: &[u8],
    delivered_final: usize,
) -> Result<(), (String, String)> {
    if let Some(e) = read_err {
        return Err(("read-error".into(), e));
    }
    if got != s.payload {
        return Err(("payload-differs".into(), format!("read {} expected {}", rp::hex(got), rp::hex(&s.payload))));
    }
    // received but not consumed + still in the transport == what followed
    let mut rest = read_buffer_after.to_vec();
    rest.extend_from_slice(&s.bytes[delivered..]);
    if rest != s.bytes[s.data_end..] {
        return Err(("following-bytes-lost-or-duplicated".into(), format!("read_buffer {} + undelivered {} != following {}", rp::hex(read_buffer_after), rp::hex(&s.bytes[delivered..]), rp::hex(&s.bytes[s.data_end..]))));
    }
    match next {
        Ok(Pdu::ReleaseRQ) => {}
        Ok(p) => return Err(("next-receive-wrong".into(), format!("{p:?}"))),
        Err(e) => return Err(("next-receive-error".into(), e)),
    }
    let mut rest = read_buffer_final.to_vec();
    rest.extend_from_slice(&s.bytes[delivered_final..]);
    if rest != TRAILER {
        return Err(("trailing-bytes-lost-or-duplicated".into(), format!("after the release request: {}", rp::hex(&rest))));
    }
    Ok(())
}

fn sync_reader_case(l: &mut Local, sh: &Shared, s: &Stream, segs: &[usize], seg_name: &str, bufsize: usize) {
    let case_id = format!("rd/{}/{seg_name}/b{bufsize}", s.name);
    if !l.want(&case_id) {
        return;
    }
    l.eval();
    l.nontrivial(&case_id);
    let mut st = HashSet::new();
    let mut trans = 0u64;
    let r = guard(|| {
        let (mut tr, rec) = ScriptRead::segmented(s.bytes.clone(), segs);
        let mut rb = BytesMut::new();
        let mut got = vec![];
        let mut err = None;
        {
            let mut rd = PDataReader::new(&mut tr, READ_MAX, &mut rb);
            let mut buf = vec![0u8; bufsize];
            loop {
                trans += 1;
                match rd.read(&mut buf) {
                    Ok(0) => {
                        st.insert((rec.pos() as u32, got.len() as u32, 1u8));
                        break;
                    }
                    Ok(k) => {
                        got.extend_from_slice(&buf[..k]);
                        st.insert((rec.pos() as u32, got.len() as u32, 0u8));
                    }
                    Err(e) => {
                        err = Some(e.to_string());
                        break;
                    }
                }
                if got.len() > s.payload.len() + 64 {
                    err = Some("reader returns more than the payload".into());
                    break;
                }
            }
        }
        let after = rb.to_vec();
        let delivered = rec.pos();
        let next = read_pdu_from_wire(&mut tr, &mut rb, READ_MAX, true).map_err(|e| e.to_string());
        trans += rec.calls() as u64;
        (got, err, after, delivered, next, rb.to_vec(), rec.pos())
    });
    l.check.add_transitions(trans);
    l.check.add_traces(1);
    sh.rstates.lock().unwrap().extend(st);
    let class = |effect: &str| json!({"part": "sync-reader", "effect": effect, "read_size": bufsize});
    let detail = |m: String| json!({"stream": rp::hex(&s.bytes), "segments": segs, "read_size": bufsize, "message": m});
    match r {
        Err(p) => {
            l.outcome("rd-panic");
            l.fail(&case_id, class("panic"), detail(p));
        }
        Ok((got, err, after, delivered, next, fin, delivered_final)) => match reader_verdict(s, &got, err, &after, delivered, next, &fin, delivered_final) {
            Ok(()) => l.outcome(if after.is_empty() { "rd-ok-nothing-buffered" } else { "rd-ok-leftover-buffered" }),
            Err((effect, m)) => {
                l.outcome(&format!("rd-{effect}"));
                l.fail(&case_id, class(&effect), detail(m));
            }
        },
    }
}

fn async_reader_case(l: &mut Local, sh: &Shared, s: &Stream, segs: &[usize], seg_name: &str, pend: &[usize], bufsize: usize) {
    let case_id = format!("ard/{}/{seg_name}/p{}/b{bufsize}", s.name, pend.iter().map(|p| p.to_string()).collect::<Vec<_>>().join("."));
    if !l.want(&case_id) {
        return;
    }
    l.eval();
    l.nontrivial(&case_id);
    let mut st = HashSet::new();
    let mut trans = 0u64;
    let r = guard(|| {
        let (mut tr, rec) = ScriptAsyncRead::segmented(s.bytes.clone(), segs, pend);
        let mut rb = BytesMut::new();
        let mut got = vec![];
        let mut err = None;
        {
            let mut rd = PDataReader::new(&mut tr, READ_MAX, &mut rb);
            let mut buf = vec![0u8; bufsize];
            loop {
                match drive_local(rd.read(&mut buf), 1000) {
                    Driven::Done { value: Ok(0), polls } => {
                        trans += polls as u64;
                        st.insert((rec.pos() as u32, got.len() as u32, 1u8));
                        break;
                    }
                    Driven::Done { value: Ok(k), polls } => {
                        trans += polls as u64;
                        got.extend_from_slice(&buf[..k]);
                        st.insert((rec.pos() as u32, got.len() as u32, 0u8));
                    }
                    Driven::Done { value: Err(e), .. } => {
                        err = Some(e.to_string());
                        break;
                    }
                    Driven::Stalled { polls } => {
                        err = Some(format!("Pending without wake-up at poll {polls}"));
                        break;
                    }
                    Driven::Runaway { polls } => {
                        err = Some(format!("no progress after {polls} polls"));
                        break;
                    }
                }
                if got.len() > s.payload.len() + 64 {
                    err = Some("reader returns more than the payload".into());
                    break;
                }
            }
        }
        let after = rb.to_vec();
        let delivered = rec.pos();
        let next = match drive_local(dicom_ul::association::read_pdu_from_wire_async(&mut tr, &mut rb, READ_MAX, true), 1000) {
            Driven::Done { value, .. } => value.map_err(|e| e.to_string()),
            Driven::Stalled { polls } => Err(format!("Pending without wake-up at poll {polls}")),
            Driven::Runaway { polls } => Err(format!("no progress after {polls} polls")),
        };
        trans += rec.calls() as u64;
        (got, err, after, delivered, next, rb.to_vec(), rec.pos(), rec.pendings())
    });
    l.check.add_transitions(trans);
    l.check.add_traces(1);
    sh.rstates.lock().unwrap().extend(st);
    let class = |effect: &str| json!({"part": "async-reader", "effect": effect, "read_size": bufsize, "pendings": pend.len()});
    let detail = |m: String| json!({"stream": rp::hex(&s.bytes), "segments": segs, "pending_before_delivery": pend, "read_size": bufsize, "message": m});
    match r {
        Err(p) => {
            l.outcome("ard-panic");
            l.fail(&case_id, class("panic"), detail(p));
        }
        Ok((got, err, after, delivered, next, fin, delivered_final, pendings)) => match reader_verdict(s, &got, err, &after, delivered, next, &fin, delivered_final) {
            Ok(()) => l.outcome(if pendings > 0 { "ard-ok-pending-consumed" } else { "ard-ok" }),
            Err((effect, m)) => {
                l.outcome(&format!("ard-{effect}"));
                l.fail(&case_id, class(&effect), detail(m));
            }
        },
    }
}

/// every segmentation whose first cut is `first`, with at most `max_cuts` cuts
fn reader_job(l: &mut Local, sh: &Shared, s: &Stream, first: Option<usize>, max_cuts: usize) {
    let len = s.bytes.len();
    let mut sets: Vec<Vec<usize>> = vec![];
    match first {
        None => sets.push(vec![]),
        Some(f) => {
            // subsets of (f+1..len) with <= max_cuts-1 elements, shifted
            for rest in cut_sets(len - f, max_cuts - 1) {
                let mut c = vec![f];
                c.extend(rest.iter().map(|x| x + f));
                sets.push(c);
            }
        }
    }
    let mut segms: Vec<(Vec<usize>, String, usize)> = sets
        .into_iter()
        .map(|c| (cuts_to_segments(len, &c), format!("cut{}", c.iter().map(|x| x.to_string()).collect::<Vec<_>>().join(".")), c.len()))
        .collect();
    if first.is_none() {
        segms.push((vec![1; len], "bytewise".into(), usize::MAX));
    }
    for (segs, name, ncuts) in segms {
        for bufsize in [1usize, 2, 64] {
            sync_reader_case(l, sh, s, &segs, &name, bufsize);
        }
        // async: Pending before <= 2 of the deliveries (for the bytewise one: among the first 6)
        if ncuts <= 2 || ncuts == usize::MAX {
            for pend in subsets_up_to(segs.len().min(6), 2) {
                for bufsize in [1usize, 64] {
                    async_reader_case(l, sh, s, &segs, &name, &pend, bufsize);
                }
            }
        } else {
            async_reader_case(l, sh, s, &segs, &name, &[], 2);
        }
    }
}

// ------------------------------------------------------------------------------------------------

enum Job {
    Sw { c: usize, n: usize, chunks: Vec<usize>, end: End },
    Sws { c: usize, n: usize, chunks: Vec<usize> },
    Aw { c: usize, n: usize, chunks: Vec<usize>, bound: Option<usize>, budget: usize },
    /// all segmentations of one stream whose first cut is `first` (None: no cut, and the bytewise one)
    Reader { stream: usize, first: Option<usize> },
}

fn main() {
    let check = Check::from_args("C26", Level::ModelChecking);
    let big_n = check.pick(10usize, 16);
    let dev = check.pick(2usize, 3);
    let free_budget = check.pick(5usize, 7);
    let cuts = check.pick(2usize, 4);
    check.set_rule(&format!(
        "sync writer: capacity c=M-6 in {{1,2,3,5}}, payload n in 0..={big_n}, every composition of n into write calls, finish and drop; real minimum M in {{1018,1019}} with n in {{0,1,c-1,c,c+1,2c,2c+1}} x chunkings {{whole,1-byte,c,c+1}}; sync transport schedules {{all,1,half,Ok(0),Err}} with <= {dev} deviations; async writer: same payloads, chunkings {{whole,1-byte,c+1}}, every schedule of transport answers {{all,1,half,Pending,Ok(0),Err}} with <= {dev} deviations, and for n <= 2c+1 every schedule of the first {free_budget} answers without deviation bound; reader: 18 reference streams (1-3 P-DATA PDUs x 1-2 PDVs, then A-RELEASE-RQ + 3 bytes), every segmentation with <= {cuts} cuts and the all-1-byte one, read sizes {{1,2,64}}; async reader additionally Pending before <= 2 deliveries. A case is one (configuration, write calls / segmentation); every schedule of it is an execution; non-trivial = the writer/reader ran"
    ));
    check.assume("vx-ref PS3.8 parser/encoder; scripted transports of vx-ul (Pending always after wake_by_ref)");
    check.assume("PDataWriter/AsyncPDataWriter constructed through the verif-hooks constructors (one-line forwards to the crate-private `new`)");
    let sh = Shared { wstates: Mutex::new(HashSet::new()), rstates: Mutex::new(HashSet::new()) };

    let mut jobs: Vec<Job> = vec![];
    for c in [1usize, 2, 3, 5] {
        for n in 0..=big_n {
            for chunks in compositions(n) {
                for end in [End::Finish, End::Drop] {
                    jobs.push(Job::Sw { c, n, chunks: chunks.clone(), end });
                }
            }
        }
    }
    for m in [1018usize, 1019] {
        let c = m - 6;
        for n in [0, 1, c - 1, c, c + 1, 2 * c, 2 * c + 1] {
            for chunks in dedup_chunkings(vec![chunks_of(n, n.max(1)), chunks_of(n, 1), chunks_of(n, c), chunks_of(n, c + 1)]) {
                jobs.push(Job::Sw { c, n, chunks: chunks.clone(), end: End::Finish });
                jobs.push(Job::Aw { c, n, chunks, bound: Some(1), budget: 8 });
            }
        }
    }
    for c in [1usize, 2, 3, 5] {
        for n in 0..=big_n {
            for chunks in dedup_chunkings(vec![chunks_of(n, n.max(1)), chunks_of(n, 1), chunks_of(n, c + 1)]) {
                jobs.push(Job::Sws { c, n, chunks: chunks.clone() });
                jobs.push(Job::Aw { c, n, chunks: chunks.clone(), bound: Some(dev), budget: 64 });
                if n <= 2 * c + 1 {
                    jobs.push(Job::Aw { c, n, chunks, bound: None, budget: free_budget });
                }
            }
        }
    }
    let strs = streams();
    for (si, s) in strs.iter().enumerate() {
        jobs.push(Job::Reader { stream: si, first: None });
        for first in 1..s.bytes.len() {
            jobs.push(Job::Reader { stream: si, first: Some(first) });
        }
    }
    check.extra("jobs", json!(jobs.len()));
    check.extra("reader_streams", json!(strs.len()));

    check.par_range(jobs.len() as u64, |l, i| match &jobs[i as usize] {
        Job::Sw { c, n, chunks, end } => sync_writer_case(l, &sh, *c, *n, chunks, *end),
        Job::Sws { c, n, chunks } => sync_writer_schedules(l, &sh, *c, *n, chunks, dev),
        Job::Aw { c, n, chunks, bound, budget } => async_writer_case(l, &sh, *c, *n, chunks, *bound, *budget),
        Job::Reader { stream, first } => reader_job(l, &sh, &strs[*stream], *first, cuts),
    });

    let ws = sh.wstates.lock().unwrap().len() as u64;
    let rs = sh.rstates.lock().unwrap().len() as u64;
    check.add_states(ws + rs);
    check.extra("writer_states", json!(ws));
    check.extra("reader_states", json!(rs));
    check.finish();
}
