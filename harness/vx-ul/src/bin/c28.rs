//! C28 — the acceptor negotiates presentation contexts by the rules.
//!
//! Subject: `ServerAssociationOptions::process_a_association_rq` through the accessor hook
//! `verif_process_rq` (exhaustive over the universe below); a fixed subset of the same cases also
//! through the real `establish` / `establish_async` over loopback TCP with a raw reference-codec
//! requestor, and through the generic-transport twins `verif_establish_over(_async)` (hook 4.3), to
//! show that accessor, twins and wire agree byte for byte and in negotiated state.
//!
//! Oracle: an independent reference negotiation written from the statement (`reference`), with
//! "supported by the registry" read from the registry's public API.
//! `vx-ul` deliberately builds the registry without its `deflate` feature, so that Deflated Explicit
//! VR Little Endian is *registered but unsupported*; the check verifies this precondition at start.
use dicom_encoding::transfer_syntax::TransferSyntaxIndex;
use dicom_transfer_syntax_registry::TransferSyntaxRegistry;
use dicom_ul::association::server::{AccessControl, Negotiation, ServerAssociationOptions};
use dicom_ul::pdu::*;
use std::io::{Read, Write};
use vx_kit::{guard, json, Check, Level, Local, Value};
use vx_ref::pdu as rp;
use vx_ul::*;

const A: &str = "1.2.840.10008.1.1";
const B: &str = "1.2.840.10008.5.1.4.1.1.7";
const C: &str = "1.2.3.4";
const A_NUL: &str = "1.2.840.10008.1.1\0";
const ABSTRACTS: [&str; 4] = [A, B, C, A_NUL];

const IMPLICIT: &str = "1.2.840.10008.1.2";
const EXPLICIT: &str = "1.2.840.10008.1.2.1";
const IMPLICIT_NUL: &str = "1.2.840.10008.1.2\0";
const DEFLATED: &str = "1.2.840.10008.1.2.1.99";
const J2K: &str = "1.2.840.10008.1.2.4.90";
const UNKNOWN_TS: &str = "1.9.9";
const TS: [&str; 6] = [IMPLICIT, EXPLICIT, IMPLICIT_NUL, DEFLATED, J2K, UNKNOWN_TS];
const TS_NAMES: [&str; 6] = ["I", "E", "I0", "D", "J", "U"];

const STD_APP: &str = "1.2.840.10008.3.1.1.1";
// deliberately not the library default ("THIS-SCP"), so that a reset of the AE title is observable
const THIS_AE: &str = "VX-SCP";
const ACCEPTOR_MAX: u32 = 20_000;

/// acceptor transfer syntax configurations
/// (the last four mix configured-but-unsupported / unknown UIDs with configured-and-supported ones)
const TS_CFGS: [&[&str]; 8] = [&[], &[EXPLICIT], &[IMPLICIT, EXPLICIT], &[DEFLATED], &[DEFLATED, EXPLICIT], &[EXPLICIT, DEFLATED], &[UNKNOWN_TS, IMPLICIT], &[DEFLATED, UNKNOWN_TS]];
const TS_CFG_NAMES: [&str; 8] = ["none", "E", "I+E", "D", "D+E", "E+D", "U+I", "D+U"];
const MAXLENS: [Option<u32>; 5] = [None, Some(0), Some(1), Some(1018), Some(u32::MAX)];
const ID_PATTERNS: [[u8; 4]; 5] = [[1, 3, 5, 7], [255, 1, 3, 5], [1, 1, 3, 3], [7, 5, 3, 1], [2, 0, 254, 4]];

/// ordered transfer syntax lists of length 0-2 (0-3 with `three`) (indices into TS)
fn ts_lists(three: bool) -> Vec<Vec<usize>> {
    let mut v = vec![vec![]];
    for a in 0..TS.len() {
        v.push(vec![a]);
    }
    for a in 0..TS.len() {
        for b in 0..TS.len() {
            v.push(vec![a, b]);
        }
    }
    if three {
        for a in 0..TS.len() {
            for b in 0..TS.len() {
                for c in 0..TS.len() {
                    v.push(vec![a, b, c]);
                }
            }
        }
    }
    v
}

#[derive(Clone, Debug, PartialEq, Eq, Hash)]
struct Ctx {
    abs: usize,
    ts: Vec<usize>,
}

#[derive(Clone, Debug)]
struct Case {
    abs_cfg: u8,
    ts_cfg: usize,
    promiscuous: bool,
    ctxs: Vec<Ctx>,
    ids: usize,
    version: u16,
    app_other: bool,
    /// 0: AcceptAny, 1: AcceptCalledAeTitle and matching called title, 2: ... and another title
    access: u8,
    maxlen: usize,
}

impl Case {
    fn id(&self) -> String {
        let ctxs: Vec<String> = self.ctxs.iter().map(|c| format!("{}:{}", ["A", "B", "C", "A0"][c.abs], c.ts.iter().map(|&t| TS_NAMES[t]).collect::<Vec<_>>().join("."))).collect();
        format!(
            "abs{}/ts{}/p{}/ids{}/v{}/app{}/acc{}/max{}/{}",
            self.abs_cfg,
            TS_CFG_NAMES[self.ts_cfg],
            self.promiscuous as u8,
            self.ids,
            self.version,
            self.app_other as u8,
            self.access,
            self.maxlen,
            ctxs.join(",")
        )
    }
    fn called(&self) -> &'static str {
        if self.access == 2 { "OTHER-SCP" } else { THIS_AE }
    }
    fn request(&self) -> Pdu {
        let mut user_variables = vec![];
        if let Some(m) = MAXLENS[self.maxlen] {
            user_variables.push(UserVariableItem::MaxLength(m));
        }
        user_variables.push(UserVariableItem::ImplementationClassUID("1.2.3".into()));
        Pdu::AssociationRQ(AssociationRQ {
            protocol_version: self.version,
            calling_ae_title: "PEER".into(),
            called_ae_title: self.called().into(),
            application_context_name: if self.app_other { "1.2.840.10008.3.1.1.2".into() } else { STD_APP.into() },
            presentation_contexts: self
                .ctxs
                .iter()
                .enumerate()
                .map(|(i, c)| PresentationContextProposed {
                    id: ID_PATTERNS[self.ids][i],
                    abstract_syntax: ABSTRACTS[c.abs].to_string(),
                    transfer_syntaxes: c.ts.iter().map(|&t| TS[t].to_string()).collect(),
                })
                .collect(),
            user_variables,
        })
    }
    /// the same request in the reference model (for the raw requestor)
    fn request_ref(&self) -> rp::RPdu {
        let mut head = rp::RAssocHead::new(self.called(), "PEER");
        head.protocol_version = self.version;
        if self.app_other {
            head.app_context = b"1.2.840.10008.3.1.1.2".to_vec();
        }
        let mut users = vec![];
        if let Some(m) = MAXLENS[self.maxlen] {
            users.push(rp::RUserItem::MaxLength(m));
        }
        users.push(rp::RUserItem::ImplClassUid(b"1.2.3".to_vec()));
        head.user_info = Some(users);
        rp::RPdu::AssociateRq {
            head,
            pcs: self
                .ctxs
                .iter()
                .enumerate()
                .map(|(i, c)| rp::RPcRq {
                    id: ID_PATTERNS[self.ids][i],
                    abstract_syntax: ABSTRACTS[c.abs].as_bytes().to_vec(),
                    transfer_syntaxes: c.ts.iter().map(|&t| TS[t].as_bytes().to_vec()).collect(),
                })
                .collect(),
        }
    }
    fn class(&self, path: &str, effect: &str) -> Value {
        json!({
            "path": path, "effect": effect, "promiscuous": self.promiscuous, "acceptor_abstract": self.abs_cfg,
            "acceptor_ts": TS_CFG_NAMES[self.ts_cfg], "contexts": self.ctxs.len(), "version": self.version,
            "app_other": self.app_other, "access": self.access, "maxlen": self.maxlen,
        })
    }
}

// ------------------------------------------------------------------------------------------------
// reference negotiation (from the statement)

/// UID equality is modulo trailing NUL padding
fn norm(u: &str) -> &str {
    u.trim_end_matches('\0')
}

/// "supported by the registry": registered and able to decode data sets
fn registry_supports(uid: &str) -> bool {
    TransferSyntaxRegistry.get(uid).map(|ts| !ts.is_unsupported()).unwrap_or(false)
}

#[derive(Debug, PartialEq)]
enum Expect {
    /// association rejected; any of these (source, reason) pairs names a failing condition
    Reject(Vec<(u8, u8)>),
    /// one (id, result code, accepted transfer syntax) per proposed context; requestor max PDU
    Accept(Vec<(u8, u8, Option<String>)>, u32),
}

fn reference(c: &Case) -> Expect {
    let mut reasons = vec![];
    if c.version != 1 {
        // PS3.8 names protocol-version-not-supported (ACSE provider); no-reason-given (user) does
        // not name a different condition either
        reasons.push((2, 2));
        reasons.push((1, 1));
    }
    if c.app_other {
        reasons.push((1, 2));
    }
    if c.access == 2 {
        reasons.push((1, 7));
    }
    if !reasons.is_empty() {
        return Expect::Reject(reasons);
    }
    let configured_abs: Vec<&str> = [(1u8, A), (2, B)].iter().filter(|(bit, _)| c.abs_cfg & bit != 0).map(|(_, u)| *u).collect();
    let configured_ts = TS_CFGS[c.ts_cfg];
    let results = c
        .ctxs
        .iter()
        .enumerate()
        .map(|(i, ctx)| {
            let id = ID_PATTERNS[c.ids][i];
            let abs = norm(ABSTRACTS[ctx.abs]);
            if !(configured_abs.contains(&abs) || c.promiscuous) {
                return (id, 3, None);
            }
            let chosen = ctx.ts.iter().map(|&t| TS[t]).find(|t| (configured_ts.is_empty() || configured_ts.contains(&norm(t))) && registry_supports(t));
            match chosen {
                Some(t) => (id, 0, Some(norm(t).to_string())),
                None => (id, 4, None),
            }
        })
        .collect();
    let max = match MAXLENS[c.maxlen] {
        None => DEFAULT_MAX_PDU,
        Some(0) => MAXIMUM_PDU_SIZE,
        Some(v) => v.min(MAXIMUM_PDU_SIZE),
    };
    Expect::Accept(results, max)
}

// ------------------------------------------------------------------------------------------------
// subject

fn configure<'a, AC: AccessControl, N: Negotiation>(mut o: ServerAssociationOptions<'a, AC, N>, c: &Case) -> ServerAssociationOptions<'a, AC, N> {
    o = o.ae_title(THIS_AE).max_pdu_length(ACCEPTOR_MAX).promiscuous(c.promiscuous);
    if c.abs_cfg & 1 != 0 {
        o = o.with_abstract_syntax(A);
    }
    if c.abs_cfg & 2 != 0 {
        o = o.with_abstract_syntax(B);
    }
    for t in TS_CFGS[c.ts_cfg] {
        o = o.with_transfer_syntax(*t);
    }
    o
}

type Reply = Result<(Pdu, Vec<PresentationContextNegotiated>, u32), Pdu>;

fn process(c: &Case) -> Reply {
    let rq = c.request();
    if c.access == 0 {
        configure(ServerAssociationOptions::new().accept_any(), c).verif_process_rq(rq)
    } else {
        configure(ServerAssociationOptions::new().accept_called_ae_title(), c).verif_process_rq(rq)
    }
}

fn reason_code(r: &PresentationContextResultReason) -> u8 {
    match r {
        PresentationContextResultReason::Acceptance => 0,
        PresentationContextResultReason::UserRejection => 1,
        PresentationContextResultReason::NoReason => 2,
        PresentationContextResultReason::AbstractSyntaxNotSupported => 3,
        PresentationContextResultReason::TransferSyntaxesNotSupported => 4,
    }
}

/// compare what the acceptor answered with the reference; Err((effect, message))
fn judge(c: &Case, got: &Reply, want: &Expect) -> Result<&'static str, (&'static str, String)> {
    match (got, want) {
        (Err(Pdu::AssociationRJ(rj)), Expect::Reject(reasons)) => {
            // translate by meaning
            let (source, reason) = match &rj.source {
                AssociationRJSource::ServiceUser(r) => (
                    1u8,
                    match r {
                        AssociationRJServiceUserReason::NoReasonGiven => 1u8,
                        AssociationRJServiceUserReason::ApplicationContextNameNotSupported => 2,
                        AssociationRJServiceUserReason::CallingAETitleNotRecognized => 3,
                        AssociationRJServiceUserReason::CalledAETitleNotRecognized => 7,
                        AssociationRJServiceUserReason::Reserved(x) => *x,
                    },
                ),
                AssociationRJSource::ServiceProviderASCE(r) => (
                    2,
                    match r {
                        AssociationRJServiceProviderASCEReason::NoReasonGiven => 1,
                        AssociationRJServiceProviderASCEReason::ProtocolVersionNotSupported => 2,
                    },
                ),
                AssociationRJSource::ServiceProviderPresentation(_) => (3, 0),
            };
            if reasons.contains(&(source, reason)) {
                Ok("rejected-with-matching-reason")
            } else {
                Err(("wrong-reject-reason", format!("rejected with (source {source}, reason {reason}); failing conditions allow {reasons:?}")))
            }
        }
        (Err(p), Expect::Reject(_)) => Err(("reject-with-wrong-pdu", format!("answered {}", p.short_description()))),
        (Ok(_), Expect::Reject(reasons)) => Err(("accepted-but-must-reject", format!("accepted; expected a reject with one of {reasons:?}"))),
        (Err(p), Expect::Accept(..)) => Err(("rejected-but-must-accept", format!("answered {}", p.short_description()))),
        (Ok((pdu, negotiated, peer_max)), Expect::Accept(results, max)) => {
            let Pdu::AssociationAC(ac) = pdu else { return Err(("accept-with-wrong-pdu", pdu.short_description().to_string())) };
            if ac.presentation_contexts.len() != results.len() || negotiated.len() != results.len() {
                return Err(("result-count", format!("{} proposed, {} results in the AC, {} negotiated", results.len(), ac.presentation_contexts.len(), negotiated.len())));
            }
            for (i, (id, code, ts)) in results.iter().enumerate() {
                let r = &ac.presentation_contexts[i];
                let n = &negotiated[i];
                if r.id != *id || n.id != *id {
                    return Err(("result-id", format!("context #{i}: proposed id {id}, AC carries {}, negotiated {}", r.id, n.id)));
                }
                let (rc, nc) = (reason_code(&r.reason), reason_code(&n.reason));
                if rc != nc || (rc == 0 && norm(&r.transfer_syntax) != norm(&n.transfer_syntax)) {
                    return Err(("ac-vs-negotiated", format!("context #{i}: AC says ({rc}, {:?}), negotiated list says ({nc}, {:?})", r.transfer_syntax, n.transfer_syntax)));
                }
                if rc != *code {
                    let effect = match (code, rc) {
                        (0, _) => "rejected-but-acceptable",
                        (_, 0) => "accepted-but-not-acceptable",
                        _ => "wrong-rejection-reason",
                    };
                    return Err((effect, format!("context #{i} (id {id}): result {rc}, reference {code}")));
                }
                if let Some(ts) = ts {
                    if norm(&r.transfer_syntax) != ts {
                        return Err(("wrong-transfer-syntax", format!("context #{i} (id {id}): accepted {:?}, the first acceptable proposed one is {ts:?}", r.transfer_syntax)));
                    }
                }
            }
            if *peer_max != *max {
                return Err(("requestor-max-pdu", format!("requestor max PDU {peer_max}, reference {max} (Maximum Length item {:?})", MAXLENS[c.maxlen])));
            }
            let own = ac.user_variables.iter().find_map(|u| if let UserVariableItem::MaxLength(m) = u { Some(*m) } else { None });
            if own != Some(ACCEPTOR_MAX) {
                return Err(("acceptor-max-pdu", format!("AC announces maximum length {own:?}, configured {ACCEPTOR_MAX}")));
            }
            if ac.called_ae_title != c.called() || ac.calling_ae_title != "PEER" || ac.protocol_version != 1 {
                return Err(("ac-header", format!("AC header: called {:?} calling {:?} version {}", ac.called_ae_title, ac.calling_ae_title, ac.protocol_version)));
            }
            let acc = results.iter().filter(|r| r.1 == 0).count();
            Ok(if acc == results.len() {
                "all-accepted"
            } else if acc == 0 {
                "none-accepted"
            } else {
                "some-accepted"
            })
        }
    }
}

fn run_accessor(l: &mut Local, c: &Case) {
    let case_id = c.id();
    if !l.want(&case_id) {
        return;
    }
    l.eval();
    let want = reference(c);
    match guard(|| process(c)) {
        Err(p) => {
            l.outcome("panic");
            l.fail(&case_id, c.class("accessor", "panic"), json!({"request": rp::hex(&rp::encode(&c.request_ref()).unwrap_or_default()), "panic": p}));
        }
        Ok(got) => match judge(c, &got, &want) {
            Ok(o) => {
                l.nontrivial(&case_id);
                l.outcome_with(o, || json!({"case": case_id, "request": c.request_ref().summary(), "reference": format!("{want:?}")}));
                // every distinct rejection reason per context is also an outcome of its own
                if let Expect::Accept(r, _) = &want {
                    for x in r {
                        l.outcome(["ctx-accepted", "", "", "ctx-abstract-syntax-not-supported", "ctx-transfer-syntaxes-not-supported"][x.1 as usize]);
                    }
                }
            }
            Err((effect, m)) => {
                l.nontrivial(&case_id);
                l.outcome(effect);
                let answered = match &got {
                    Ok((p, ..)) => format!("{p:?}"),
                    Err(p) => format!("{p:?}"),
                };
                l.fail(&case_id, c.class("accessor", effect), json!({"request": c.request_ref().summary(), "reference": format!("{want:?}"), "answered": answered.chars().take(600).collect::<String>(), "message": m}));
            }
        },
    }
}

// ------------------------------------------------------------------------------------------------
// wire paths: the accessor's reply must be what really goes over the wire

#[derive(Debug, PartialEq)]
struct WireObs {
    /// bytes the acceptor sent
    reply: Vec<u8>,
    /// Ok(negotiated contexts, requestor max, acceptor max) or the error text class
    state: Result<(Vec<PresentationContextNegotiated>, u32, u32), String>,
}

fn err_class(e: &dicom_ul::association::Error) -> String {
    use dicom_ul::association::Error as E;
    match e {
        E::Rejected { .. } => "Rejected".into(),
        E::MissingAbstractSyntax { .. } => "MissingAbstractSyntax".into(),
        other => format!("{other:?}").chars().take(80).collect(),
    }
}

fn read_reply(s: &mut std::net::TcpStream) -> Vec<u8> {
    let mut got = vec![];
    let mut buf = [0u8; 4096];
    loop {
        if let Ok(Some((_, n))) = rp::take_pdu(&got, &rp::ParseOpts::lenient()) {
            got.truncate(n);
            return got;
        }
        match s.read(&mut buf) {
            Ok(0) | Err(_) => return got,
            Ok(k) => got.extend_from_slice(&buf[..k]),
        }
    }
}

fn via_tcp_sync<AC: AccessControl + Sync, N: Negotiation + Sync>(o: &ServerAssociationOptions<'_, AC, N>, rq: &[u8]) -> WireObs {
    let listener = std::net::TcpListener::bind("127.0.0.1:0").expect("bind");
    let addr = listener.local_addr().unwrap();
    std::thread::scope(|sc| {
        let client = sc.spawn(move || {
            let mut s = std::net::TcpStream::connect(addr).expect("connect");
            let _ = s.write_all(rq);
            read_reply(&mut s)
        });
        let (sock, _) = listener.accept().expect("accept");
        let r = o.establish(sock);
        let state = match &r {
            Ok(a) => Ok((a.presentation_contexts().to_vec(), a.requestor_max_pdu_length(), a.acceptor_max_pdu_length())),
            Err(e) => Err(err_class(e)),
        };
        let reply = client.join().unwrap();
        drop(r);
        WireObs { reply, state }
    })
}

fn via_tcp_async<AC: AccessControl + Sync, N: Negotiation + Sync>(o: &ServerAssociationOptions<'_, AC, N>, rq: &[u8]) -> WireObs {
    let rt = tokio::runtime::Builder::new_current_thread().enable_io().build().expect("runtime");
    let std_listener = std::net::TcpListener::bind("127.0.0.1:0").expect("bind");
    let addr = std_listener.local_addr().unwrap();
    std_listener.set_nonblocking(true).unwrap();
    std::thread::scope(|sc| {
        let client = sc.spawn(move || {
            let mut s = std::net::TcpStream::connect(addr).expect("connect");
            let _ = s.write_all(rq);
            read_reply(&mut s)
        });
        let state = rt.block_on(async {
            let listener = tokio::net::TcpListener::from_std(std_listener).expect("listener");
            let (sock, _) = listener.accept().await.expect("accept");
            match o.establish_async(sock).await {
                Ok(a) => {
                    let st = (a.presentation_contexts().to_vec(), a.requestor_max_pdu_length(), a.acceptor_max_pdu_length());
                    // keep the socket open until the client has read the reply
                    Ok((st, Some(a)))
                }
                Err(e) => Err(err_class(&e)),
            }
        });
        let reply = client.join().unwrap();
        WireObs { reply, state: state.map(|(st, _a)| st) }
    })
}

fn via_twin_sync<AC: AccessControl, N: Negotiation>(o: &ServerAssociationOptions<'_, AC, N>, rq: &[u8]) -> WireObs {
    let (tr, _r) = ScriptRead::segmented(rq.to_vec(), &[rq.len()]);
    let (tw, w) = ScriptWrite::new(Decide::Default);
    let r = o.verif_establish_over(SyncSock::new(tr, tw));
    let state = match &r {
        Ok(a) => Ok((a.presentation_contexts().to_vec(), a.requestor_max_pdu_length(), a.acceptor_max_pdu_length())),
        Err(e) => Err(err_class(e)),
    };
    WireObs { reply: w.bytes(), state }
}

fn via_twin_async<AC: AccessControl + Sync, N: Negotiation + Sync>(o: &ServerAssociationOptions<'_, AC, N>, rq: &[u8]) -> WireObs {
    let (tr, _r) = ScriptAsyncRead::segmented(rq.to_vec(), &[rq.len()], &[]);
    let (tw, w) = ScriptAsyncWrite::new(Decide::Default);
    let state = match drive_local(o.verif_establish_over_async(AsyncSock { r: tr, w: tw }), 10_000) {
        Driven::Done { value: Ok(a), .. } => Ok((a.presentation_contexts().to_vec(), a.requestor_max_pdu_length(), a.acceptor_max_pdu_length())),
        Driven::Done { value: Err(e), .. } => Err(err_class(&e)),
        Driven::Stalled { polls } => Err(format!("stalled at poll {polls}")),
        Driven::Runaway { polls } => Err(format!("runaway after {polls} polls")),
    };
    WireObs { reply: w.bytes(), state }
}

fn run_wire(l: &mut Local, c: &Case) {
    let base = c.id();
    let rq = rp::encode(&c.request_ref()).unwrap();
    // what the accessor says
    let acc = match guard(|| process(c)) {
        Ok(r) => r,
        Err(_) => return, // reported by the accessor part
    };
    let no_abstract = c.abs_cfg == 0 && !c.promiscuous;
    let expected = {
        let (pdu, state) = match &acc {
            Ok((pdu, neg, max)) => (pdu, Ok((neg.clone(), *max, ACCEPTOR_MAX))),
            Err(pdu) => (pdu, Err("Rejected".to_string())),
        };
        let mut reply = vec![];
        write_pdu(&mut reply, pdu).expect("write reply");
        if no_abstract {
            // documented: establish refuses to run without abstract syntaxes unless promiscuous
            WireObs { reply: vec![], state: Err("MissingAbstractSyntax".into()) }
        } else {
            WireObs { reply, state }
        }
    };
    for path in ["tcp-sync", "tcp-async", "twin-sync", "twin-async"] {
        let case_id = format!("{path}/{base}");
        if !l.want(&case_id) {
            continue;
        }
        l.eval();
        l.nontrivial(&case_id);
        let got = guard(|| {
            macro_rules! go {
                ($o:expr) => {
                    match path {
                        "tcp-sync" => via_tcp_sync(&$o, &rq),
                        "tcp-async" => via_tcp_async(&$o, &rq),
                        "twin-sync" => via_twin_sync(&$o, &rq),
                        _ => via_twin_async(&$o, &rq),
                    }
                };
            }
            if c.access == 0 {
                go!(configure(ServerAssociationOptions::new().accept_any(), c))
            } else {
                go!(configure(ServerAssociationOptions::new().accept_called_ae_title(), c))
            }
        });
        match got {
            Err(p) => {
                l.outcome("wire-panic");
                l.fail(&case_id, c.class(path, "panic"), json!({"panic": p}));
            }
            Ok(g) if g == expected => l.outcome_with(&format!("{path}-agrees-{}", if expected.state.is_ok() { "accept" } else { "refuse" }), || json!({"case": case_id, "reply": rp::hex(&g.reply)})),
            Ok(g) => {
                l.outcome("wire-differs");
                l.fail(
                    &case_id,
                    c.class(path, "differs-from-accessor"),
                    json!({"request": c.request_ref().summary(), "wire_reply": rp::hex(&g.reply), "accessor_reply": rp::hex(&expected.reply), "wire_state": format!("{:?}", g.state), "accessor_state": format!("{:?}", expected.state)}),
                );
            }
        }
    }
}

// ------------------------------------------------------------------------------------------------
// order of builder calls

#[derive(Clone, Copy, PartialEq, Eq, Debug)]
enum Step {
    Promiscuous,
    Strict,
    MaxPdu,
    Abstract,
    Transfer,
    AeTitle,
    Access,
}
const STEPS: [Step; 7] = [Step::Promiscuous, Step::Strict, Step::MaxPdu, Step::Abstract, Step::Transfer, Step::AeTitle, Step::Access];

fn permutations(n: usize) -> Vec<Vec<usize>> {
    fn rec(cur: &mut Vec<usize>, used: &mut Vec<bool>, out: &mut Vec<Vec<usize>>) {
        if cur.len() == used.len() {
            out.push(cur.clone());
            return;
        }
        for i in 0..used.len() {
            if !used[i] {
                used[i] = true;
                cur.push(i);
                rec(cur, used, out);
                cur.pop();
                used[i] = false;
            }
        }
    }
    let mut out = vec![];
    rec(&mut vec![], &mut vec![false; n], &mut out);
    out
}

/// the acceptor of the order family reads with a small maximum and `strict(false)`
const ORDER_MAX: u32 = 1018;

fn apply<'a, AC: AccessControl, N: Negotiation>(o: ServerAssociationOptions<'a, AC, N>, step: Step, c: &Case, max: u32) -> ServerAssociationOptions<'a, AC, N> {
    match step {
        Step::Promiscuous => o.promiscuous(c.promiscuous),
        Step::Strict => o.strict(false),
        Step::MaxPdu => o.max_pdu_length(max),
        Step::Abstract => {
            let mut o = o;
            if c.abs_cfg & 1 != 0 {
                o = o.with_abstract_syntax(A);
            }
            if c.abs_cfg & 2 != 0 {
                o = o.with_abstract_syntax(B);
            }
            o
        }
        Step::Transfer => {
            let mut o = o;
            for t in TS_CFGS[c.ts_cfg] {
                o = o.with_transfer_syntax(*t);
            }
            o
        }
        Step::AeTitle => o.ae_title(THIS_AE),
        Step::Access => unreachable!(),
    }
}

/// what one ordering of the builder calls yields: the accessor's answer (acceptor maximum
/// ACCEPTOR_MAX) and, with maximum ORDER_MAX and strict(false), the outcome of establishing over a
/// scripted socket with a request whose PDU length exceeds ORDER_MAX (must be read: strict is off)
fn ordered(c: &Case, order: &[usize], long_rq: &[u8]) -> (Reply, Result<usize, String>) {
    let pos = order.iter().position(|&i| STEPS[i] == Step::Access).unwrap();
    macro_rules! finish {
        ($max:expr, $go:expr) => {{
            let mut o = ServerAssociationOptions::new();
            for &i in &order[..pos] {
                o = apply(o, STEPS[i], c, $max);
            }
            if c.access == 0 {
                let mut o = o.accept_any();
                for &i in &order[pos + 1..] {
                    o = apply(o, STEPS[i], c, $max);
                }
                $go(&o)
            } else {
                let mut o = o.accept_called_ae_title();
                for &i in &order[pos + 1..] {
                    o = apply(o, STEPS[i], c, $max);
                }
                $go(&o)
            }
        }};
    }
    let reply: Reply = finish!(ACCEPTOR_MAX, |o: &ServerAssociationOptions<_, _>| o.verif_process_rq(c.request()));
    let est = finish!(ORDER_MAX, |o: &ServerAssociationOptions<_, _>| {
        let (tr, _r) = ScriptRead::segmented(long_rq.to_vec(), &[long_rq.len()]);
        let (tw, _w) = ScriptWrite::new(Decide::Default);
        match o.verif_establish_over(SyncSock::new(tr, tw)) {
            Ok(a) => Ok(a.presentation_contexts().len()),
            Err(e) => Err(err_class(&e)),
        }
    });
    (reply, est)
}

fn run_order(l: &mut Local, c: &Case, cfg_name: &str, perms: &[Vec<usize>]) {
    let want = reference(c);
    // the same request made longer than ORDER_MAX by an opaque user item
    let long_rq = {
        let mut r = c.request_ref();
        if let rp::RPdu::AssociateRq { head, .. } = &mut r {
            head.user_info.as_mut().unwrap().push(rp::RUserItem::Unknown { item_type: 0x5A, data: vec![0; 1100] });
        }
        rp::encode(&r).unwrap()
    };
    let must_establish = matches!(want, Expect::Accept(..)) && (c.abs_cfg != 0 || c.promiscuous);
    for (pi, order) in perms.iter().enumerate() {
        let case_id = format!("order/{cfg_name}/{}", order.iter().map(|i| i.to_string()).collect::<String>());
        if !l.want(&case_id) {
            continue;
        }
        l.eval();
        l.nontrivial(&case_id);
        let names: Vec<String> = order.iter().map(|&i| format!("{:?}", STEPS[i])).collect();
        let pos = order.iter().position(|&i| STEPS[i] == Step::Access).unwrap();
        let before: Vec<&str> = order[..pos].iter().map(|&i| ["promiscuous", "strict", "max_pdu_length", "abstract", "transfer", "ae_title", "access"][i]).collect();
        let class = |effect: &str| {
            let mut v = c.class("builder-order", effect);
            v["access_call_position"] = json!(pos);
            v
        };
        let detail = |m: String| json!({"builder_calls": names, "set_before_access_control_call": before, "request": c.request_ref().summary(), "reference": format!("{want:?}"), "message": m});
        let _ = pi;
        match guard(|| ordered(c, order, &long_rq)) {
            Err(p) => {
                l.outcome("order-panic");
                l.fail(&case_id, class("panic"), detail(p));
            }
            Ok((reply, est)) => match judge(c, &reply, &want) {
                Err((effect, m)) => {
                    l.outcome("order-changes-negotiation");
                    l.fail(&case_id, class(effect), detail(m));
                }
                Ok(_) => match (&est, must_establish) {
                    (Ok(_), true) | (Err(_), false) => l.outcome_with(if must_establish { "order-independent-accept" } else { "order-independent-refuse" }, || json!({"case": case_id, "builder_calls": names})),
                    (Err(e), true) => {
                        l.outcome("order-changes-strict-or-max");
                        l.fail(&case_id, class("establish-fails-with-long-request"), detail(format!("strict(false) and max_pdu_length({ORDER_MAX}) were set, a request of PDU length {} must be read; establish failed: {e}", long_rq.len() - 6)));
                    }
                    (Ok(n), false) => {
                        l.outcome("order-establishes-unexpectedly");
                        l.fail(&case_id, class("established-but-must-refuse"), detail(format!("established with {n} contexts")));
                    }
                },
            },
        }
    }
}

// ------------------------------------------------------------------------------------------------

fn rep_contexts(thorough: bool) -> Vec<Ctx> {
    // (abstract index, transfer syntax indices): I=0 E=1 I0=2 D=3 J=4 U=5
    let mut v = vec![
        Ctx { abs: 0, ts: vec![0] },
        Ctx { abs: 0, ts: vec![1, 0] },
        Ctx { abs: 1, ts: vec![3, 1] },
        Ctx { abs: 2, ts: vec![0] },
        Ctx { abs: 3, ts: vec![2] },
        Ctx { abs: 0, ts: vec![] },
        Ctx { abs: 1, ts: vec![5] },
        Ctx { abs: 0, ts: vec![4, 0] },
    ];
    if thorough {
        v.extend([
            Ctx { abs: 1, ts: vec![0] },
            Ctx { abs: 0, ts: vec![3] },
            Ctx { abs: 2, ts: vec![1, 3] },
            Ctx { abs: 3, ts: vec![1] },
            Ctx { abs: 1, ts: vec![2, 1] },
            Ctx { abs: 0, ts: vec![5, 1] },
            Ctx { abs: 2, ts: vec![] },
            Ctx { abs: 1, ts: vec![4] },
            // unsupported-but-configurable before / after supported ones, supported-but-unconfigured in between
            Ctx { abs: 0, ts: vec![3, 0, 1] },
            Ctx { abs: 1, ts: vec![1, 3, 0] },
            Ctx { abs: 0, ts: vec![5, 3, 2] },
            Ctx { abs: 3, ts: vec![3, 5, 1] },
        ]);
    }
    v
}

fn main() {
    let check = Check::from_args("C28", Level::Exploration);
    // precondition of the universe
    let deflated = TransferSyntaxRegistry.get(DEFLATED);
    if deflated.is_none() || registry_supports(DEFLATED) || !registry_supports(J2K) || registry_supports(UNKNOWN_TS) || !registry_supports(IMPLICIT_NUL) {
        vx_kit::report::machinery("C28 precondition: Deflated must be registered-but-unsupported (registry built without `deflate`), JPEG 2000 registered, 1.9.9 unknown");
    }
    let thorough = check.thorough();
    check.set_rule("acceptor: abstract syntaxes subset of {A,B} x transfer syntaxes {none,[E],[I,E],[D],[D,E],[E,D],[1.9.9,I],[D,1.9.9]} (configured-but-unsupported/unknown UIDs mixed with supported ones) x promiscuous; request contexts (abstract in {A,B,C,A+NUL}) x (ordered list of 0-2 of {Implicit, Explicit, Implicit+NUL, Deflated (registered, unsupported), JPEG 2000 (stub, data set decodable), 1.9.9 (unknown)}): every single-context request (thorough: also every ordered list of 3 transfer syntaxes) x 5 id patterns; every 2- and 3-context request over 8 representative contexts (thorough: every 2-context request over all 172 contexts, 3-context over 20, 4-context over 8) x 5 id patterns (odd, 255 first, duplicated, descending, even/zero); header cross: protocol version {1,2,3} x application context {standard, other} x access control {any, called-title match, mismatch} x Maximum Length {absent,0,1,1018,2^32-1} over 4 requests x 6 acceptors. Order of builder calls: for 18 acceptor configurations, all 5040 orders of the calls {promiscuous, strict(false), max_pdu_length, with_abstract_syntax.., with_transfer_syntax.., ae_title, accept_any/accept_called_ae_title}: the accessor's answer must equal the reference negotiation and a request longer than max_pdu_length must still be read (strict off) by the sync hook twin. A case is (acceptor configuration, request); non-trivial = the acceptor answered and the answer was judged. Wire paths: every 97th case (and all header-cross cases with one context) through establish / establish_async over loopback TCP and the two hook twins");
    check.assume("registry predicate `get(uid)` exists and not `is_unsupported()` is read from the registry's public API (the negotiation logic, not the registry, is the subject)");
    check.assume("UID equality is modulo trailing NUL padding; a rejected context's transfer syntax field is not significant");
    check.assume("for protocol version mismatch both PS3.8's protocol-version-not-supported and no-reason-given are accepted (the statement leaves the choice)");

    let tsl = ts_lists(false);
    let mut all_ctx = vec![];
    for abs in 0..ABSTRACTS.len() {
        for ts in &tsl {
            all_ctx.push(Ctx { abs, ts: ts.clone() });
        }
    }
    // single-context requests: thorough also every ordered list of 3 transfer syntaxes
    let mut single_ctx = vec![];
    for abs in 0..ABSTRACTS.len() {
        for ts in &ts_lists(thorough) {
            single_ctx.push(Ctx { abs, ts: ts.clone() });
        }
    }
    let reps = rep_contexts(thorough);
    let reps8 = rep_contexts(false);
    let mut cases: Vec<Case> = vec![];
    let base = |abs_cfg: u8, ts_cfg: usize, promiscuous: bool, ctxs: Vec<Ctx>, ids: usize| Case { abs_cfg, ts_cfg, promiscuous, ctxs, ids, version: 1, app_other: false, access: 0, maxlen: 3 };
    for abs_cfg in 0..4u8 {
        for ts_cfg in 0..TS_CFGS.len() {
            for promiscuous in [false, true] {
                for ids in 0..ID_PATTERNS.len() {
                    for c1 in &single_ctx {
                        cases.push(base(abs_cfg, ts_cfg, promiscuous, vec![c1.clone()], ids));
                    }
                    let two: &[Ctx] = if thorough && ids == 0 { &all_ctx } else { &reps };
                    for c1 in two {
                        for c2 in two {
                            cases.push(base(abs_cfg, ts_cfg, promiscuous, vec![c1.clone(), c2.clone()], ids));
                        }
                    }
                    for c1 in &reps {
                        for c2 in &reps {
                            for c3 in &reps {
                                cases.push(base(abs_cfg, ts_cfg, promiscuous, vec![c1.clone(), c2.clone(), c3.clone()], ids));
                            }
                        }
                    }
                    if thorough && ids < 3 {
                        for c1 in &reps8 {
                            for c2 in &reps8 {
                                for c3 in &reps8 {
                                    for c4 in &reps8 {
                                        cases.push(base(abs_cfg, ts_cfg, promiscuous, vec![c1.clone(), c2.clone(), c3.clone(), c4.clone()], ids));
                                    }
                                }
                            }
                        }
                    }
                }
            }
        }
    }
    let body = cases.len();
    // header cross
    let mut header_cases = vec![];
    for (abs_cfg, ts_cfg, promiscuous) in [(1u8, 0usize, false), (3, 2, false), (0, 0, true), (2, 1, true), (3, 4, false), (1, 6, true)] {
        for rq in [vec![0usize], vec![1, 3], vec![2], vec![4, 6, 7]] {
            for version in [1u16, 2, 3] {
                for app_other in [false, true] {
                    for access in 0..3u8 {
                        for maxlen in 0..MAXLENS.len() {
                            header_cases.push(Case {
                                abs_cfg,
                                ts_cfg,
                                promiscuous,
                                ctxs: rq.iter().map(|&i| reps8[i].clone()).collect(),
                                ids: 0,
                                version,
                                app_other,
                                access,
                                maxlen,
                            });
                        }
                    }
                }
            }
        }
    }
    cases.extend(header_cases.iter().cloned());
    check.extra("universe", json!({"body": body, "header_cross": header_cases.len(), "contexts": all_ctx.len(), "single_contexts": single_ctx.len(), "acceptor_ts_configurations": TS_CFGS.len()}));
    check.par_range(cases.len() as u64, |l, i| run_accessor(l, &cases[i as usize]));

    // order of builder calls: every permutation of the 7 setter groups
    let perms = permutations(STEPS.len());
    let mut order_cfgs: Vec<(String, Case)> = vec![];
    for (abs_cfg, ts_cfg, promiscuous, rq) in [(1u8, 4usize, true, vec![0usize, 3, 2]), (3, 2, false, vec![1, 3]), (2, 6, true, vec![4, 6])] {
        for access in 0..3u8 {
            for maxlen in [0usize, 3] {
                let c = Case { abs_cfg, ts_cfg, promiscuous, ctxs: rq.iter().map(|&i| reps8[i].clone()).collect(), ids: 0, version: 1, app_other: false, access, maxlen };
                order_cfgs.push((format!("abs{abs_cfg}-ts{}-p{}-acc{access}-max{maxlen}", TS_CFG_NAMES[ts_cfg], promiscuous as u8), c));
            }
        }
    }
    check.extra("builder_order", json!({"configurations": order_cfgs.len(), "permutations": perms.len()}));
    // shard: (configuration, block of permutations)
    let blocks = 16usize;
    check.par_range((order_cfgs.len() * blocks) as u64, |l, i| {
        let (name, c) = &order_cfgs[i as usize / blocks];
        let b = i as usize % blocks;
        let per = perms.len().div_ceil(blocks);
        let lo = (b * per).min(perms.len());
        let hi = ((b + 1) * per).min(perms.len());
        run_order(l, c, name, &perms[lo..hi]);
    });

    // wire subset
    let mut wire: Vec<&Case> = cases[..body].iter().step_by(if thorough { 97 } else { 389 }).collect();
    wire.extend(header_cases.iter().filter(|c| c.ctxs.len() == 1 || c.ctxs.len() == 3 && c.maxlen == 1));
    check.extra("wire_subset", json!(wire.len()));
    RT.with(|_| ());
    check.par_range(wire.len() as u64, |l, i| {
        RT.with(|rt| {
            let _g = rt.enter();
            run_wire(l, wire[i as usize])
        })
    });
    check.finish();
}

thread_local! {
    static RT: tokio::runtime::Runtime = context_runtime();
}
