//! Shared helpers of the vx-ul checks: single-party scripted transports (sync and async) whose every
//! answer is either fixed in advance (a *script*) or an explorer choice, and a hand-rolled
//! single-threaded executor. (The two-party scheduler of C29/C30 lives in `twoparty.rs`.)
//!
//! Conventions
//! * every transport records what crossed it (`bytes()`), and counts calls/polls;
//! * `Pending` is always returned after `wake_by_ref()`, like a real reactor that will re-poll;
//! * explorer menus put the default environment answer first (choice 0) so that any other answer
//!   costs one deviation (`vx_kit::explore`);
//! * a transport stops asking the explorer after `budget` choice points and answers by default
//!   from then on, so that unbounded exploration terminates.

use std::collections::VecDeque;
use std::future::Future;
use std::io::{self, Read, Write};
use std::pin::Pin;
use std::sync::atomic::{AtomicUsize, Ordering};
use std::sync::{Arc, Mutex};
use std::task::{Context, Poll, RawWaker, RawWakerVTable, Waker};
use tokio::io::{AsyncRead, AsyncWrite, ReadBuf};
use vx_kit::Ctx;

// ------------------------------------------------------------------------------------------------
// executor

static WAKE_COUNT: AtomicUsize = AtomicUsize::new(0);

fn counting_waker() -> Waker {
    fn clone(_: *const ()) -> RawWaker {
        RawWaker::new(std::ptr::null(), &VTABLE)
    }
    fn wake(_: *const ()) {
        WAKE_COUNT.fetch_add(1, Ordering::Relaxed);
    }
    fn noop(_: *const ()) {}
    static VTABLE: RawWakerVTable = RawWakerVTable::new(clone, wake, wake, noop);
    // SAFETY: the vtable functions never dereference the data pointer.
    unsafe { Waker::from_raw(RawWaker::new(std::ptr::null(), &VTABLE)) }
}

/// Outcome of driving a future with [`drive`].
#[derive(Debug)]
pub enum Driven<T> {
    Done { value: T, polls: usize },
    /// The future returned `Pending` without anybody having called the waker since the previous
    /// poll: under a real executor it would never be polled again (a lost wake-up).
    Stalled { polls: usize },
    /// more than `max_polls` polls
    Runaway { polls: usize },
}

/// Poll `fut` to completion on the current thread with a counting waker (no reactor, no timers).
/// A `Pending` that was not preceded by a wake-up is reported as `Stalled`.
pub fn drive<F: Future>(fut: F, max_polls: usize) -> Driven<F::Output> {
    let mut fut = std::pin::pin!(fut);
    let waker = counting_waker();
    let mut cx = Context::from_waker(&waker);
    let mut polls = 0;
    loop {
        let before = WAKE_COUNT.load(Ordering::Relaxed);
        polls += 1;
        match fut.as_mut().poll(&mut cx) {
            Poll::Ready(value) => return Driven::Done { value, polls },
            Poll::Pending => {
                // single-threaded use per future; other threads may bump the counter too, which can
                // only hide a stall, never invent one — checks that rely on stall detection run the
                // future with `drive_local` instead
                if WAKE_COUNT.load(Ordering::Relaxed) == before {
                    return Driven::Stalled { polls };
                }
                if polls >= max_polls {
                    return Driven::Runaway { polls };
                }
            }
        }
    }
}

/// A waker with its own flag (exact stall detection also when many threads drive futures).
pub struct FlagWaker {
    flag: Arc<AtomicUsize>,
}

impl FlagWaker {
    pub fn new() -> (Waker, Arc<AtomicUsize>) {
        let flag = Arc::new(AtomicUsize::new(0));
        let w = Arc::new(FlagWaker { flag: flag.clone() });
        (Waker::from(w), flag)
    }
}

impl std::task::Wake for FlagWaker {
    fn wake(self: Arc<Self>) {
        self.flag.fetch_add(1, Ordering::Relaxed);
    }
    fn wake_by_ref(self: &Arc<Self>) {
        self.flag.fetch_add(1, Ordering::Relaxed);
    }
}

/// Like [`drive`] with a private wake flag: exact lost-wake-up detection on any thread.
pub fn drive_local<F: Future>(fut: F, max_polls: usize) -> Driven<F::Output> {
    let mut fut = std::pin::pin!(fut);
    let (waker, flag) = FlagWaker::new();
    let mut cx = Context::from_waker(&waker);
    let mut polls = 0;
    loop {
        let before = flag.load(Ordering::Relaxed);
        polls += 1;
        match fut.as_mut().poll(&mut cx) {
            Poll::Ready(value) => return Driven::Done { value, polls },
            Poll::Pending => {
                if flag.load(Ordering::Relaxed) == before {
                    return Driven::Stalled { polls };
                }
                if polls >= max_polls {
                    return Driven::Runaway { polls };
                }
            }
        }
    }
}

/// A current-thread tokio runtime whose *context* can be entered (`rt.enter()`): needed only because
/// `AsyncPDataWriter::drop` calls `tokio::runtime::Handle::current()`. Nothing is ever spawned on it.
pub fn context_runtime() -> tokio::runtime::Runtime {
    tokio::runtime::Builder::new_current_thread().build().expect("tokio current-thread runtime")
}

// ------------------------------------------------------------------------------------------------
// write side

/// One answer of a scripted writer.
#[derive(Clone, Copy, Debug, PartialEq, Eq, Hash)]
pub enum WAns {
    /// accept everything offered
    All,
    /// accept one byte
    One,
    /// accept half of what is offered (rounded down, at least one byte)
    Half,
    /// (async only) not ready; the waker is called first
    Pending,
    /// return `Ok(0)`
    Zero,
    /// return an error
    Err,
}

impl WAns {
    pub fn name(self) -> &'static str {
        match self {
            WAns::All => "all",
            WAns::One => "one",
            WAns::Half => "half",
            WAns::Pending => "pending",
            WAns::Zero => "zero",
            WAns::Err => "err",
        }
    }
}

/// The menu of the async writer, default first.
pub const ASYNC_WRITE_MENU: [WAns; 6] = [WAns::All, WAns::One, WAns::Half, WAns::Pending, WAns::Zero, WAns::Err];
/// The menu of the sync writer, default first.
pub const SYNC_WRITE_MENU: [WAns; 5] = [WAns::All, WAns::One, WAns::Half, WAns::Zero, WAns::Err];

/// How a scripted transport decides its next answer.
pub enum Decide<A> {
    /// always the default answer
    Default,
    /// the listed answers, then the default answer
    Script(VecDeque<A>),
    /// an explorer choice over `menu` for the first `budget` decisions, then the default answer
    Explore { ctx: Ctx, menu: Vec<A>, budget: usize },
}

impl<A: Copy> Decide<A> {
    pub fn script(v: impl IntoIterator<Item = A>) -> Self {
        Decide::Script(v.into_iter().collect())
    }
    fn next(&mut self, default: A, allowed: impl Fn(A) -> bool) -> A {
        match self {
            Decide::Default => default,
            Decide::Script(q) => q.pop_front().unwrap_or(default),
            Decide::Explore { ctx, menu, budget } => {
                if *budget == 0 {
                    return default;
                }
                *budget -= 1;
                let m: Vec<A> = menu.iter().copied().filter(|a| allowed(*a)).collect();
                if m.len() <= 1 {
                    return m.first().copied().unwrap_or(default);
                }
                m[ctx.choose(m.len())]
            }
        }
    }
}

/// What a scripted writer saw and did (shared; stays readable after the writer was moved away).
#[derive(Default, Debug)]
pub struct WriteLog {
    /// bytes accepted, in order
    pub out: Vec<u8>,
    /// every call/poll: (bytes offered, answer)
    pub calls: Vec<(usize, WAns)>,
    pub flushes: usize,
    pub shutdowns: usize,
}

#[derive(Clone, Default)]
pub struct WriteRec(pub Arc<Mutex<WriteLog>>);

impl WriteRec {
    pub fn bytes(&self) -> Vec<u8> {
        self.0.lock().unwrap().out.clone()
    }
    pub fn calls(&self) -> Vec<(usize, WAns)> {
        self.0.lock().unwrap().calls.clone()
    }
    pub fn count(&self, a: WAns) -> usize {
        self.0.lock().unwrap().calls.iter().filter(|c| c.1 == a).count()
    }
}

fn accept(rec: &WriteRec, buf: &[u8], ans: WAns) -> io::Result<usize> {
    let mut g = rec.0.lock().unwrap();
    g.calls.push((buf.len(), ans));
    let n = match ans {
        WAns::All => buf.len(),
        WAns::One => buf.len().min(1),
        WAns::Half => (buf.len() / 2).max(1).min(buf.len()),
        WAns::Zero => 0,
        WAns::Err => return Err(io::Error::new(io::ErrorKind::Other, "scripted write error")),
        WAns::Pending => unreachable!(),
    };
    g.out.extend_from_slice(&buf[..n]);
    Ok(n)
}

/// Scripted `std::io::Write`.
pub struct ScriptWrite {
    pub rec: WriteRec,
    pub decide: Decide<WAns>,
}

impl ScriptWrite {
    pub fn new(decide: Decide<WAns>) -> (Self, WriteRec) {
        let rec = WriteRec::default();
        (ScriptWrite { rec: rec.clone(), decide }, rec)
    }
    pub fn explored(ctx: &Ctx, budget: usize) -> (Self, WriteRec) {
        Self::new(Decide::Explore { ctx: ctx.clone(), menu: SYNC_WRITE_MENU.to_vec(), budget })
    }
}

impl Write for ScriptWrite {
    fn write(&mut self, buf: &[u8]) -> io::Result<usize> {
        // with 0 or 1 bytes offered One/Half coincide with All: do not branch on them
        let len = buf.len();
        let ans = self.decide.next(WAns::All, |a| match a {
            WAns::Pending => false,
            WAns::One => len > 1,
            WAns::Half => len > 3,
            _ => true,
        });
        accept(&self.rec, buf, ans)
    }
    fn flush(&mut self) -> io::Result<()> {
        self.rec.0.lock().unwrap().flushes += 1;
        Ok(())
    }
}

/// Scripted `tokio::io::AsyncWrite`.
pub struct ScriptAsyncWrite {
    pub rec: WriteRec,
    pub decide: Decide<WAns>,
    /// never answer `Pending` twice in a row (keeps unbounded exploration finite and mirrors a
    /// reactor that re-polls only when the socket became writable)
    last_pending: bool,
}

impl ScriptAsyncWrite {
    pub fn new(decide: Decide<WAns>) -> (Self, WriteRec) {
        let rec = WriteRec::default();
        (ScriptAsyncWrite { rec: rec.clone(), decide, last_pending: false }, rec)
    }
    pub fn explored(ctx: &Ctx, budget: usize) -> (Self, WriteRec) {
        Self::new(Decide::Explore { ctx: ctx.clone(), menu: ASYNC_WRITE_MENU.to_vec(), budget })
    }
}

impl AsyncWrite for ScriptAsyncWrite {
    fn poll_write(mut self: Pin<&mut Self>, cx: &mut Context<'_>, buf: &[u8]) -> Poll<io::Result<usize>> {
        let len = buf.len();
        let lp = self.last_pending;
        let ans = self.decide.next(WAns::All, |a| match a {
            WAns::Pending => !lp,
            WAns::One => len > 1,
            WAns::Half => len > 3,
            _ => true,
        });
        if ans == WAns::Pending {
            self.last_pending = true;
            self.rec.0.lock().unwrap().calls.push((len, WAns::Pending));
            cx.waker().wake_by_ref();
            return Poll::Pending;
        }
        self.last_pending = false;
        Poll::Ready(accept(&self.rec, buf, ans))
    }
    fn poll_flush(self: Pin<&mut Self>, _cx: &mut Context<'_>) -> Poll<io::Result<()>> {
        self.rec.0.lock().unwrap().flushes += 1;
        Poll::Ready(Ok(()))
    }
    fn poll_shutdown(self: Pin<&mut Self>, _cx: &mut Context<'_>) -> Poll<io::Result<()>> {
        self.rec.0.lock().unwrap().shutdowns += 1;
        Poll::Ready(Ok(()))
    }
}

// ------------------------------------------------------------------------------------------------
// read side

/// One answer of a scripted reader.
#[derive(Clone, Copy, Debug, PartialEq, Eq, Hash)]
pub enum RAns {
    /// as much as is available and fits
    All,
    /// one byte
    One,
    /// half of what is available
    Half,
    /// exactly up to the next boundary (e.g. the end of the current PDU)
    ToBoundary,
    /// one byte past the next boundary
    PastBoundary,
    /// exactly `n` bytes (fixed segmentations; clipped to what is available and fits)
    Exactly(usize),
    /// (async only) not ready; the waker is called first
    Pending,
    /// an error
    Err,
}

/// The menu of the async reader, default first.
pub const ASYNC_READ_MENU: [RAns; 6] = [RAns::All, RAns::One, RAns::ToBoundary, RAns::PastBoundary, RAns::Half, RAns::Pending];
/// The menu of the sync reader, default first.
pub const SYNC_READ_MENU: [RAns; 5] = [RAns::All, RAns::One, RAns::ToBoundary, RAns::PastBoundary, RAns::Half];

#[derive(Default, Debug)]
pub struct ReadLog {
    /// number of bytes delivered so far
    pub pos: usize,
    /// sizes of the non-empty deliveries, in order
    pub deliveries: Vec<usize>,
    /// read calls / polls (including Pending and EOF answers)
    pub calls: usize,
    pub pendings: usize,
    pub eofs: usize,
}

#[derive(Clone, Default)]
pub struct ReadRec(pub Arc<Mutex<ReadLog>>);

impl ReadRec {
    pub fn pos(&self) -> usize {
        self.0.lock().unwrap().pos
    }
    pub fn calls(&self) -> usize {
        self.0.lock().unwrap().calls
    }
    pub fn pendings(&self) -> usize {
        self.0.lock().unwrap().pendings
    }
    pub fn deliveries(&self) -> Vec<usize> {
        self.0.lock().unwrap().deliveries.clone()
    }
}

/// Core shared by the sync and async scripted readers: a fixed byte string, then EOF.
pub struct ReadCore {
    pub data: Vec<u8>,
    pub rec: ReadRec,
    pub decide: Decide<RAns>,
    /// ascending offsets in `data` that count as boundaries (PDU ends)
    pub boundaries: Vec<usize>,
    last_pending: bool,
}

impl ReadCore {
    fn new(data: Vec<u8>, decide: Decide<RAns>, boundaries: Vec<usize>) -> Self {
        ReadCore { data, rec: ReadRec::default(), decide, boundaries, last_pending: false }
    }

    /// Decide the next answer: `Ok(n)` bytes to deliver (0 = EOF), `Err(Some(e))` an error,
    /// `Err(None)` Pending.
    fn step(&mut self, cap: usize, allow_pending: bool) -> Result<usize, Option<io::Error>> {
        let pos = self.rec.pos();
        self.rec.0.lock().unwrap().calls += 1;
        let avail = (self.data.len() - pos).min(cap);
        if avail == 0 {
            // EOF (or an empty caller buffer) is not a decision
            self.rec.0.lock().unwrap().eofs += 1;
            return Ok(0);
        }
        let to_b = self.boundaries.iter().find(|&&b| b > pos).map(|&b| b - pos);
        let lp = self.last_pending;
        let ans = self.decide.next(RAns::All, |a| match a {
            RAns::All | RAns::Err | RAns::Exactly(_) => true,
            RAns::One => avail > 1,
            RAns::Half => avail / 2 > 1 && avail / 2 < avail,
            RAns::ToBoundary => matches!(to_b, Some(k) if k > 1 && k < avail),
            RAns::PastBoundary => matches!(to_b, Some(k) if k + 1 < avail),
            RAns::Pending => allow_pending && !lp,
        });
        self.last_pending = false;
        let n = match ans {
            RAns::All => avail,
            RAns::One => 1,
            RAns::Half => (avail / 2).max(1),
            RAns::ToBoundary => to_b.unwrap_or(avail).min(avail),
            RAns::PastBoundary => (to_b.unwrap_or(avail) + 1).min(avail),
            RAns::Exactly(k) => {
                let n = k.clamp(1, avail);
                if k > n {
                    // the caller's buffer (or the data) is smaller than the segment: the rest of the
                    // segment stays one segment
                    if let Decide::Script(q) = &mut self.decide {
                        q.push_front(RAns::Exactly(k - n));
                    }
                }
                n
            }
            RAns::Pending => {
                if !allow_pending {
                    avail
                } else {
                    self.last_pending = true;
                    self.rec.0.lock().unwrap().pendings += 1;
                    return Err(None);
                }
            }
            RAns::Err => return Err(Some(io::Error::new(io::ErrorKind::Other, "scripted read error"))),
        };
        let mut g = self.rec.0.lock().unwrap();
        g.pos += n;
        g.deliveries.push(n);
        Ok(n)
    }
}

/// Answers that deliver `data` in the given segment lengths, with `Pending` inserted before the
/// deliveries whose index is in `pending_before` (async only).
pub fn segment_script(segments: &[usize], pending_before: &[usize]) -> Decide<RAns> {
    let mut v = Vec::new();
    for (i, s) in segments.iter().enumerate() {
        if pending_before.contains(&i) {
            v.push(RAns::Pending);
        }
        if *s > 0 {
            v.push(RAns::Exactly(*s));
        }
    }
    Decide::script(v)
}

/// Scripted `std::io::Read`.
pub struct ScriptRead(pub ReadCore);

impl ScriptRead {
    pub fn new(data: Vec<u8>, decide: Decide<RAns>, boundaries: Vec<usize>) -> (Self, ReadRec) {
        let c = ReadCore::new(data, decide, boundaries);
        let r = c.rec.clone();
        (ScriptRead(c), r)
    }
    pub fn segmented(data: Vec<u8>, segments: &[usize]) -> (Self, ReadRec) {
        Self::new(data, segment_script(segments, &[]), vec![])
    }
    pub fn explored(data: Vec<u8>, boundaries: Vec<usize>, ctx: &Ctx, budget: usize) -> (Self, ReadRec) {
        Self::new(data, Decide::Explore { ctx: ctx.clone(), menu: SYNC_READ_MENU.to_vec(), budget }, boundaries)
    }
}

impl Read for ScriptRead {
    fn read(&mut self, buf: &mut [u8]) -> io::Result<usize> {
        match self.0.step(buf.len(), false) {
            Ok(n) => {
                let pos = self.0.rec.pos();
                buf[..n].copy_from_slice(&self.0.data[pos - n..pos]);
                Ok(n)
            }
            Err(Some(e)) => Err(e),
            Err(None) => unreachable!(),
        }
    }
}

/// Scripted `tokio::io::AsyncRead`.
pub struct ScriptAsyncRead(pub ReadCore);

impl ScriptAsyncRead {
    pub fn new(data: Vec<u8>, decide: Decide<RAns>, boundaries: Vec<usize>) -> (Self, ReadRec) {
        let c = ReadCore::new(data, decide, boundaries);
        let r = c.rec.clone();
        (ScriptAsyncRead(c), r)
    }
    pub fn segmented(data: Vec<u8>, segments: &[usize], pending_before: &[usize]) -> (Self, ReadRec) {
        Self::new(data, segment_script(segments, pending_before), vec![])
    }
    pub fn explored(data: Vec<u8>, boundaries: Vec<usize>, ctx: &Ctx, budget: usize) -> (Self, ReadRec) {
        Self::new(data, Decide::Explore { ctx: ctx.clone(), menu: ASYNC_READ_MENU.to_vec(), budget }, boundaries)
    }
}

impl AsyncRead for ScriptAsyncRead {
    fn poll_read(mut self: Pin<&mut Self>, cx: &mut Context<'_>, buf: &mut ReadBuf<'_>) -> Poll<io::Result<()>> {
        match self.0.step(buf.remaining(), true) {
            Ok(n) => {
                let pos = self.0.rec.pos();
                buf.put_slice(&self.0.data[pos - n..pos]);
                Poll::Ready(Ok(()))
            }
            Err(Some(e)) => Poll::Ready(Err(e)),
            Err(None) => {
                cx.waker().wake_by_ref();
                Poll::Pending
            }
        }
    }
}

// ------------------------------------------------------------------------------------------------
// sockets: a read script and a write script joined

/// `Read + Write + CloseSocket` out of a scripted reader and a scripted writer.
pub struct SyncSock {
    pub r: ScriptRead,
    pub w: ScriptWrite,
    pub closed: Arc<AtomicUsize>,
}

impl SyncSock {
    pub fn new(r: ScriptRead, w: ScriptWrite) -> Self {
        SyncSock { r, w, closed: Arc::new(AtomicUsize::new(0)) }
    }
}

impl Read for SyncSock {
    fn read(&mut self, buf: &mut [u8]) -> io::Result<usize> {
        self.r.read(buf)
    }
}
impl Write for SyncSock {
    fn write(&mut self, buf: &[u8]) -> io::Result<usize> {
        self.w.write(buf)
    }
    fn flush(&mut self) -> io::Result<()> {
        self.w.flush()
    }
}
impl dicom_ul::association::CloseSocket for SyncSock {
    fn close(&mut self) -> io::Result<()> {
        self.closed.fetch_add(1, Ordering::Relaxed);
        Ok(())
    }
}

/// `AsyncRead + AsyncWrite` out of a scripted reader and a scripted writer.
pub struct AsyncSock {
    pub r: ScriptAsyncRead,
    pub w: ScriptAsyncWrite,
}

impl AsyncRead for AsyncSock {
    fn poll_read(mut self: Pin<&mut Self>, cx: &mut Context<'_>, buf: &mut ReadBuf<'_>) -> Poll<io::Result<()>> {
        Pin::new(&mut self.r).poll_read(cx, buf)
    }
}
impl AsyncWrite for AsyncSock {
    fn poll_write(mut self: Pin<&mut Self>, cx: &mut Context<'_>, buf: &[u8]) -> Poll<io::Result<usize>> {
        Pin::new(&mut self.w).poll_write(cx, buf)
    }
    fn poll_flush(mut self: Pin<&mut Self>, cx: &mut Context<'_>) -> Poll<io::Result<()>> {
        Pin::new(&mut self.w).poll_flush(cx)
    }
    fn poll_shutdown(mut self: Pin<&mut Self>, cx: &mut Context<'_>) -> Poll<io::Result<()>> {
        Pin::new(&mut self.w).poll_shutdown(cx)
    }
}

#[cfg(test)]
mod tests {
    use super::*;
    use tokio::io::{AsyncReadExt, AsyncWriteExt};

    #[test]
    fn async_write_script_and_stall_detection() {
        let (mut w, rec) = ScriptAsyncWrite::new(Decide::script([WAns::One, WAns::Pending, WAns::Half]));
        match drive_local(async { w.write_all(b"abcdefgh").await }, 100) {
            Driven::Done { value, polls } => {
                value.unwrap();
                assert_eq!(polls, 2);
            }
            x => panic!("{x:?}"),
        }
        assert_eq!(rec.bytes(), b"abcdefgh");
        assert_eq!(rec.calls().iter().map(|c| c.1).collect::<Vec<_>>(), [WAns::One, WAns::Pending, WAns::Half, WAns::All]);
        // a future that returns Pending without waking is reported
        struct Never;
        impl Future for Never {
            type Output = ();
            fn poll(self: Pin<&mut Self>, _: &mut Context<'_>) -> Poll<()> {
                Poll::Pending
            }
        }
        assert!(matches!(drive_local(Never, 10), Driven::Stalled { polls: 1 }));
    }

    #[test]
    fn read_segments() {
        let data: Vec<u8> = (0..10).collect();
        let (mut r, rec) = ScriptRead::segmented(data.clone(), &[3, 1, 6]);
        let mut out = vec![];
        let mut buf = [0u8; 4];
        loop {
            let n = r.read(&mut buf).unwrap();
            if n == 0 {
                break;
            }
            out.extend_from_slice(&buf[..n]);
        }
        assert_eq!(out, data);
        assert_eq!(rec.deliveries(), [3, 1, 4, 2]);
        let (mut r, rec) = ScriptAsyncRead::segmented(data.clone(), &[3, 7], &[0, 1]);
        let mut out = vec![];
        match drive_local(async { r.read_to_end(&mut out).await }, 100) {
            Driven::Done { value, .. } => assert_eq!(value.unwrap(), 10),
            x => panic!("{x:?}"),
        }
        assert_eq!(out, data);
        assert_eq!(rec.pendings(), 2);
    }

    #[test]
    fn explored_reader_enumerates_menu() {
        let data: Vec<u8> = (0..12).collect();
        let mut seen = std::collections::BTreeSet::new();
        vx_kit::explore(Some(1), u64::MAX, |ctx| {
            let (mut r, rec) = ScriptRead::explored(data.clone(), vec![4], ctx, 8);
            let mut out = vec![];
            let mut buf = [0u8; 64];
            loop {
                let n = r.read(&mut buf).unwrap();
                if n == 0 {
                    break;
                }
                out.extend_from_slice(&buf[..n]);
            }
            assert_eq!(out, data);
            seen.insert(rec.deliveries());
        })
        .unwrap();
        assert!(seen.contains(&vec![12]));
        assert!(seen.contains(&vec![4, 8]));
        assert!(seen.contains(&vec![5, 7]));
        assert!(seen.contains(&vec![1, 11]));
        assert!(seen.contains(&vec![6, 6]));
    }
}
