//! Shared helpers of the tool checks (C32, C33, C35).
//!
//! The checks drive the *real* command line binaries of the repository (built by `pre/tools.sh`)
//! over loopback TCP and the file system. Nothing in this crate depends on a dicom-rs crate: the
//! peer side is written here and on `vx-ref` (data set codec) from PS3.5 / PS3.7 / PS3.8.
//!
//! * `pdu`   — minimal upper-layer PDU codec (PS3.8 section 9.3): A-ASSOCIATE-RQ/AC/RJ, P-DATA-TF,
//!             A-RELEASE-RQ/RP, A-ABORT
//! * `dimse` — C-STORE command sets in Implicit VR LE with a computed command group length
//! * `proc`  — child processes that are killed on every exit path, runs with a wall-clock limit
//! * `tree`  — file system snapshots
//! * `dsx`   — a tiny dictionary, canonical comparison of reference data set trees
//! * `img`   — PNG helpers on the `png` crate

use std::path::PathBuf;

pub fn verif_root() -> PathBuf {
    PathBuf::from(std::env::var("VERIF_ROOT").unwrap_or_else(|_| "/verif".into()))
}

/// Where `pre/tools.sh` puts the binaries: `${VERIF_TARGET:-$VERIF_ROOT/target}/repo/release/<name>`.
pub fn tool_path(name: &str) -> PathBuf {
    let tgt = std::env::var("VERIF_TARGET")
        .map(PathBuf::from)
        .unwrap_or_else(|_| verif_root().join("target"));
    let p = tgt.join("repo/release").join(name);
    if !p.is_file() {
        vx_kit::report::machinery(&format!("tool binary {} not found (pre-step tools.sh not run?)", p.display()));
    }
    p
}

pub fn threads() -> usize {
    std::env::var("VERIF_THREADS")
        .ok()
        .and_then(|s| s.parse().ok())
        .unwrap_or_else(|| std::thread::available_parallelism().map(|n| n.get()).unwrap_or(4))
        .max(1)
}

// ------------------------------------------------------------------------------------------------
pub mod pdu {
    //! Minimal PDU codec written from PS3.8 section 9.3 (big-endian length fields).
    use std::io::{self, Read};

    #[derive(Clone, Debug, PartialEq, Eq)]
    pub struct PcRq {
        pub id: u8,
        pub abs: String,
        pub ts: Vec<String>,
    }
    #[derive(Clone, Debug, PartialEq, Eq)]
    pub struct PcAc {
        pub id: u8,
        /// 0 acceptance, 1 user rejection, 2 no reason, 3 abstract syntax not supported,
        /// 4 transfer syntaxes not supported
        pub result: u8,
        pub ts: String,
    }
    #[derive(Clone, Debug, PartialEq, Eq)]
    pub struct Assoc<P> {
        pub called: String,
        pub calling: String,
        pub app_ctx: String,
        pub pcs: Vec<P>,
        pub max_pdu: u32,
        pub impl_uid: String,
        pub impl_version: Option<String>,
    }
    #[derive(Clone, Debug, PartialEq, Eq)]
    pub struct Pdv {
        pub pc: u8,
        pub command: bool,
        pub last: bool,
        pub data: Vec<u8>,
    }
    #[derive(Clone, Debug, PartialEq, Eq)]
    pub enum Pdu {
        Rq(Assoc<PcRq>),
        Ac(Assoc<PcAc>),
        Rj { result: u8, source: u8, reason: u8 },
        PData(Vec<Pdv>),
        ReleaseRq,
        ReleaseRp,
        Abort { source: u8, reason: u8 },
        Unknown(u8, Vec<u8>),
    }

    pub const APP_CTX: &str = "1.2.840.10008.3.1.1.1";

    impl Pdu {
        pub fn short(&self) -> String {
            match self {
                Pdu::Rq(a) => format!("A-ASSOCIATE-RQ({} pcs)", a.pcs.len()),
                Pdu::Ac(a) => format!("A-ASSOCIATE-AC({} pcs)", a.pcs.len()),
                Pdu::Rj { result, source, reason } => format!("A-ASSOCIATE-RJ({result},{source},{reason})"),
                Pdu::PData(v) => format!(
                    "P-DATA[{}]",
                    v.iter()
                        .map(|p| format!("pc{}{}{}:{}", p.pc, if p.command { "C" } else { "D" }, if p.last { "L" } else { "" }, p.data.len()))
                        .collect::<Vec<_>>()
                        .join(",")
                ),
                Pdu::ReleaseRq => "A-RELEASE-RQ".into(),
                Pdu::ReleaseRp => "A-RELEASE-RP".into(),
                Pdu::Abort { source, reason } => format!("A-ABORT({source},{reason})"),
                Pdu::Unknown(t, b) => format!("UNKNOWN(type {t}, {} bytes)", b.len()),
            }
        }
    }

    fn item(out: &mut Vec<u8>, ty: u8, body: &[u8]) {
        out.push(ty);
        out.push(0);
        out.extend_from_slice(&(body.len() as u16).to_be_bytes());
        out.extend_from_slice(body);
    }
    fn ae(out: &mut Vec<u8>, t: &str) {
        let mut b = t.as_bytes().to_vec();
        b.resize(16, b' ');
        out.extend_from_slice(&b[..16]);
    }
    fn frame(ty: u8, body: Vec<u8>) -> Vec<u8> {
        let mut out = vec![ty, 0];
        out.extend_from_slice(&(body.len() as u32).to_be_bytes());
        out.extend(body);
        out
    }
    fn assoc_head<P>(a: &Assoc<P>) -> Vec<u8> {
        let mut b = vec![0, 1, 0, 0];
        ae(&mut b, &a.called);
        ae(&mut b, &a.calling);
        b.extend_from_slice(&[0u8; 32]);
        item(&mut b, 0x10, a.app_ctx.as_bytes());
        b
    }
    fn user_info<P>(a: &Assoc<P>) -> Vec<u8> {
        let mut u = vec![];
        item(&mut u, 0x51, &a.max_pdu.to_be_bytes());
        item(&mut u, 0x52, a.impl_uid.as_bytes());
        if let Some(v) = &a.impl_version {
            item(&mut u, 0x55, v.as_bytes());
        }
        u
    }

    pub fn encode(p: &Pdu) -> Vec<u8> {
        match p {
            Pdu::Rq(a) => {
                let mut b = assoc_head(a);
                for pc in &a.pcs {
                    let mut i = vec![pc.id, 0, 0, 0];
                    item(&mut i, 0x30, pc.abs.as_bytes());
                    for t in &pc.ts {
                        item(&mut i, 0x40, t.as_bytes());
                    }
                    item(&mut b, 0x20, &i);
                }
                item(&mut b, 0x50, &user_info(a));
                frame(1, b)
            }
            Pdu::Ac(a) => {
                let mut b = assoc_head(a);
                for pc in &a.pcs {
                    let mut i = vec![pc.id, 0, pc.result, 0];
                    item(&mut i, 0x40, pc.ts.as_bytes());
                    item(&mut b, 0x21, &i);
                }
                item(&mut b, 0x50, &user_info(a));
                frame(2, b)
            }
            Pdu::Rj { result, source, reason } => frame(3, vec![0, *result, *source, *reason]),
            Pdu::PData(pdvs) => {
                let mut b = vec![];
                for v in pdvs {
                    b.extend_from_slice(&((v.data.len() + 2) as u32).to_be_bytes());
                    b.push(v.pc);
                    b.push((v.command as u8) | ((v.last as u8) << 1));
                    b.extend_from_slice(&v.data);
                }
                frame(4, b)
            }
            Pdu::ReleaseRq => frame(5, vec![0; 4]),
            Pdu::ReleaseRp => frame(6, vec![0; 4]),
            Pdu::Abort { source, reason } => frame(7, vec![0, 0, *source, *reason]),
            Pdu::Unknown(t, b) => frame(*t, b.clone()),
        }
    }

    fn bad<T>(m: impl Into<String>) -> io::Result<T> {
        Err(io::Error::new(io::ErrorKind::InvalidData, m.into()))
    }
    fn uid(b: &[u8]) -> String {
        String::from_utf8_lossy(b).trim_end_matches(['\0', ' ']).to_string()
    }
    /// split a run of (type, reserved, u16 length, body) items
    fn items(mut b: &[u8]) -> io::Result<Vec<(u8, &[u8])>> {
        let mut out = vec![];
        while !b.is_empty() {
            if b.len() < 4 {
                return bad("truncated item header");
            }
            let l = u16::from_be_bytes([b[2], b[3]]) as usize;
            if b.len() < 4 + l {
                return bad("item length exceeds its container");
            }
            out.push((b[0], &b[4..4 + l]));
            b = &b[4 + l..];
        }
        Ok(out)
    }

    fn parse_assoc(body: &[u8], ac: bool) -> io::Result<Pdu> {
        if body.len() < 68 {
            return bad("association PDU shorter than its fixed part");
        }
        let called = String::from_utf8_lossy(&body[4..20]).trim().to_string();
        let calling = String::from_utf8_lossy(&body[20..36]).trim().to_string();
        let mut app_ctx = String::new();
        let mut rq = vec![];
        let mut acs = vec![];
        let mut max_pdu = 0;
        let mut impl_uid = String::new();
        let mut impl_version = None;
        for (ty, b) in items(&body[68..])? {
            match ty {
                0x10 => app_ctx = uid(b),
                0x20 if !ac => {
                    if b.len() < 4 {
                        return bad("short presentation context item");
                    }
                    let mut pc = PcRq { id: b[0], abs: String::new(), ts: vec![] };
                    for (st, sb) in items(&b[4..])? {
                        match st {
                            0x30 => pc.abs = uid(sb),
                            0x40 => pc.ts.push(uid(sb)),
                            _ => return bad(format!("unexpected sub-item {st:#x} in presentation context")),
                        }
                    }
                    rq.push(pc);
                }
                0x21 if ac => {
                    if b.len() < 4 {
                        return bad("short presentation context item");
                    }
                    let mut pc = PcAc { id: b[0], result: b[2], ts: String::new() };
                    for (st, sb) in items(&b[4..])? {
                        if st == 0x40 {
                            pc.ts = uid(sb);
                        } else {
                            return bad(format!("unexpected sub-item {st:#x} in presentation context result"));
                        }
                    }
                    acs.push(pc);
                }
                0x50 => {
                    for (st, sb) in items(b)? {
                        match st {
                            0x51 if sb.len() == 4 => max_pdu = u32::from_be_bytes([sb[0], sb[1], sb[2], sb[3]]),
                            0x52 => impl_uid = uid(sb),
                            0x55 => impl_version = Some(uid(sb)),
                            _ => {}
                        }
                    }
                }
                _ => return bad(format!("unexpected item {ty:#x} in association PDU")),
            }
        }
        Ok(if ac {
            Pdu::Ac(Assoc { called, calling, app_ctx, pcs: acs, max_pdu, impl_uid, impl_version })
        } else {
            Pdu::Rq(Assoc { called, calling, app_ctx, pcs: rq, max_pdu, impl_uid, impl_version })
        })
    }

    pub fn parse_body(ty: u8, body: &[u8]) -> io::Result<Pdu> {
        Ok(match ty {
            1 => parse_assoc(body, false)?,
            2 => parse_assoc(body, true)?,
            3 if body.len() == 4 => Pdu::Rj { result: body[1], source: body[2], reason: body[3] },
            4 => {
                let mut b = body;
                let mut pdvs = vec![];
                while !b.is_empty() {
                    if b.len() < 6 {
                        return bad("truncated PDV header");
                    }
                    let l = u32::from_be_bytes([b[0], b[1], b[2], b[3]]) as usize;
                    if l < 2 || b.len() < 4 + l {
                        return bad("PDV length does not fit the PDU");
                    }
                    if b[5] & !3 != 0 {
                        return bad("reserved bits set in message control header");
                    }
                    pdvs.push(Pdv { pc: b[4], command: b[5] & 1 != 0, last: b[5] & 2 != 0, data: b[6..4 + l].to_vec() });
                    b = &b[4 + l..];
                }
                Pdu::PData(pdvs)
            }
            5 if body.len() == 4 => Pdu::ReleaseRq,
            6 if body.len() == 4 => Pdu::ReleaseRp,
            7 if body.len() == 4 => Pdu::Abort { source: body[2], reason: body[3] },
            _ => Pdu::Unknown(ty, body.to_vec()),
        })
    }

    /// Read one PDU. `Ok(None)` = the peer closed the connection before the first header byte.
    pub fn read_pdu(r: &mut impl Read) -> io::Result<Option<Pdu>> {
        let mut h = [0u8; 6];
        let mut got = 0;
        while got < 6 {
            let n = r.read(&mut h[got..])?;
            if n == 0 {
                if got == 0 {
                    return Ok(None);
                }
                return bad("connection closed inside a PDU header");
            }
            got += n;
        }
        let len = u32::from_be_bytes([h[2], h[3], h[4], h[5]]) as usize;
        if len > 1 << 24 {
            return bad(format!("implausible PDU length {len}"));
        }
        let mut body = vec![0u8; len];
        r.read_exact(&mut body)?;
        parse_body(h[0], &body).map(Some)
    }

    #[cfg(test)]
    mod tests {
        use super::*;
        #[test]
        fn roundtrip() {
            let rq = Pdu::Rq(Assoc {
                called: "ANY-SCP".into(),
                calling: "ME".into(),
                app_ctx: APP_CTX.into(),
                pcs: vec![PcRq { id: 1, abs: "1.2.3".into(), ts: vec!["1.2.840.10008.1.2".into(), "1.2.840.10008.1.2.1".into()] }],
                max_pdu: 16384,
                impl_uid: "1.2.3.4".into(),
                impl_version: Some("V".into()),
            });
            let ac = Pdu::Ac(Assoc {
                called: "ANY-SCP".into(),
                calling: "ME".into(),
                app_ctx: APP_CTX.into(),
                pcs: vec![PcAc { id: 1, result: 0, ts: "1.2.840.10008.1.2".into() }],
                max_pdu: 0,
                impl_uid: "1.2.3.4".into(),
                impl_version: None,
            });
            let pd = Pdu::PData(vec![
                Pdv { pc: 1, command: true, last: true, data: vec![1, 2, 3] },
                Pdv { pc: 3, command: false, last: false, data: vec![] },
            ]);
            for p in [rq, ac, pd, Pdu::ReleaseRq, Pdu::ReleaseRp, Pdu::Abort { source: 2, reason: 1 }, Pdu::Rj { result: 1, source: 1, reason: 3 }] {
                let b = encode(&p);
                let q = read_pdu(&mut &b[..]).unwrap().unwrap();
                assert_eq!(p, q);
            }
            // fixed bytes of a release request (PS3.8 table 9-24)
            assert_eq!(encode(&Pdu::ReleaseRq), vec![5, 0, 0, 0, 0, 4, 0, 0, 0, 0]);
            assert_eq!(
                encode(&Pdu::PData(vec![Pdv { pc: 5, command: true, last: true, data: vec![9] }])),
                vec![4, 0, 0, 0, 0, 7, 0, 0, 0, 3, 5, 3, 9]
            );
        }
    }
}

// ------------------------------------------------------------------------------------------------
pub mod dimse {
    //! C-STORE command sets (PS3.7 section 9.3.1, Annex E): Implicit VR LE, ascending tags,
    //! (0000,0000) = number of bytes that follow it.
    use vx_ref::ds::{encode_items, parse, RElem, RVal, Tag, Ts, Vr};

    fn us(tag: Tag, v: u16) -> RElem {
        RElem::prim(tag, "US", &v.to_le_bytes())
    }
    fn finish(rest: Vec<RElem>) -> Vec<u8> {
        let body = encode_items(Ts::ImplicitLE, &rest);
        let mut out = encode_items(Ts::ImplicitLE, &[RElem::prim((0, 0), "UL", &(body.len() as u32).to_le_bytes())]);
        out.extend(body);
        out
    }
    /// `uid` bytes are written as given (padded with one NUL when odd)
    pub fn c_store_rq(sop_class: &str, sop_instance: &[u8], msg_id: u16) -> Vec<u8> {
        finish(vec![
            RElem::prim((0, 0x0002), "UI", sop_class.as_bytes()),
            us((0, 0x0100), 0x0001),
            us((0, 0x0110), msg_id),
            us((0, 0x0700), 0),
            us((0, 0x0800), 0x0000),
            RElem::prim((0, 0x1000), "UI", sop_instance),
        ])
    }
    pub fn c_store_rsp(sop_class: &str, sop_instance: &[u8], msg_id: u16, status: u16) -> Vec<u8> {
        finish(vec![
            RElem::prim((0, 0x0002), "UI", sop_class.as_bytes()),
            us((0, 0x0100), 0x8001),
            us((0, 0x0120), msg_id),
            us((0, 0x0800), 0x0101),
            us((0, 0x0900), status),
            RElem::prim((0, 0x1000), "UI", sop_instance),
        ])
    }

    #[derive(Debug, Clone, Default, PartialEq, Eq)]
    pub struct Command {
        pub group_length: Option<u32>,
        /// bytes that really follow the group length element
        pub bytes_after_group_length: usize,
        pub field: Option<u16>,
        pub msg_id: Option<u16>,
        pub msg_id_responded: Option<u16>,
        pub data_set_type: Option<u16>,
        pub status: Option<u16>,
        pub sop_class: Option<String>,
        pub sop_instance: Option<String>,
    }

    fn cmd_vr(t: Tag) -> Option<Vr> {
        Some(match t {
            (0, 0) => *b"UL",
            (0, 0x0002) | (0, 0x0003) | (0, 0x1000) | (0, 0x1001) => *b"UI",
            (0, 0x0600) | (0, 0x1030) => *b"AE",
            (0, 0x0902) => *b"LO",
            (0, 0x0901) => *b"AT",
            (0, _) => *b"US",
            _ => return None,
        })
    }

    pub fn parse_command(b: &[u8]) -> Result<Command, String> {
        let els = parse(Ts::ImplicitLE, b, &cmd_vr).map_err(|e| e.to_string())?;
        let mut c = Command::default();
        let u16of = |v: &RVal| match v {
            RVal::Prim(b) if b.len() == 2 => Some(u16::from_le_bytes([b[0], b[1]])),
            _ => None,
        };
        let strof = |v: &RVal| match v {
            RVal::Prim(b) => Some(String::from_utf8_lossy(b).trim_end_matches(['\0', ' ']).to_string()),
            _ => None,
        };
        for e in &els {
            if e.tag.0 != 0 {
                return Err(format!("non-command element {:04X?} in command set", e.tag));
            }
            match e.tag.1 {
                0 => {
                    if let RVal::Prim(b) = &e.val {
                        if b.len() == 4 {
                            c.group_length = Some(u32::from_le_bytes([b[0], b[1], b[2], b[3]]));
                        }
                    }
                }
                0x0002 => c.sop_class = strof(&e.val),
                0x0100 => c.field = u16of(&e.val),
                0x0110 => c.msg_id = u16of(&e.val),
                0x0120 => c.msg_id_responded = u16of(&e.val),
                0x0800 => c.data_set_type = u16of(&e.val),
                0x0900 => c.status = u16of(&e.val),
                0x1000 => c.sop_instance = strof(&e.val),
                _ => {}
            }
        }
        c.bytes_after_group_length = b.len().saturating_sub(12);
        Ok(c)
    }

    #[cfg(test)]
    mod tests {
        use super::*;
        #[test]
        fn group_length() {
            let b = c_store_rq("1.2.840.10008.5.1.4.1.1.2", b"1.2.3", 7);
            let c = parse_command(&b).unwrap();
            assert_eq!(c.group_length, Some((b.len() - 12) as u32));
            assert_eq!(c.field, Some(1));
            assert_eq!(c.msg_id, Some(7));
            assert_eq!(c.sop_instance.as_deref(), Some("1.2.3"));
            // first element: tag 0000,0000 length 4
            assert_eq!(&b[..8], &[0, 0, 0, 0, 4, 0, 0, 0]);
        }
    }
}

// ------------------------------------------------------------------------------------------------
pub mod proc {
    //! Child processes. Every child is put under `Proc`, whose `Drop` kills and reaps it; children
    //! also get PR_SET_PDEATHSIG(SIGKILL) so that they cannot outlive a killed harness.
    use std::os::unix::process::CommandExt;
    use std::path::Path;
    use std::process::{Child, Command, ExitStatus, Stdio};
    use std::time::{Duration, Instant};

    pub struct Proc {
        pub child: Child,
    }
    impl Proc {
        pub fn kill(&mut self) {
            let _ = self.child.kill();
            let _ = self.child.wait();
        }
        /// Wait until exit or the deadline. None = still running (it is NOT killed here).
        pub fn wait_deadline(&mut self, limit: Duration) -> Option<ExitStatus> {
            let t0 = Instant::now();
            let mut nap = Duration::from_micros(200);
            loop {
                match self.child.try_wait() {
                    Ok(Some(st)) => return Some(st),
                    Ok(None) => {}
                    Err(_) => return None,
                }
                if t0.elapsed() > limit {
                    return None;
                }
                std::thread::sleep(nap);
                nap = (nap * 2).min(Duration::from_millis(5));
            }
        }
        pub fn exited(&mut self) -> Option<ExitStatus> {
            self.child.try_wait().ok().flatten()
        }
    }
    impl Drop for Proc {
        fn drop(&mut self) {
            self.kill();
        }
    }

    /// Where the child's stdout+stderr go.
    pub enum Out<'a> {
        Null,
        Inherit,
        File(&'a Path),
    }

    pub fn spawn(exe: &Path, args: &[&str], cwd: &Path, out: Out<'_>) -> std::io::Result<Proc> {
        let mut c = Command::new(exe);
        c.args(args).current_dir(cwd).stdin(Stdio::null());
        // many tool processes run side by side: keep each one's data-parallel pool small
        c.env_remove("RUST_LOG").env("NO_COLOR", "1").env("RAYON_NUM_THREADS", "2");
        match out {
            Out::Null => {
                c.stdout(Stdio::null()).stderr(Stdio::null());
            }
            Out::Inherit => {
                c.stdout(Stdio::inherit()).stderr(Stdio::inherit());
            }
            Out::File(p) => {
                let f = std::fs::File::create(p)?;
                let g = f.try_clone()?;
                c.stdout(f).stderr(g);
            }
        }
        unsafe {
            c.pre_exec(|| {
                libc::prctl(libc::PR_SET_PDEATHSIG, libc::SIGKILL);
                Ok(())
            });
        }
        Ok(Proc { child: c.spawn()? })
    }

    /// Result of a bounded run.
    #[derive(Debug, Clone, PartialEq, Eq)]
    pub enum Ran {
        Exit(i32),
        Signal,
        Timeout,
    }
    impl Ran {
        pub fn describe(&self) -> String {
            match self {
                Ran::Exit(c) => format!("exit {c}"),
                Ran::Signal => "killed by signal".into(),
                Ran::Timeout => "timeout".into(),
            }
        }
    }
    pub fn status_of(st: Option<ExitStatus>) -> Ran {
        match st {
            None => Ran::Timeout,
            Some(s) => match s.code() {
                Some(c) => Ran::Exit(c),
                None => Ran::Signal,
            },
        }
    }

    /// Run to completion with a wall-clock limit; a process still running at the limit is killed.
    pub fn run(exe: &Path, args: &[&str], cwd: &Path, out: Out<'_>, limit: Duration) -> std::io::Result<Ran> {
        let mut p = spawn(exe, args, cwd, out)?;
        let st = p.wait_deadline(limit);
        Ok(status_of(st))
    }
}

// ------------------------------------------------------------------------------------------------
pub mod tree {
    use std::collections::BTreeMap;
    use std::path::Path;

    #[derive(Clone, Debug, PartialEq, Eq)]
    pub enum Entry {
        Dir,
        File(u64, u64), // length, content hash
        Other,
    }
    /// Recursive snapshot: path relative to `root` → entry. Symlinks are not followed.
    pub fn snapshot(root: &Path) -> BTreeMap<String, Entry> {
        fn walk(root: &Path, dir: &Path, out: &mut BTreeMap<String, Entry>) {
            let Ok(rd) = std::fs::read_dir(dir) else { return };
            for e in rd.flatten() {
                let p = e.path();
                let rel = p.strip_prefix(root).unwrap().to_string_lossy().into_owned();
                let Ok(md) = std::fs::symlink_metadata(&p) else { continue };
                if md.is_dir() {
                    out.insert(rel, Entry::Dir);
                    walk(root, &p, out);
                } else if md.is_file() {
                    let data = std::fs::read(&p).unwrap_or_default();
                    out.insert(rel, Entry::File(data.len() as u64, vx_kit::hash_of(&data)));
                } else {
                    out.insert(rel, Entry::Other);
                }
            }
        }
        let mut out = BTreeMap::new();
        walk(root, root, &mut out);
        out
    }
    /// Paths that are new or whose entry changed.
    pub fn changed(before: &BTreeMap<String, Entry>, after: &BTreeMap<String, Entry>) -> Vec<String> {
        let mut v: Vec<String> = after.iter().filter(|(k, e)| before.get(*k) != Some(e)).map(|(k, _)| k.clone()).collect();
        v.extend(before.keys().filter(|k| !after.contains_key(*k)).map(|k| format!("-{k}")));
        v
    }
}

// ------------------------------------------------------------------------------------------------
pub mod dsx {
    //! Dictionary subset for Implicit VR and the canonical comparison of reference trees.
    use vx_ref::ds::{RElem, RItem, RVal, Tag, Vr};

    /// VRs of the (few) standard tags the tool checks put in their data sets (PS3.6).
    pub fn vr_of(t: Tag) -> Option<Vr> {
        Some(match t {
            (0x0008, 0x0016) | (0x0008, 0x0018) | (0x0008, 0x1150) | (0x0008, 0x1155) | (0x0020, 0x000D) | (0x0020, 0x000E) => *b"UI",
            (0x0008, 0x0008) | (0x0008, 0x0060) | (0x0028, 0x0004) | (0x2050, 0x0020) => *b"CS",
            (0x0008, 0x0020) => *b"DA",
            (0x0008, 0x0030) => *b"TM",
            (0x0008, 0x0050) | (0x0020, 0x0010) => *b"SH",
            (0x0008, 0x1140) | (0x0008, 0x1115) | (0x0040, 0x0275) => *b"SQ",
            (0x0010, 0x0010) => *b"PN",
            (0x0010, 0x0020) | (0x0008, 0x0070) | (0x0008, 0x103E) | (0x0009, 0x0010) => *b"LO",
            (0x0020, 0x0013) | (0x0028, 0x0008) => *b"IS",
            (0x0028, 0x1050) | (0x0028, 0x1051) | (0x0028, 0x1052) | (0x0028, 0x1053) => *b"DS",
            (0x0028, 0x0002) | (0x0028, 0x0006) | (0x0028, 0x0010) | (0x0028, 0x0011) | (0x0028, 0x0100) | (0x0028, 0x0101) | (0x0028, 0x0102)
            | (0x0028, 0x0103) | (0x0028, 0x0106) | (0x0028, 0x0107) => *b"US",
            (0x0028, 0x1054) => *b"LO",
            (0x7FE0, 0x0010) => *b"OW",
            _ => return None,
        })
    }

    fn is_text(v: Vr) -> bool {
        matches!(
            &v,
            b"AE" | b"AS" | b"CS" | b"DA" | b"DS" | b"DT" | b"IS" | b"LO" | b"LT" | b"PN" | b"SH" | b"ST" | b"TM" | b"UC" | b"UI" | b"UR" | b"UT"
        )
    }

    /// Canonical form: recorded lengths dropped; trailing padding of text values removed
    /// (space, and NUL for UI); binary values compared with their even padding; when `implicit`
    /// is set, VRs are replaced by what an Implicit VR reader with `vr_of` would see.
    pub fn canon(elems: &[RElem], implicit: bool) -> Vec<RElem> {
        elems
            .iter()
            .map(|e| {
                let vr = if implicit {
                    match (&e.val, vr_of(e.tag)) {
                        (RVal::Seq { .. }, _) => *b"SQ",
                        (_, Some(v)) => v,
                        (_, None) => *b"UN",
                    }
                } else {
                    e.vr
                };
                let val = match &e.val {
                    RVal::Prim(b) => {
                        let mut b = b.clone();
                        if is_text(vr) || (implicit && is_text(e.vr)) {
                            while matches!(b.last(), Some(b' ') | Some(0)) {
                                b.pop();
                            }
                        } else if b.len() % 2 == 1 {
                            b.push(0);
                        }
                        RVal::Prim(b)
                    }
                    RVal::Seq { items, .. } => RVal::Seq {
                        items: items.iter().map(|it| RItem { elems: canon(&it.elems, implicit), explicit: false }).collect(),
                        explicit: false,
                    },
                    RVal::Pix { offsets, frags } => RVal::Pix {
                        offsets: offsets.clone(),
                        frags: frags
                            .iter()
                            .map(|f| {
                                let mut f = f.clone();
                                if f.len() % 2 == 1 {
                                    f.push(0);
                                }
                                f
                            })
                            .collect(),
                    },
                };
                RElem { tag: e.tag, vr, val }
            })
            .collect()
    }

    pub fn find<'a>(elems: &'a [RElem], tag: Tag) -> Option<&'a RElem> {
        elems.iter().find(|e| e.tag == tag)
    }
    pub fn prim<'a>(elems: &'a [RElem], tag: Tag) -> Option<&'a [u8]> {
        match &find(elems, tag)?.val {
            RVal::Prim(b) => Some(b),
            _ => None,
        }
    }
    /// text value with trailing padding removed
    pub fn text(elems: &[RElem], tag: Tag) -> Option<String> {
        prim(elems, tag).map(|b| String::from_utf8_lossy(b).trim_end_matches(['\0', ' ']).to_string())
    }
    pub fn u16v(elems: &[RElem], tag: Tag) -> Option<u16> {
        match prim(elems, tag)? {
            [a, b] => Some(u16::from_le_bytes([*a, *b])),
            _ => None,
        }
    }

    /// readable one-line rendering for failure details
    pub fn show(elems: &[RElem]) -> String {
        fn val(v: &RVal) -> String {
            match v {
                RVal::Prim(b) => {
                    if b.len() <= 24 && b.iter().all(|c| (0x20..0x7f).contains(c)) {
                        format!("{:?}", String::from_utf8_lossy(b))
                    } else if b.len() <= 16 {
                        format!("{b:02X?}")
                    } else {
                        format!("{} bytes #{:x}", b.len(), vx_kit::hash_of(b) & 0xffff)
                    }
                }
                RVal::Seq { items, .. } => format!("[{}]", items.iter().map(|i| format!("{{{}}}", show(&i.elems))).collect::<Vec<_>>().join(",")),
                RVal::Pix { offsets, frags } => format!("pix(bot={offsets:?}, frags={:?})", frags.iter().map(|f| f.len()).collect::<Vec<_>>()),
            }
        }
        elems
            .iter()
            .map(|e| format!("({:04X},{:04X}){}={}", e.tag.0, e.tag.1, String::from_utf8_lossy(&e.vr), val(&e.val)))
            .collect::<Vec<_>>()
            .join(" ")
    }
}

// ------------------------------------------------------------------------------------------------
pub mod img {
    //! PNG files written and read with the `png` crate (the PNG codec is not under test).
    use std::path::Path;

    #[derive(Clone, Copy, Debug, PartialEq, Eq, Hash)]
    pub enum Color {
        L8,
        L16,
        Rgb8,
        Rgb16,
    }
    impl Color {
        pub const ALL: [Color; 4] = [Color::L8, Color::L16, Color::Rgb8, Color::Rgb16];
        pub fn name(self) -> &'static str {
            match self {
                Color::L8 => "L8",
                Color::L16 => "L16",
                Color::Rgb8 => "RGB8",
                Color::Rgb16 => "RGB16",
            }
        }
        pub fn channels(self) -> usize {
            match self {
                Color::L8 | Color::L16 => 1,
                _ => 3,
            }
        }
        pub fn bits(self) -> u16 {
            match self {
                Color::L8 | Color::Rgb8 => 8,
                _ => 16,
            }
        }
    }

    /// An image as channel samples in row-major, pixel-interleaved order.
    #[derive(Clone, Debug, PartialEq, Eq, Hash)]
    pub struct Image {
        pub color: Color,
        pub w: u32,
        pub h: u32,
        pub samples: Vec<u16>,
    }

    pub fn encode_png(im: &Image) -> Vec<u8> {
        let mut out = vec![];
        {
            let mut e = png::Encoder::new(&mut out, im.w, im.h);
            e.set_color(if im.color.channels() == 1 { png::ColorType::Grayscale } else { png::ColorType::Rgb });
            e.set_depth(if im.color.bits() == 8 { png::BitDepth::Eight } else { png::BitDepth::Sixteen });
            let mut w = e.write_header().expect("png header");
            let mut data = vec![];
            for s in &im.samples {
                if im.color.bits() == 8 {
                    data.push(*s as u8);
                } else {
                    data.extend_from_slice(&s.to_be_bytes()); // PNG samples are big-endian
                }
            }
            w.write_image_data(&data).expect("png data");
        }
        out
    }

    /// Decode without any transformation (no expansion, no 16→8 stripping).
    pub fn decode_png(bytes: &[u8]) -> Result<Image, String> {
        let mut d = png::Decoder::new(std::io::Cursor::new(bytes));
        d.set_transformations(png::Transformations::IDENTITY);
        let mut r = d.read_info().map_err(|e| format!("png header: {e}"))?;
        let size = r.output_buffer_size().ok_or("png: no buffer size")?;
        let mut buf = vec![0u8; size];
        let info = r.next_frame(&mut buf).map_err(|e| format!("png frame: {e}"))?;
        let color = match (info.color_type, info.bit_depth) {
            (png::ColorType::Grayscale, png::BitDepth::Eight) => Color::L8,
            (png::ColorType::Grayscale, png::BitDepth::Sixteen) => Color::L16,
            (png::ColorType::Rgb, png::BitDepth::Eight) => Color::Rgb8,
            (png::ColorType::Rgb, png::BitDepth::Sixteen) => Color::Rgb16,
            (c, d) => return Err(format!("png colour type {c:?}/{d:?} is none of L8, L16, RGB8, RGB16")),
        };
        let buf = &buf[..info.buffer_size()];
        let samples: Vec<u16> = if color.bits() == 8 {
            buf.iter().map(|b| *b as u16).collect()
        } else {
            buf.chunks_exact(2).map(|c| u16::from_be_bytes([c[0], c[1]])).collect()
        };
        Ok(Image { color, w: info.width, h: info.height, samples })
    }

    pub fn read_png(p: &Path) -> Result<Image, String> {
        let b = std::fs::read(p).map_err(|e| format!("{}: {e}", p.display()))?;
        decode_png(&b)
    }

    #[cfg(test)]
    mod tests {
        use super::*;
        #[test]
        fn roundtrip() {
            for color in Color::ALL {
                let n = 6 * color.channels();
                let samples: Vec<u16> = (0..n).map(|i| if color.bits() == 8 { (i * 13) as u16 } else { (i * 4000 + 0x0102) as u16 }).collect();
                let im = Image { color, w: 3, h: 2, samples };
                assert_eq!(decode_png(&encode_png(&im)).unwrap(), im);
            }
        }
    }
}

/// Bind an ephemeral loopback port, release it and return its number (the tool under test binds
/// it next; the caller retries with another port if the tool could not).
pub fn free_port() -> u16 {
    // never hand the same port out twice within this process: shards start their servers concurrently,
    // and a port released here can be offered again by the kernel before the first tool has bound it
    static HANDED_OUT: std::sync::Mutex<Option<std::collections::HashSet<u16>>> = std::sync::Mutex::new(None);
    loop {
        let l = std::net::TcpListener::bind(("127.0.0.1", 0)).expect("bind port 0");
        let port = l.local_addr().unwrap().port();
        let mut g = HANDED_OUT.lock().unwrap_or_else(|e| e.into_inner());
        if g.get_or_insert_with(Default::default).insert(port) {
            return port;
        }
    }
}

// ------------------------------------------------------------------------------------------------
/// Buffered result of one attempt at a case. Tool checks run real processes on a shared machine: a
/// failure of the *environment* kind (process could not be started or did not answer within the
/// wall-clock limit) is re-run in isolation before it is reported, and is reported only if it
/// reproduces on every attempt (DESIGN section 1, "Isolation").
#[derive(Default)]
pub struct Attempt {
    pub outcomes: Vec<(String, Option<serde_json::Value>)>,
    pub fails: Vec<(serde_json::Value, serde_json::Value)>,
    pub nontrivial: bool,
    /// set by the case when its failure is of the environment kind
    pub transient: bool,
}
impl Attempt {
    pub fn outcome(&mut self, name: &str) {
        self.outcomes.push((name.to_string(), None));
    }
    pub fn outcome_with(&mut self, name: &str, sample: impl FnOnce() -> serde_json::Value) {
        self.outcomes.push((name.to_string(), Some(sample())));
    }
    pub fn fail(&mut self, class: serde_json::Value, detail: serde_json::Value) {
        self.fails.push((class, detail));
    }
    pub fn fail_transient(&mut self, class: serde_json::Value, detail: serde_json::Value) {
        self.transient = true;
        self.fails.push((class, detail));
    }
}

/// Run `f` up to `tries` times while it reports a transient failure; record the last attempt.
pub fn run_with_retries(l: &mut vx_kit::Local, case_id: &str, tries: usize, mut f: impl FnMut(&mut Attempt)) {
    l.eval();
    let mut last = Attempt::default();
    let mut retried = 0;
    for n in 0..tries.max(1) {
        let mut a = Attempt::default();
        f(&mut a);
        let again = a.transient && !a.fails.is_empty();
        last = a;
        if !again {
            break;
        }
        if n + 1 < tries {
            retried += 1;
            std::thread::sleep(std::time::Duration::from_millis(200 * (n as u64 + 1)));
        }
    }
    if retried > 0 && last.fails.is_empty() {
        l.outcome("environment-failure-not-reproduced-on-rerun");
    }
    if last.nontrivial {
        l.nontrivial(&case_id);
    }
    for (name, sample) in last.outcomes {
        match sample {
            Some(s) => l.outcome_with(&name, || s),
            None => l.outcome(&name),
        }
    }
    for (class, detail) in last.fails {
        l.fail(case_id, class, detail);
    }
}
