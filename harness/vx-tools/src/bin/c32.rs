//! C32 — the storage SCP stores exactly what it receives, only in its output directory.
//!
//! Subject: the real `dicom-storescp` binary, synchronous and `--non-blocking`, one process per mode
//! and shard, serving one association per case. The requestor is written on the PDU codec of this
//! crate and the `vx-ref` data set codec (no dicom-rs code on the peer side). Every exchange is
//! lock-step (send request, read response, release), so the wire content is deterministic.
use std::collections::BTreeMap;
use std::io::Write;
use std::net::{SocketAddr, TcpStream};
use std::path::{Path, PathBuf};
use std::sync::Mutex;
use std::time::{Duration, Instant};
use vx_kit::{json, Check, Level, Value};
use vx_tools::Attempt;
use vx_ref::ds::{self, RElem, RItem, RVal, Ts};
use vx_tools::dimse;
use vx_tools::dsx;
use vx_tools::pdu::{self, Assoc, PcRq, Pdu, Pdv};
use vx_tools::proc::{self, Out, Proc};
use vx_tools::tree;

const CT: &str = "1.2.840.10008.5.1.4.1.1.2";
const MR: &str = "1.2.840.10008.5.1.4.1.1.4";
const IO_LIMIT: Duration = Duration::from_secs(20);

// ---- transfer syntaxes -----------------------------------------------------------------------------

#[derive(Clone, Copy, Debug, PartialEq, Eq)]
struct TsKind {
    name: &'static str,
    uid: &'static str,
    enc: Ts,
    deflated: bool,
    encapsulated: bool,
}
const TS_CANDIDATES: [TsKind; 6] = [
    TsKind { name: "implicit-le", uid: "1.2.840.10008.1.2", enc: Ts::ImplicitLE, deflated: false, encapsulated: false },
    TsKind { name: "explicit-le", uid: "1.2.840.10008.1.2.1", enc: Ts::ExplicitLE, deflated: false, encapsulated: false },
    TsKind { name: "explicit-be", uid: "1.2.840.10008.1.2.2", enc: Ts::ExplicitBE, deflated: false, encapsulated: false },
    TsKind { name: "encapsulated-uncompressed", uid: "1.2.840.10008.1.2.1.98", enc: Ts::ExplicitLE, deflated: false, encapsulated: true },
    TsKind { name: "deflated-explicit-le", uid: "1.2.840.10008.1.2.1.99", enc: Ts::ExplicitLE, deflated: true, encapsulated: false },
    TsKind { name: "rle-lossless", uid: "1.2.840.10008.1.2.5", enc: Ts::ExplicitLE, deflated: false, encapsulated: true },
];

// ---- data sets -------------------------------------------------------------------------------------

fn ui(tag: (u16, u16), v: &[u8]) -> RElem {
    RElem::prim(tag, "UI", v)
}
fn seq(tag: (u16, u16), explicit: bool, items: Vec<(bool, Vec<RElem>)>) -> RElem {
    RElem { tag, vr: *b"SQ", val: RVal::Seq { items: items.into_iter().map(|(e, elems)| RItem { elems, explicit: e }).collect(), explicit } }
}

const DS_NAMES: [&str; 6] = ["min", "native-pixels", "seq-explicit", "seq-undefined-private", "nested-odd", "fragments"];

/// Six small data sets that carry SOP Class and SOP Instance UID (the latter with the given bytes).
fn data_set(k: usize, class: &str, inst: &[u8], ts: &TsKind) -> Vec<RElem> {
    let mut d = vec![ui((0x0008, 0x0016), class.as_bytes()), ui((0x0008, 0x0018), inst)];
    let pix = |bytes: &[u8], frags: Vec<Vec<u8>>| {
        if ts.encapsulated {
            RElem { tag: (0x7FE0, 0x0010), vr: *b"OB", val: RVal::Pix { offsets: vec![], frags } }
        } else {
            RElem::prim((0x7FE0, 0x0010), "OW", bytes)
        }
    };
    match k {
        0 => d.push(RElem::prim((0x0010, 0x0010), "PN", b"Doe^J")),
        1 => {
            d.push(RElem::prim((0x0028, 0x0010), "US", &[2, 0]));
            d.push(RElem::prim((0x0028, 0x0011), "US", &[1, 0]));
            d.push(pix(&[0x01, 0x02, 0xFE, 0xFF], vec![vec![0x01, 0x02, 0xFE, 0xFF]]));
        }
        2 => d.push(seq((0x0008, 0x1140), true, vec![(true, vec![ui((0x0008, 0x1150), b"1.2"), ui((0x0008, 0x1155), b"1.2.3.4")])])),
        3 => {
            d.push(seq((0x0008, 0x1140), false, vec![(false, vec![ui((0x0008, 0x1150), b"1.2")]), (false, vec![])]));
            d.push(RElem::prim((0x0009, 0x0010), "LO", b"VX"));
            d.push(RElem::prim((0x0009, 0x1001), "UN", &[1, 2, 3]));
        }
        4 => {
            d.push(RElem::prim((0x0010, 0x0020), "LO", b"ID1"));
            d.push(seq(
                (0x0040, 0x0275),
                false,
                vec![(true, vec![seq((0x0008, 0x1140), true, vec![(false, vec![ui((0x0008, 0x1155), b"1.2.3")])])])],
            ));
        }
        _ => {
            d.push(RElem::prim((0x0028, 0x0010), "US", &[1, 0]));
            d.push(pix(&[9, 8, 7, 6, 5, 4], vec![vec![9, 8, 7, 6], vec![], vec![5, 4, 3]]));
        }
    }
    d
}

fn wire_bytes(ts: &TsKind, elems: &[RElem]) -> Vec<u8> {
    let b = ds::encode_items(ts.enc, elems);
    if ts.deflated {
        ds::deflate_raw(&b)
    } else {
        b
    }
}

// ---- SOP Instance UID words ------------------------------------------------------------------------

const TOKENS: [&str; 9] = ["1.2.3", "x", ".", "..", "/", "\\", "", "x/y", "1.2.3\0"];

fn words(max_tokens: usize) -> Vec<String> {
    let mut out: Vec<String> = vec![];
    let mut level: Vec<String> = vec![String::new()];
    for _ in 0..max_tokens {
        let mut next = vec![];
        for w in &level {
            for t in TOKENS {
                next.push(format!("{w}{t}"));
            }
        }
        for w in &next {
            if !out.contains(w) {
                out.push(w.clone());
            }
        }
        level = next;
    }
    out
}

fn esc(w: &str) -> String {
    w.bytes().map(|b| if b.is_ascii_alphanumeric() || b == b'.' { (b as char).to_string() } else { format!("%{b:02X}") }).collect()
}

/// shape of a UID word, as a path: generator-side classification used in class descriptors
fn uid_shape(w: &str) -> &'static str {
    let t = w.trim_end_matches('\0');
    if t.starts_with('/') {
        "absolute"
    } else if format!("{t}.dcm").split('/').any(|c| c == "..") {
        "parent-reference"
    } else if t.contains('/') {
        "subdirectory"
    } else if t.contains('\0') {
        "interior-nul"
    } else {
        "plain"
    }
}

// ---- cases -----------------------------------------------------------------------------------------

#[derive(Clone, Copy, Debug, PartialEq, Eq)]
enum Packing {
    OnePduPerPdv,
    AllInOnePdu,
}

#[derive(Clone, Debug)]
struct Store {
    /// Affected SOP Instance UID of the command
    cmd_uid: String,
    /// SOP Instance UID inside the data set
    ds_uid: String,
    ds: usize,
    cuts: Vec<usize>,
    /// extra empty PDVs: 1 = empty non-last PDV first, 2 = all data non-last then an empty last PDV
    empty_pdv: u8,
    packing: Packing,
    /// index into the case's proposed presentation contexts (context id = 2 * index + 1)
    ctx: usize,
}

#[derive(Clone, Debug)]
struct Case {
    id: String,
    family: &'static str,
    mode: usize,
    /// proposed presentation contexts in proposal order: (abstract syntax, its single transfer syntax)
    pcs: Vec<(&'static str, TsKind)>,
    stores: Vec<Store>,
}

const MODES: [&str; 2] = ["sync", "non-blocking"];

fn build_cases(check: &Check, tss: &[TsKind], abs_marker: &str) -> Vec<Case> {
    let mut cases = vec![];
    let quick = check.quick();
    // family uid: every word x ts x mode x {data set UID same as the command's, different}
    let mut ws = words(if quick { 2 } else { 3 });
    ws.push(abs_marker.to_string());
    for (mode, mname) in MODES.iter().enumerate() {
        for ts in tss {
            for w in &ws {
                for same in [true, false] {
                    let shown = if w == abs_marker { "ABS".to_string() } else { esc(w) };
                    cases.push(Case {
                        id: format!("uid/{mname}/{}/{}/{shown}", ts.name, if same { "same" } else { "other" }),
                        family: "uid",
                        mode,
                        pcs: vec![(CT, *ts)],
                        stores: vec![Store { cmd_uid: w.clone(), ds_uid: if same { w.clone() } else { "9.8.7".into() }, ds: 0, cuts: vec![], empty_pdv: 0, packing: Packing::OnePduPerPdv, ctx: 0 }],
                    });
                }
            }
        }
    }
    // family frag: data sets x ts x mode x every set of <= k cut positions x packing
    let nds = if quick { 1 } else { 6 };
    let maxcuts = if quick { 1 } else { 2 };
    for (mode, mname) in MODES.iter().enumerate() {
        for ts in tss {
            for k in 0..nds {
                let k = if quick { 3 } else { k };
                let uid = format!("1.2.3.{k}");
                let len = wire_bytes(ts, &data_set(k, CT, uid.as_bytes(), ts)).len();
                for packing in [Packing::OnePduPerPdv, Packing::AllInOnePdu] {
                    let pname = if packing == Packing::AllInOnePdu { "one-pdu" } else { "pdu-per-pdv" };
                    for cuts in vx_kit::gen::cut_sets(len, maxcuts) {
                        let cname = if cuts.is_empty() { "whole".to_string() } else { cuts.iter().map(|c| c.to_string()).collect::<Vec<_>>().join("-") };
                        cases.push(Case {
                            id: format!("frag/{mname}/{}/{}/{pname}/{cname}", ts.name, DS_NAMES[k]),
                            family: "frag",
                            mode,
                            pcs: vec![(CT, *ts)],
                            stores: vec![Store { cmd_uid: uid.clone(), ds_uid: uid.clone(), ds: k, cuts, empty_pdv: 0, packing, ctx: 0 }],
                        });
                    }
                    for (e, ename) in [(1u8, "empty-first"), (2, "empty-last")] {
                        cases.push(Case {
                            id: format!("frag/{mname}/{}/{}/{pname}/{ename}", ts.name, DS_NAMES[k]),
                            family: "frag",
                            mode,
                            pcs: vec![(CT, *ts)],
                            stores: vec![Store { cmd_uid: uid.clone(), ds_uid: uid.clone(), ds: k, cuts: vec![], empty_pdv: e, packing, ctx: 0 }],
                        });
                    }
                }
            }
        }
    }
    // family seq: several stores on one association (the reassembly buffer must start empty each time)
    let seqs: Vec<Vec<usize>> = {
        let mut v = vec![];
        for a in 0..6 {
            for b in 0..6 {
                v.push(vec![a, b]);
                if !quick && a != b {
                    for c in 0..6 {
                        v.push(vec![a, b, c]);
                    }
                }
            }
        }
        v
    };
    for (mode, mname) in MODES.iter().enumerate() {
        for ts in tss {
            for s in &seqs {
                let stores: Vec<Store> = s
                    .iter()
                    .enumerate()
                    .map(|(n, k)| {
                        let uid = format!("1.2.3.{n}.{k}");
                        // the middle of the data set is a cut so that non-last PDVs are buffered too
                        let len = wire_bytes(ts, &data_set(*k, CT, uid.as_bytes(), ts)).len();
                        Store { cmd_uid: uid.clone(), ds_uid: uid, ds: *k, cuts: if n % 2 == 1 { vec![len / 2] } else { vec![] }, empty_pdv: 0, packing: Packing::OnePduPerPdv, ctx: 0 }
                    })
                    .collect();
                cases.push(Case {
                    id: format!("seq/{mname}/{}/{}", ts.name, s.iter().map(|k| k.to_string()).collect::<Vec<_>>().join("-")),
                    family: "seq",
                    mode,
                    pcs: vec![(CT, *ts)],
                    stores,
                });
            }
        }
    }
    // family ctx: associations with 2-3 presentation contexts (one transfer syntax each), every order of the
    // proposals; stores on every sequence of <= 2 (thorough 3) of the accepted contexts
    let maxlen = if quick { 2 } else { 3 };
    let mut proposals: Vec<Vec<(&'static str, TsKind)>> = vec![];
    for a in tss {
        for b in tss {
            if a != b {
                proposals.push(vec![(CT, *a), (CT, *b)]);
                for c in tss {
                    if c != a && c != b {
                        proposals.push(vec![(CT, *a), (CT, *b), (CT, *c)]);
                    }
                }
            }
            // two storage SOP classes, each with one syntax (equal or different), both orders
            proposals.push(vec![(CT, *a), (MR, *b)]);
            proposals.push(vec![(MR, *a), (CT, *b)]);
        }
    }
    for (mode, mname) in MODES.iter().enumerate() {
        for pcs in &proposals {
            let n = pcs.len();
            let mut seqs: Vec<Vec<usize>> = vec![vec![]];
            let mut all: Vec<Vec<usize>> = vec![];
            for _ in 0..maxlen {
                let mut next = vec![];
                for s in &seqs {
                    for k in 0..n {
                        let mut t = s.clone();
                        t.push(k);
                        next.push(t);
                    }
                }
                all.extend(next.iter().cloned());
                seqs = next;
            }
            for sq in all {
                let stores: Vec<Store> = sq
                    .iter()
                    .enumerate()
                    .map(|(pos, k)| {
                        let uid = format!("1.2.3.{pos}.{k}");
                        let ds = (pos * 2 + k + 1) % 6;
                        let len = wire_bytes(&pcs[*k].1, &data_set(ds, pcs[*k].0, uid.as_bytes(), &pcs[*k].1)).len();
                        Store { cmd_uid: uid.clone(), ds_uid: uid, ds, cuts: if pos % 2 == 1 { vec![len / 2] } else { vec![] }, empty_pdv: 0, packing: Packing::OnePduPerPdv, ctx: *k }
                    })
                    .collect();
                cases.push(Case {
                    id: format!(
                        "ctx/{mname}/{}/on-{}",
                        pcs.iter().map(|(a, t)| format!("{}:{}", if *a == CT { "CT" } else { "MR" }, t.name)).collect::<Vec<_>>().join("+"),
                        sq.iter().map(|k| k.to_string()).collect::<Vec<_>>().join("-")
                    ),
                    family: "ctx",
                    mode,
                    pcs: pcs.clone(),
                    stores,
                });
            }
        }
    }
    cases
}

// ---- the scripted requestor --------------------------------------------------------------------------

struct Conn {
    s: TcpStream,
    verbose: bool,
}
impl Conn {
    fn open(port: u16, verbose: bool) -> std::io::Result<Conn> {
        let addr: SocketAddr = ([127, 0, 0, 1], port).into();
        let s = TcpStream::connect_timeout(&addr, Duration::from_secs(2))?;
        s.set_read_timeout(Some(IO_LIMIT))?;
        s.set_write_timeout(Some(IO_LIMIT))?;
        s.set_nodelay(true)?;
        Ok(Conn { s, verbose })
    }
    fn send(&mut self, p: &Pdu) -> std::io::Result<()> {
        if self.verbose {
            eprintln!("  scu -> scp  {}", p.short());
        }
        self.s.write_all(&pdu::encode(p))
    }
    fn recv(&mut self) -> std::io::Result<Option<Pdu>> {
        let r = pdu::read_pdu(&mut self.s);
        if self.verbose {
            match &r {
                Ok(Some(p)) => eprintln!("  scu <- scp  {}", p.short()),
                Ok(None) => eprintln!("  scu <- scp  (connection closed)"),
                Err(e) => eprintln!("  scu <- scp  error: {e}"),
            }
        }
        r
    }
}

fn assoc_rq(pcs: Vec<PcRq>) -> Pdu {
    Pdu::Rq(Assoc {
        called: "STORE-SCP".into(),
        calling: "VX-SCU".into(),
        app_ctx: pdu::APP_CTX.into(),
        pcs,
        max_pdu: 16384,
        impl_uid: "1.2.3.4.5.6".into(),
        impl_version: Some("VXTOOLS".into()),
    })
}

fn is_timeout(e: &std::io::Error) -> bool {
    matches!(e.kind(), std::io::ErrorKind::WouldBlock | std::io::ErrorKind::TimedOut)
}

// ---- server processes ----------------------------------------------------------------------------------

struct Server {
    _proc: Proc,
    port: u16,
    root: PathBuf,
    baseline: BTreeMap<String, tree::Entry>,
}

fn out_dir(root: &Path) -> PathBuf {
    root.join("run/a/b/out")
}

fn reset_tree(root: &Path) {
    let _ = std::fs::remove_dir_all(root);
    std::fs::create_dir_all(out_dir(root).join("x")).expect("mkdir out/x");
    std::fs::create_dir_all(root.join("canary")).expect("mkdir canary");
}

/// Start the tool in the given mode and wait until it accepts an association.
fn start_server(exe: &Path, root: &Path, mode: usize, verbose: bool) -> Result<Server, String> {
    reset_tree(root);
    let mut last = String::new();
    for _attempt in 0..6 {
        let port = vx_tools::free_port();
        let ps = port.to_string();
        let od = out_dir(root);
        let ods = od.to_string_lossy().into_owned();
        let mut args = vec!["-p", ps.as_str(), "-o", ods.as_str()];
        if mode == 1 {
            args.push("--non-blocking");
        }
        let mut p = proc::spawn(exe, &args, root, if verbose { Out::Inherit } else { Out::Null }).map_err(|e| e.to_string())?;
        let t0 = Instant::now();
        loop {
            if let Some(st) = p.exited() {
                last = format!("tool exited during start-up: {st}");
                break;
            }
            if let Ok(mut c) = Conn::open(port, false) {
                // readiness = a complete, released association
                let ok = c
                    .send(&assoc_rq(vec![PcRq { id: 1, abs: CT.into(), ts: vec![TS_CANDIDATES[0].uid.into()] }]))
                    .ok()
                    .and_then(|_| c.recv().ok().flatten())
                    .map(|p| matches!(p, Pdu::Ac(_)))
                    .unwrap_or(false);
                if ok {
                    let _ = c.send(&Pdu::ReleaseRq);
                    let _ = c.recv();
                    // the association must have been answered by OUR child, which is then still alive
                    std::thread::sleep(Duration::from_millis(30));
                    if let Some(st) = p.exited() {
                        last = format!("tool exited right after start-up: {st}");
                        break;
                    }
                    return Ok(Server { _proc: p, port, root: root.to_path_buf(), baseline: tree::snapshot(root) });
                }
            }
            if t0.elapsed() > Duration::from_secs(10) {
                last = "tool did not accept an association within 10 s".into();
                break;
            }
            std::thread::sleep(Duration::from_millis(5));
        }
    }
    Err(last)
}

/// Which candidate transfer syntaxes does the tool accept for CT Image Storage?
fn probe_ts(port: u16) -> Result<Vec<TsKind>, String> {
    let mut c = Conn::open(port, false).map_err(|e| e.to_string())?;
    let pcs = TS_CANDIDATES.iter().enumerate().map(|(i, t)| PcRq { id: (2 * i + 1) as u8, abs: CT.into(), ts: vec![t.uid.into()] }).collect();
    c.send(&assoc_rq(pcs)).map_err(|e| e.to_string())?;
    let ac = match c.recv() {
        Ok(Some(Pdu::Ac(a))) => a,
        o => return Err(format!("probe association not accepted: {o:?}")),
    };
    let _ = c.send(&Pdu::ReleaseRq);
    let _ = c.recv();
    Ok(TS_CANDIDATES
        .iter()
        .enumerate()
        .filter(|(i, t)| ac.pcs.iter().any(|p| p.id == (2 * i + 1) as u8 && p.result == 0 && p.ts == t.uid))
        .map(|(_, t)| *t)
        .collect())
}

// ---- one case ----------------------------------------------------------------------------------------------

/// serialises the cases whose unsanitised file name would be an absolute path outside the scratch tree
static OUTSIDE_LOCK: Mutex<()> = Mutex::new(());

enum Answer {
    Response { pc: u8, cmd: dimse::Command },
    Dropped(String),
    Timeout,
    Protocol(String),
}

fn send_store(c: &mut Conn, st: &Store, class: &str, ts: &TsKind, pc: u8, msg_id: u16, real_uid: &dyn Fn(&str) -> String) -> std::io::Result<Vec<u8>> {
    let cmd_uid = real_uid(&st.cmd_uid);
    let ds_uid = real_uid(&st.ds_uid);
    let data = wire_bytes(ts, &data_set(st.ds, class, ds_uid.as_bytes(), ts));
    let mut pdvs = vec![Pdv { pc, command: true, last: true, data: dimse::c_store_rq(class, cmd_uid.as_bytes(), msg_id) }];
    let segs = vx_kit::gen::cuts_to_segments(data.len(), &st.cuts);
    let mut pos = 0;
    if st.empty_pdv == 1 {
        pdvs.push(Pdv { pc, command: false, last: false, data: vec![] });
    }
    for (i, l) in segs.iter().enumerate() {
        let last = i + 1 == segs.len() && st.empty_pdv != 2;
        pdvs.push(Pdv { pc, command: false, last, data: data[pos..pos + l].to_vec() });
        pos += l;
    }
    if st.empty_pdv == 2 {
        pdvs.push(Pdv { pc, command: false, last: true, data: vec![] });
    }
    match st.packing {
        Packing::AllInOnePdu => c.send(&Pdu::PData(pdvs))?,
        Packing::OnePduPerPdv => {
            for v in pdvs {
                c.send(&Pdu::PData(vec![v]))?;
            }
        }
    }
    Ok(data)
}

fn read_answer(c: &mut Conn) -> Answer {
    match c.recv() {
        Ok(Some(Pdu::PData(v))) => {
            if v.len() != 1 || !v[0].command || !v[0].last {
                return Answer::Protocol(format!("response is not one complete command PDV: {}", Pdu::PData(v).short()));
            }
            match dimse::parse_command(&v[0].data) {
                Ok(cmd) => Answer::Response { pc: v[0].pc, cmd },
                Err(e) => Answer::Protocol(format!("response command set does not parse: {e}")),
            }
        }
        Ok(Some(Pdu::Abort { source, reason })) => Answer::Dropped(format!("A-ABORT source {source} reason {reason}")),
        Ok(Some(p)) => Answer::Protocol(format!("unexpected PDU {}", p.short())),
        Ok(None) => Answer::Dropped("connection closed".into()),
        Err(e) if is_timeout(&e) => Answer::Timeout,
        Err(e) => Answer::Dropped(format!("connection error: {e}")),
    }
}

struct Verdict {
    kind: &'static str,
    info: Value,
}

/// Check one stored file against what was sent. `wire` = the data set bytes as sent.
fn check_file(path: &Path, ts: &TsKind, wire: &[u8]) -> Result<(), Verdict> {
    let bad = |kind: &'static str, info: Value| Err(Verdict { kind, info });
    let file = std::fs::read(path).map_err(|e| Verdict { kind: "file-unreadable", info: json!(e.to_string()) })?;
    let head = match ds::parse_file_head(&file) {
        Ok(h) => h,
        Err(e) => return bad("file-unparsable", json!({ "error": e.to_string(), "len": file.len() })),
    };
    if head.ts_uid != ts.uid {
        return bad("meta-transfer-syntax", json!({ "negotiated": ts.uid, "file_meta": head.ts_uid }));
    }
    let body = &file[head.dataset_offset..];
    let inflate = |b: &[u8]| if ts.deflated { ds::inflate_raw(b) } else { Ok(b.to_vec()) };
    let got_bytes = match inflate(body) {
        Ok(b) => b,
        Err(e) => return bad("file-unparsable", json!({ "error": format!("inflate: {e}") })),
    };
    let sent_bytes = inflate(wire).expect("own deflate stream");
    let sent = ds::parse(ts.enc, &sent_bytes, &dsx::vr_of).expect("own data set parses");
    let got = match ds::parse(ts.enc, &got_bytes, &dsx::vr_of) {
        Ok(g) => g,
        Err(e) => return bad("file-unparsable", json!({ "error": format!("data set: {e}"), "sent": dsx::show(&sent) })),
    };
    let implicit = ts.enc == Ts::ImplicitLE;
    if dsx::canon(&sent, implicit) != dsx::canon(&got, implicit) {
        return bad("dataset-differs", json!({ "sent": dsx::show(&sent), "stored": dsx::show(&got) }));
    }
    for (tag_meta, tag_ds, kind) in [((2, 2), (8, 0x16), "meta-sop-class"), ((2, 3), (8, 0x18), "meta-sop-instance")] {
        // a UID text with a backslash is a multi-valued UI: trailing padding is compared per value
        let norm = |t: Option<String>| t.map(|t| t.split('\\').map(|v| v.trim_end_matches(['\0', ' '])).collect::<Vec<_>>().join("\\"));
        let m = norm(dsx::text(&head.meta, tag_meta));
        let d = norm(dsx::text(&sent, tag_ds));
        if m != d {
            return bad(kind, json!({ "file_meta": m, "data_set": d }));
        }
    }
    Ok(())
}

struct Ctx<'a> {
    exe: &'a Path,
    scratch: &'a Path,
    shard: u64,
    servers: [Option<Server>; 2],
}

impl Ctx<'_> {
    fn server(&mut self, mode: usize, verbose: bool) -> Result<&Server, String> {
        if self.servers[mode].is_none() {
            let root = self.scratch.join(format!("s{}-{}", self.shard, MODES[mode]));
            self.servers[mode] = Some(start_server(self.exe, &root, mode, verbose)?);
        }
        Ok(self.servers[mode].as_ref().unwrap())
    }
}

fn run_case(l: &mut Attempt, check: &Check, case: &Case, ctx: &mut Ctx) {
    let verbose = check.verbose;
    let (port, root, baseline) = match ctx.server(case.mode, verbose) {
        Ok(s) => (s.port, s.root.clone(), s.baseline.clone()),
        Err(e) => {
            check.machinery_error(&format!("cannot start dicom-storescp ({}): {e}", MODES[case.mode]));
            return;
        }
    };
    let abs_target = root.join("canary/abs");
    let real_uid = |w: &str| if w == "\u{1}ABS" { abs_target.to_string_lossy().into_owned() } else { w.to_string() };
    let out = out_dir(&root);

    let first = &case.stores[0];
    let class = |kind: &str, st: &Store| {
        json!({
            "family": case.family, "mode": MODES[case.mode], "ts": case.pcs[st.ctx].1.name, "kind": kind,
            "contexts": case.pcs.len(), "context_position": st.ctx, "sop_classes": if case.pcs.iter().any(|p| p.0 != case.pcs[0].0) { 2 } else { 1 },
            "uid_shape": if st.cmd_uid == "\u{1}ABS" { "absolute" } else { uid_shape(&st.cmd_uid) },
            "uid_in_data_set": if st.cmd_uid == st.ds_uid { "same" } else { "other" },
            "data_set": DS_NAMES[st.ds], "pdvs": st.cuts.len() + 1 + (st.empty_pdv != 0) as usize,
            "empty_pdv": (["none", "first", "last"][st.empty_pdv as usize]),
            "packing": if st.packing == Packing::AllInOnePdu { "one-pdu" } else { "pdu-per-pdv" },
            "odd_fragment": st.cuts.iter().any(|c| c % 2 == 1),
            "stores_on_association": case.stores.len(),
        })
    };

    // where would an unsanitised `out.join(uid + ".dcm")` land? (used to serialise, probe and clean up
    // locations outside the scratch tree; the verdict inside the tree comes from the snapshots)
    let predicted: Vec<PathBuf> = case.stores.iter().map(|s| out.join(format!("{}.dcm", real_uid(&s.cmd_uid).trim_end_matches('\0')))).collect();
    let outside: Vec<&PathBuf> = predicted.iter().filter(|p| !p.starts_with(&root) && !p.to_string_lossy().contains('\0')).collect();
    let _guard = if outside.is_empty() { None } else { Some(OUTSIDE_LOCK.lock().unwrap_or_else(|e| e.into_inner())) };
    for p in &outside {
        if p.exists() {
            check.machinery_error(&format!("{} exists before the case ran; refusing to touch it", p.display()));
            return;
        }
    }

    let mut restart = false;
    let mut conn = match Conn::open(port, verbose) {
        Ok(c) => c,
        Err(e) => {
            l.outcome("connect-failed");
            l.fail_transient(class("connect-failed", first), json!({ "error": e.to_string() }));
            ctx.servers[case.mode] = None;
            return;
        }
    };
    let established = conn
        .send(&assoc_rq(case.pcs.iter().enumerate().map(|(i, (abs, t))| PcRq { id: (2 * i + 1) as u8, abs: (*abs).into(), ts: vec![t.uid.into()] }).collect()))
        .map_err(|e| e.to_string())
        .and_then(|_| match conn.recv() {
            Ok(Some(Pdu::Ac(a)))
                if a.pcs.len() == case.pcs.len()
                    && case.pcs.iter().enumerate().all(|(i, (_, t))| a.pcs.iter().any(|p| p.id == (2 * i + 1) as u8 && p.result == 0 && p.ts == t.uid)) =>
            {
                Ok(())
            }
            o => Err(format!("{o:?}")),
        });
    if let Err(e) = established {
        l.outcome("association-not-accepted");
        l.fail_transient(class("association-not-accepted", first), json!({ "answer": e }));
        ctx.servers[case.mode] = None;
        return;
    }
    l.nontrivial = true;

    let mut before = baseline.clone();
    let mut all_ok = true;
    for (n, st) in case.stores.iter().enumerate() {
        let msg_id = (n + 1) as u16;
        let detail = |info: Value| {
            json!({ "store_index": n, "affected_sop_instance_uid": real_uid(&st.cmd_uid), "data_set_sop_instance_uid": real_uid(&st.ds_uid),
                    "transfer_syntax": case.pcs[st.ctx].1.uid, "context_id": 2 * st.ctx + 1, "proposed": case.pcs.iter().map(|(a, t)| format!("{a} / {}", t.name)).collect::<Vec<_>>(), "cuts": st.cuts, "out_dir": out.to_string_lossy(), "info": info })
        };
        let wire = match send_store(&mut conn, st, case.pcs[st.ctx].0, &case.pcs[st.ctx].1, (2 * st.ctx + 1) as u8, msg_id, &real_uid) {
            Ok(w) => w,
            Err(e) => {
                l.outcome("send-failed");
                l.fail_transient(class("send-failed", st), detail(json!(e.to_string())));
                all_ok = false;
                break;
            }
        };
        let answer = read_answer(&mut conn);
        let after = tree::snapshot(&root);
        let changed = tree::changed(&before, &after);
        let outside_hit: Vec<String> = outside.iter().filter(|p| p.exists()).map(|p| p.to_string_lossy().into_owned()).collect();
        let out_rel = out.strip_prefix(&root).unwrap().to_string_lossy().into_owned();
        let direct: Vec<&String> = changed
            .iter()
            .filter(|p| p.strip_prefix(&format!("{out_rel}/")).map(|r| !r.contains('/')).unwrap_or(false) && matches!(after.get(*p), Some(tree::Entry::File(..))))
            .collect();
        let stray: Vec<&String> = changed.iter().filter(|p| !direct.contains(p)).collect();

        let mut verdict: Option<Verdict> = None;
        if !stray.is_empty() || !outside_hit.is_empty() {
            verdict = Some(Verdict { kind: "file-outside-output-directory", info: json!({ "changed_in_scratch_tree": stray, "created_elsewhere": outside_hit }) });
        } else if direct.len() > 1 {
            verdict = Some(Verdict { kind: "several-files-for-one-store", info: json!({ "files": direct }) });
        }
        let stored = direct.len() == 1 && stray.is_empty() && outside_hit.is_empty();
        let mut success = false;
        match &answer {
            Answer::Response { pc, cmd } => {
                success = cmd.status == Some(0);
                if verdict.is_none() && (*pc != (2 * st.ctx + 1) as u8 || cmd.field != Some(0x8001) || cmd.msg_id_responded != Some(msg_id) || cmd.group_length != Some(cmd.bytes_after_group_length as u32)) {
                    verdict = Some(Verdict { kind: "response-fields", info: json!({ "pc": pc, "command": format!("{cmd:?}"), "expected_message_id": msg_id }) });
                }
            }
            Answer::Timeout => {
                restart = true;
                verdict.get_or_insert(Verdict { kind: "no-answer-timeout", info: json!(format!("no PDU within {IO_LIMIT:?}")) });
            }
            Answer::Protocol(m) => {
                restart = true;
                verdict.get_or_insert(Verdict { kind: "protocol", info: json!(m) });
            }
            Answer::Dropped(_) => {}
        }
        if verdict.is_none() && success && !stored {
            verdict = Some(Verdict { kind: "success-without-file", info: json!({ "changed": changed }) });
        }
        if verdict.is_none() && !success && !changed.is_empty() {
            let how = match &answer {
                Answer::Response { cmd, .. } => format!("status {:?}", cmd.status),
                Answer::Dropped(m) => m.clone(),
                _ => String::new(),
            };
            verdict = Some(Verdict { kind: "file-without-success", info: json!({ "answer": how, "changed": changed }) });
        }
        // a request with a well-formed UID (digits and dots) on an accepted context must be stored: refusing
        // is only tolerated as a way of dealing with UID texts that are not UIDs
        let uid_text = real_uid(&st.cmd_uid);
        let uid_text = uid_text.trim_end_matches('\0');
        let well_formed = uid_text.starts_with(|c: char| c.is_ascii_digit()) && uid_text.chars().all(|c| c.is_ascii_digit() || c == '.');
        if verdict.is_none() && !stored && !success && well_formed && !matches!(answer, Answer::Timeout | Answer::Protocol(_)) {
            let how = match &answer {
                Answer::Response { cmd, .. } => format!("status {:?}", cmd.status),
                Answer::Dropped(m) => m.clone(),
                _ => String::new(),
            };
            verdict = Some(Verdict { kind: "valid-store-refused", info: json!({ "answer": how }) });
        }
        if verdict.is_none() && stored {
            if let Err(v) = check_file(&root.join(direct[0]), &case.pcs[st.ctx].1, &wire) {
                verdict = Some(v);
            }
        }

        // clean up everything this store created, inside and outside the tree
        for p in &outside {
            if p.is_file() {
                let _ = std::fs::remove_file(p);
            }
        }
        for p in &changed {
            if let Some(tree::Entry::File(..)) = after.get(p) {
                if !baseline.contains_key(p) {
                    let _ = std::fs::remove_file(root.join(p));
                }
            }
        }
        before = tree::snapshot(&root);

        match verdict {
            Some(v) => {
                l.outcome(&format!("FAIL-{}", v.kind));
                if v.kind == "no-answer-timeout" {
                    l.fail_transient(class(v.kind, st), detail(v.info));
                } else {
                    l.fail(class(v.kind, st), detail(v.info));
                }
                all_ok = false;
                break;
            }
            None => {
                if stored {
                    // observed, not asserted: is the file named literally after the UID, or under another (sanitised) name?
                    let literal = format!("{out_rel}/{}.dcm", real_uid(&st.cmd_uid).trim_end_matches('\0'));
                    let name = if *direct[0] == literal { "stored-and-verified-under-uid-name" } else { "stored-and-verified-under-other-name" };
                    l.outcome_with(name, || json!({ "case": case.id, "file": direct[0] }));
                } else {
                    let how = match &answer {
                        Answer::Response { cmd, .. } => format!("refused-status-{:04X}", cmd.status.unwrap_or(0xFFFF)),
                        _ => "refused-association-dropped".to_string(),
                    };
                    l.outcome_with(&how, || json!({ "case": case.id, "uid": real_uid(&st.cmd_uid) }));
                    if !matches!(answer, Answer::Response { .. }) {
                        all_ok = false; // the association is gone: nothing more can be sent
                        break;
                    }
                }
            }
        }
    }
    if all_ok {
        let released = conn.send(&Pdu::ReleaseRq).is_ok() && matches!(conn.recv(), Ok(Some(Pdu::ReleaseRp)));
        if !released {
            l.outcome("FAIL-release");
            l.fail(class("release-not-confirmed", first), json!({ "note": "A-RELEASE-RQ was not answered with A-RELEASE-RP" }));
            restart = true;
        }
    }
    drop(conn);
    if before != baseline {
        // could not restore the tree (e.g. directories were created): start over
        restart = true;
    }
    if restart {
        ctx.servers[case.mode] = None; // kills the process; the next case starts a fresh one
    }
}

fn main() {
    let check = Check::from_args("C32", Level::Exploration);
    check.set_rule(
        "families: uid = SOP Instance UID words (all concatenations of <= 2 (thorough 3) tokens of {\"1.2.3\",\"x\",\".\",\"..\",\"/\",\"\\\\\",\"\",\"x/y\",\"1.2.3\\0\"}, plus an absolute path into the scratch area) \
         x {UID in the data set equal / different} x accepted transfer syntaxes x {sync, --non-blocking}; \
         frag = data sets (quick 1, thorough 6) x every set of <= 1 (thorough 2) cut positions of the data set bytes into PDVs, plus an empty first / empty last PDV, x {one PDU per PDV, all PDVs in one PDU} x ts x mode; \
         seq = every ordered pair (thorough: and triple) of the 6 data sets stored on one association x ts x mode; \
         ctx = associations proposing 2 or 3 presentation contexts with ids 1,3,5 (one abstract syntax with every ordered selection of different accepted transfer syntaxes; CT and MR Image Storage with every pair of syntaxes in both orders), \
         stores sent on every sequence of <= 2 (thorough 3) context choices (repetition allowed), x mode; the oracle uses the transfer syntax accepted for the context id the PDVs carry. \
         One association per case against a long-running tool process; the whole scratch tree is snapshotted before and after every store. \
         Distinct by case id; non-trivial = the association was accepted and the C-STORE request sent",
    );
    check.assume("vx-ref data set codec/strict parser and the PDU/DIMSE codec of vx-tools (written from PS3.5/3.7/3.8) are the trusted base; Path::join is used only to locate and clean up files an unsanitised name would create outside the scratch tree");
    check.assume("a refused store of a well-formed UID (digits and dots) is a failure; for other UID texts a store the tool refuses (failure status, or association dropped) satisfies the statement as long as no file appears; success status must coincide with exactly one new file directly inside the output directory");

    let exe = vx_tools::tool_path("dicom-storescp");
    let scratch = check.scratch_dir();

    // probe which candidate transfer syntaxes the tool accepts
    let tss = {
        let s = match start_server(&exe, &scratch.join("probe"), 0, false) {
            Ok(s) => s,
            Err(e) => vx_kit::report::machinery(&format!("cannot start dicom-storescp: {e}")),
        };
        match probe_ts(s.port) {
            Ok(t) => t,
            Err(e) => vx_kit::report::machinery(&format!("transfer syntax probe failed: {e}")),
        }
    };
    let _ = std::fs::remove_dir_all(scratch.join("probe"));
    check.extra("transfer_syntaxes_accepted_by_tool", json!(tss.iter().map(|t| t.name).collect::<Vec<_>>()));
    if tss.len() < 4 {
        vx_kit::report::machinery(&format!("the tool accepted only {:?}", tss.iter().map(|t| t.name).collect::<Vec<_>>()));
    }
    let tss: Vec<TsKind> = if check.quick() { tss[..4].to_vec() } else { tss };

    let cases = build_cases(&check, &tss, "\u{1}ABS");
    let mut fam: BTreeMap<&str, u64> = BTreeMap::new();
    for c in &cases {
        *fam.entry(c.family).or_default() += 1;
    }
    check.extra("universe", json!({ "cases": cases.len(), "by_family": fam, "transfer_syntaxes": tss.iter().map(|t| t.name).collect::<Vec<_>>() }));

    let shards = vx_tools::threads() as u64;
    let n = cases.len() as u64;
    check.par_range(shards, |l, shard| {
        let mut ctx = Ctx { exe: &exe, scratch: &scratch, shard, servers: [None, None] };
        // VERIF_SEED only rotates the order in which a shard visits its cases
        let per = n.div_ceil(shards);
        for k in 0..per {
            let i = ((k + l.check.seed) % per) * shards + shard;
            if i >= n {
                continue;
            }
            let c = &cases[i as usize];
            if !l.want(&c.id) {
                continue;
            }
            let chk = l.check;
            vx_tools::run_with_retries(l, &c.id, 3, |a| run_case(a, chk, c, &mut ctx));
        }
    });
    let _ = std::fs::remove_dir_all(&scratch);
    check.finish();
}
