//! C35 — image import and export tools round-trip pixel values.
//!
//! Subject: the real `dicom-fromimage` and `dicom-toimage` binaries. PNG files are produced and
//! decoded by the harness with the `png` crate, base DICOM files by `vx_ref::ds::encode_file`, and
//! the intermediate DICOM file is parsed by the strict `vx-ref` parser.
use std::path::Path;
use std::time::Duration;
use vx_kit::{json, Check, Level, Value};
use vx_tools::Attempt;
use vx_ref::ds::{self, RElem, RVal, Ts};
use vx_tools::dsx;
use vx_tools::img::{self, Color, Image};
use vx_tools::proc::{self, Out, Ran};

const LIMIT: Duration = Duration::from_secs(20);

#[derive(Clone, Copy, PartialEq, Eq, Debug)]
enum Route {
    /// fromimage --encapsulate, toimage --unwrap: the exported file is the PNG itself
    A,
    /// native injection, plain toimage, colour images: every value must be equal
    B,
    /// native injection, plain toimage, grayscale: the default export applies VOI/normalisation by
    /// design, so only dimensions (and success) are asserted
    C,
    /// native injection, toimage --unwrap: the exported file is exactly the native frame bytes
    /// (little-endian samples as fromimage documents, no padding byte)
    D,
}
impl Route {
    fn name(self) -> &'static str {
        match self {
            Route::A => "a-encapsulate-unwrap",
            Route::B => "b-native-rgb",
            Route::C => "c-native-gray-dims",
            Route::D => "d-native-unwrap",
        }
    }
}

// ---- image universe ----------------------------------------------------------------------------

fn alphabet(color: Color, one_pixel: bool) -> Vec<u16> {
    match (color.bits(), one_pixel) {
        (8, _) => vec![0, 1, 255],
        (_, true) => vec![0, 1, 0x0102, 0xFF00, 0xFFFF],
        (_, false) => vec![0, 0x0102, 0xFFFF],
    }
}

/// every assignment of `alpha` to `n` samples, simplest (all first letter) first
fn assignments(alpha: &[u16], n: usize) -> Vec<Vec<u16>> {
    let mut out = vec![];
    let total = alpha.len().pow(n as u32);
    for mut k in 0..total {
        let mut v = vec![];
        for _ in 0..n {
            v.push(alpha[k % alpha.len()]);
            k /= alpha.len();
        }
        out.push(v);
    }
    out
}

/// distinct, byte-asymmetric values coding the sample index
fn index_coded(color: Color, n: usize) -> Vec<u16> {
    (0..n)
        .map(|k| if color.bits() == 8 { ((k * 37 + 5) & 0xFF) as u16 } else { ((k * 0x1357 + 0x0102) & 0xFFFF) as u16 })
        .collect()
}

fn images(check: &Check) -> Vec<(String, Image)> {
    let mut out = vec![];
    for color in Color::ALL {
        let ch = color.channels();
        // quick tier, colour: the 1x1 alphabet is the 3-letter one
        let a1 = if check.quick() && ch == 3 { alphabet(color, false) } else { alphabet(color, true) };
        for (i, s) in assignments(&a1, ch).into_iter().enumerate() {
            out.push((format!("{}/1x1/v{i}", color.name()), Image { color, w: 1, h: 1, samples: s }));
        }
        for (w, h) in [(1u32, 2u32), (2, 1)] {
            let alpha = alphabet(color, false);
            for (i, s) in assignments(&alpha, 2 * ch).into_iter().enumerate() {
                // quick tier, colour: one pixel takes every assignment while the other one is the fixed
                // asymmetric pixel (last, first, first letter), in both positions
                if check.quick() && ch == 3 {
                    // ... and RGB8 takes the 2x1 shape, RGB16 the 1x2 shape
                    if (color.bits() == 8) != (w == 2) {
                        continue;
                    }
                    let fixed = [alpha[2], alpha[0], alpha[0]];
                    // RGB8: the second pixel is the fixed one; RGB16: the first
                    if (color.bits() == 8 && s[3..] != fixed) || (color.bits() == 16 && s[..3] != fixed) {
                        continue;
                    }
                }
                out.push((format!("{}/{w}x{h}/v{i}", color.name()), Image { color, w, h, samples: s }));
            }
        }
        let mut shapes = vec![(2u32, 2u32), (3, 1), (1, 3), (4, 3), (3, 3), (3, 5)];
        if check.thorough() {
            shapes.extend([(7, 5), (64, 1), (1, 64), (64, 64)]);
        }
        for (w, h) in shapes {
            let n = (w * h) as usize * ch;
            out.push((format!("{}/{w}x{h}/idx", color.name()), Image { color, w, h, samples: index_coded(color, n) }));
        }
    }
    out
}

// ---- base files ----------------------------------------------------------------------------------

fn us(tag: (u16, u16), v: u16) -> RElem {
    RElem::prim(tag, "US", &v.to_le_bytes())
}
fn txt(tag: (u16, u16), vr: &str, v: &str) -> RElem {
    RElem::prim(tag, vr, v.as_bytes())
}

const SC: &str = "1.2.840.10008.5.1.4.1.1.7";

/// (name, file bytes): image attributes that differ from every injected image in some respect
fn bases() -> Vec<(&'static str, Vec<u8>)> {
    let head = |inst: &str| {
        vec![
            txt((0x0008, 0x0016), "UI", SC),
            txt((0x0008, 0x0018), "UI", inst),
            txt((0x0008, 0x0060), "CS", "OT"),
            txt((0x0010, 0x0010), "PN", "Doe^Jane"),
        ]
    };
    let mut out = vec![];
    // 8-bit monochrome, 2 columns x 3 rows, Explicit VR LE
    let mut d = head("1.2.3.35.1");
    d.extend([
        us((0x0028, 0x0002), 1),
        txt((0x0028, 0x0004), "CS", "MONOCHROME2"),
        us((0x0028, 0x0010), 3),
        us((0x0028, 0x0011), 2),
        us((0x0028, 0x0100), 8),
        us((0x0028, 0x0101), 8),
        us((0x0028, 0x0102), 7),
        us((0x0028, 0x0103), 0),
        RElem::prim((0x7FE0, 0x0010), "OB", &[10, 20, 30, 40, 50, 60]),
    ]);
    out.push(("mono8", ds::encode_file(true, &ds::std_meta(Ts::ExplicitLE.uid(), SC, "1.2.3.35.1"), Ts::ExplicitLE, &d)));
    // 16-bit signed monochrome with rescale, window and min/max attributes, Implicit VR LE
    let mut d = head("1.2.3.35.2");
    d.extend([
        us((0x0028, 0x0002), 1),
        txt((0x0028, 0x0004), "CS", "MONOCHROME2"),
        us((0x0028, 0x0010), 2),
        us((0x0028, 0x0011), 2),
        us((0x0028, 0x0100), 16),
        us((0x0028, 0x0101), 12),
        us((0x0028, 0x0102), 11),
        us((0x0028, 0x0103), 1),
        us((0x0028, 0x0106), 0),
        us((0x0028, 0x0107), 4095),
        txt((0x0028, 0x1050), "DS", "40"),
        txt((0x0028, 0x1051), "DS", "400"),
        txt((0x0028, 0x1052), "DS", "-1024"),
        txt((0x0028, 0x1053), "DS", "1"),
        RElem::prim((0x7FE0, 0x0010), "OW", &[1, 0, 2, 0, 3, 0, 4, 0]),
    ]);
    out.push(("mono16", ds::encode_file(true, &ds::std_meta(Ts::ImplicitLE.uid(), SC, "1.2.3.35.2"), Ts::ImplicitLE, &d)));
    // 8-bit RGB, colour-by-plane, two frames of 2 columns x 1 row, Explicit VR LE
    let mut d = head("1.2.3.35.3");
    d.extend([
        us((0x0028, 0x0002), 3),
        txt((0x0028, 0x0004), "CS", "RGB"),
        us((0x0028, 0x0006), 1),
        txt((0x0028, 0x0008), "IS", "2"),
        us((0x0028, 0x0010), 1),
        us((0x0028, 0x0011), 2),
        us((0x0028, 0x0100), 8),
        us((0x0028, 0x0101), 8),
        us((0x0028, 0x0102), 7),
        us((0x0028, 0x0103), 0),
        RElem::prim((0x7FE0, 0x0010), "OB", &[1, 2, 3, 4, 5, 6, 7, 8, 9, 10, 11, 12]),
    ]);
    out.push(("rgb8", ds::encode_file(true, &ds::std_meta(Ts::ExplicitLE.uid(), SC, "1.2.3.35.3"), Ts::ExplicitLE, &d)));
    out
}

// ---- one case ------------------------------------------------------------------------------------

struct Case<'a> {
    id: String,
    route: Route,
    image: &'a Image,
    base_name: &'static str,
    base: &'a [u8],
}

fn class(c: &Case, stage: &str, kind: &str) -> Value {
    json!({
        "route": c.route.name(), "color": c.image.color.name(), "shape": format!("{}x{}", c.image.w, c.image.h),
        "base": c.base_name, "stage": stage, "kind": kind,
    })
}

fn read_log(p: &Path) -> String {
    let s = std::fs::read_to_string(p).unwrap_or_default();
    let s = s.trim();
    if s.len() > 600 {
        format!("{}…", &s[..600])
    } else {
        s.to_string()
    }
}

fn run_case(l: &mut Attempt, verbose: bool, c: &Case, dir: &Path, fromimage: &Path, toimage: &Path) {
    let im = c.image;
    let png = img::encode_png(im);
    let _ = std::fs::remove_dir_all(dir);
    std::fs::create_dir_all(dir).expect("case dir");
    std::fs::write(dir.join("base.dcm"), c.base).expect("write base");
    std::fs::write(dir.join("img.png"), &png).expect("write png");
    let detail = |extra: Value| {
        json!({ "image": { "w": im.w, "h": im.h, "color": im.color.name(), "samples": if im.samples.len() <= 24 { json!(im.samples) } else { json!(format!("{} index-coded samples", im.samples.len())) } },
                "base": c.base_name, "route": c.route.name(), "info": extra })
    };

    // 1. import
    let mut args = vec!["base.dcm", "img.png", "-o", "mid.dcm"];
    if c.route == Route::A {
        args.push("--encapsulate");
    }
    let log1 = dir.join("fromimage.log");
    let r = proc::run(fromimage, &args, dir, Out::File(&log1), LIMIT).expect("spawn fromimage");
    if verbose {
        eprintln!("fromimage {args:?}: {} | {}", r.describe(), read_log(&log1));
    }
    if r != Ran::Exit(0) {
        l.outcome("fromimage-failed");
        let kind = if r == Ran::Timeout { "timeout" } else { "tool-error" };
        l.fail_transient(class(c, "fromimage", kind), detail(json!({ "status": r.describe(), "output": read_log(&log1) })));
        return;
    }
    let mid = match std::fs::read(dir.join("mid.dcm")) {
        Ok(b) => b,
        Err(e) => {
            l.outcome("fromimage-no-output");
            l.fail(class(c, "fromimage", "no-output-file"), detail(json!({ "error": e.to_string() })));
            return;
        }
    };
    l.nontrivial = true;

    // 2. the intermediate file: strict parse, image attributes and pixel data length
    let parsed = ds::parse_file_head(&mid).map_err(|e| e.to_string()).and_then(|h| {
        let ts = match h.ts_uid.as_str() {
            "1.2.840.10008.1.2" => Ts::ImplicitLE,
            "1.2.840.10008.1.2.1" => Ts::ExplicitLE,
            "1.2.840.10008.1.2.2" => Ts::ExplicitBE,
            o => return Err(format!("intermediate file has transfer syntax {o}")),
        };
        ds::parse(ts, &mid[h.dataset_offset..], &dsx::vr_of).map_err(|e| format!("data set: {e}"))
    });
    let els = match parsed {
        Ok(e) => e,
        Err(e) => {
            l.outcome("mid-unparsable");
            l.fail(class(c, "intermediate", "does-not-parse"), detail(json!({ "error": e, "file_len": mid.len() })));
            return;
        }
    };
    let want_attrs = [
        ("Rows", (0x0028, 0x0010), im.h as u16),
        ("Columns", (0x0028, 0x0011), im.w as u16),
        ("SamplesPerPixel", (0x0028, 0x0002), im.color.channels() as u16),
        ("BitsAllocated", (0x0028, 0x0100), im.color.bits()),
    ];
    for (name, tag, want) in want_attrs {
        let got = dsx::u16v(&els, tag);
        if got != Some(want) {
            l.outcome("mid-attribute-wrong");
            l.fail(class(c, "intermediate", &format!("attribute-{name}")), detail(json!({ "attribute": name, "expected": want, "got": got, "dataset": dsx::show(&els) })));
            return;
        }
    }
    let native_le: Vec<u8> = if im.color.bits() == 8 { im.samples.iter().map(|s| *s as u8).collect() } else { im.samples.iter().flat_map(|s| s.to_le_bytes()).collect() };
    let pix = dsx::find(&els, (0x7FE0, 0x0010)).map(|e| &e.val);
    let pix_problem = match (c.route, pix) {
        (Route::A, Some(RVal::Pix { frags, .. })) => {
            let total: usize = frags.iter().map(|f| f.len()).sum();
            let cat: Vec<u8> = frags.concat();
            if total != png.len() + png.len() % 2 {
                Some(("pixel-data-length", format!("fragments hold {total} bytes, the image file has {}", png.len())))
            } else if cat[..png.len()] != png[..] {
                Some(("pixel-data-content", "fragment bytes differ from the image file".to_string()))
            } else {
                None
            }
        }
        (Route::A, o) => Some(("pixel-data-form", format!("expected encapsulated pixel data, found {}", o.map(|_| "another form").unwrap_or("none")))),
        (_, Some(RVal::Prim(b))) => {
            if b.len() != native_le.len() + native_le.len() % 2 {
                Some(("pixel-data-length", format!("pixel data holds {} bytes, rows*columns*samples*bytes = {}", b.len(), native_le.len())))
            } else if b[..native_le.len()] != native_le[..] {
                Some(("pixel-data-content", format!("pixel data {:02X?} differs from the samples {:02X?}", &b[..b.len().min(32)], &native_le[..native_le.len().min(32)])))
            } else {
                None
            }
        }
        (_, o) => Some(("pixel-data-form", format!("expected native pixel data, found {}", o.map(|_| "another form").unwrap_or("none")))),
    };
    if let Some((kind, msg)) = pix_problem {
        l.outcome("mid-pixel-data-wrong");
        l.fail(class(c, "intermediate", kind), detail(json!({ "problem": msg, "dataset": dsx::show(&els) })));
        return;
    }

    // 3. export
    let mut args = vec!["mid.dcm", "-o", if c.route == Route::D { "out.bin" } else { "out.png" }];
    if c.route == Route::A || c.route == Route::D {
        args.push("--unwrap");
    }
    let log2 = dir.join("toimage.log");
    let r = proc::run(toimage, &args, dir, Out::File(&log2), LIMIT).expect("spawn toimage");
    if verbose {
        eprintln!("toimage {args:?}: {} | {}", r.describe(), read_log(&log2));
    }
    if r != Ran::Exit(0) {
        l.outcome("toimage-failed");
        let kind = if r == Ran::Timeout { "timeout" } else { "tool-error" };
        l.fail_transient(class(c, "toimage", kind), detail(json!({ "status": r.describe(), "output": read_log(&log2), "dataset": dsx::show(&els) })));
        return;
    }
    if c.route == Route::D {
        let got = std::fs::read(dir.join("out.bin")).unwrap_or_default();
        if got != native_le {
            l.outcome("unwrapped-native-bytes-differ");
            let kind = if got.len() != native_le.len() { "unwrapped-length" } else { "unwrapped-bytes" };
            l.fail(class(c, "compare", kind), detail(json!({ "expected_len": native_le.len(), "got_len": got.len(),
                "expected": format!("{:02X?}", &native_le[..native_le.len().min(32)]), "got": format!("{:02X?}", &got[..got.len().min(34)]) })));
            return;
        }
        l.outcome_with(if native_le.len() % 2 == 1 { "ok-native-frame-bytes-equal-odd-length" } else { "ok-native-frame-bytes-equal" }, || json!({ "case": c.id }));
        return;
    }
    let got = match img::read_png(&dir.join("out.png")) {
        Ok(i) => i,
        Err(e) => {
            l.outcome("export-unreadable");
            l.fail(class(c, "toimage", "output-not-a-png"), detail(json!({ "error": e })));
            return;
        }
    };

    // 4. compare
    if (got.w, got.h) != (im.w, im.h) {
        l.outcome("dimensions-differ");
        l.fail(class(c, "compare", "dimensions"), detail(json!({ "expected": [im.w, im.h], "got": [got.w, got.h] })));
        return;
    }
    if c.route == Route::C {
        l.outcome_with("ok-dimensions-only", || json!({ "case": c.id, "exported_color": got.color.name() }));
        return;
    }
    if got.color != im.color {
        l.outcome("colour-type-differs");
        l.fail(class(c, "compare", "colour-type"), detail(json!({ "expected": im.color.name(), "got": got.color.name() })));
        return;
    }
    if got.samples != im.samples {
        let first = got.samples.iter().zip(&im.samples).position(|(a, b)| a != b);
        l.outcome("values-differ");
        l.fail(class(c, "compare", "pixel-values"), detail(json!({ "first_difference_at_sample": first,
            "expected": &im.samples[..im.samples.len().min(24)], "got": &got.samples[..got.samples.len().min(24)] })));
        return;
    }
    l.outcome_with(if c.route == Route::A { "ok-unwrapped-equal" } else { "ok-decoded-equal" }, || json!({ "case": c.id }));
}

fn main() {
    let check = Check::from_args("C35", Level::Exploration);
    check.set_rule(
        "images = colour types {L8, L16, RGB8, RGB16} x (1x1: every assignment of {0,1,max} (16-bit: + 0x0102, 0xFF00) to the channels; \
         1x2 and 2x1: every assignment of a 3-value alphabet ({0,1,255} / {0,0x0102,0xFFFF}) to all samples (quick, colour: 3-letter alphabet for 1x1, and for two pixels (RGB8 2x1, RGB16 1x2) one pixel fixed to (max,0,0) (RGB8 the second, RGB16 the first) while the other takes every assignment); \
         2x2, 3x1, 1x3, 4x3, 3x3, 3x5 (thorough: + 7x5, 64x1, 1x64, 64x64): distinct index-coded byte-asymmetric samples) \
         x base DICOM files {8-bit mono ELE, 16-bit signed mono with rescale/window ILE, 8-bit planar RGB 2 frames ELE} (quick: one base per image in rotation, all bases for the first 1x1 assignment and the 2x2 and 3x3 index-coded images) \
         x routes {(a) fromimage --encapsulate + toimage --unwrap; (b) native + toimage for colour; (c) native + toimage for grey, dimensions only; (d) native + toimage --unwrap: the file is exactly the native little-endian frame bytes without padding (quick: not for two-pixel images, three of the RGB16 1x1 assignments)}; \
         a case is (image, base, route), distinct by id; non-trivial = fromimage produced the intermediate file",
    );
    check.assume("the png crate (encoder/decoder used by the harness) and vx-ref (base file encoder, strict parser of the intermediate file) are the trusted base");
    check.assume("route (c) asserts success and dimensions only: the default grayscale export applies modality/VOI transformations by design");

    let fromimage = vx_tools::tool_path("dicom-fromimage");
    let toimage = vx_tools::tool_path("dicom-toimage");
    let scratch = check.scratch_dir();
    let imgs = images(&check);
    let bases = bases();
    let mut cases = vec![];
    for (n, (iid, im)) in imgs.iter().enumerate() {
        for (bn, (bname, b)) in bases.iter().enumerate() {
            // quick tier: one base per image (rotating, so every colour type meets every base); the first
            // assignment and the index-coded images of every shape meet all bases
            if check.quick() && bn != n % bases.len() && !(iid.ends_with("/1x1/v0") || iid.ends_with("/2x2/idx") || iid.ends_with("/3x3/idx")) {
                continue;
            }
            let routes: &[Route] = if im.color.channels() == 3 { &[Route::A, Route::B] } else { &[Route::A, Route::C] };
            let mut routes = routes.to_vec();
            // route (d): quick leaves out the two-pixel colour assignments (their index-coded and 1x1 images stay)
            // and the two-pixel grey assignments, and takes three of the RGB16 1x1 assignments
            let skip_d = check.quick() && (im.w * im.h == 2 || (im.color == Color::Rgb16 && im.w * im.h == 1 && !(iid.ends_with("/v0") || iid.ends_with("/v1") || iid.ends_with("/v2"))));
            if !skip_d {
                routes.push(Route::D);
            }
            for r in &routes {
                cases.push(Case { id: format!("{}/{iid}/{bname}", &r.name()[..1]), route: *r, image: im, base_name: bname, base: b });
            }
        }
    }
    check.extra("universe", json!({ "images": imgs.len(), "bases": bases.len(), "cases": cases.len() }));
    check.par_range(cases.len() as u64, |l, i| {
        let c = &cases[i as usize];
        if !l.want(&c.id) {
            return;
        }
        let dir = scratch.join(format!("c{i}"));
        let verbose = l.check.verbose;
        vx_tools::run_with_retries(l, &c.id, 3, |a| run_case(a, verbose, c, &dir, &fromimage, &toimage));
        let _ = std::fs::remove_dir_all(&dir);
    });
    let _ = std::fs::remove_dir_all(&scratch);
    check.finish();
}
