//! C33 — the storage SCU sends each file on a matching presentation context.
//!
//! Subject: the real `dicom-storescu` binary (synchronous path and the asynchronous path selected by
//! `--concurrency 1`; with and without `--never-transcode`), one process per case, against a
//! recording acceptor written on the PDU codec of this crate (it never touches dicom-ul). The
//! acceptor answers in lock-step (one C-STORE response per complete request).
use std::collections::{BTreeMap, BTreeSet};
use std::io::Write;
use std::net::{TcpListener, TcpStream};
use std::path::Path;
use std::time::{Duration, Instant};
use vx_kit::{json, Check, Level, Value};
use vx_tools::Attempt;
use vx_ref::ds::{self, RElem, RVal, Ts};
use vx_tools::dimse;
use vx_tools::dsx;
use vx_tools::pdu::{self, Assoc, PcAc, PcRq, Pdu, Pdv};
use vx_tools::proc::{self, Out};

const CT: &str = "1.2.840.10008.5.1.4.1.1.2";
const MR: &str = "1.2.840.10008.5.1.4.1.1.4";
const ILE: &str = "1.2.840.10008.1.2";
const ELE: &str = "1.2.840.10008.1.2.1";
const RLE: &str = "1.2.840.10008.1.2.5";
const ENCAP: &str = "1.2.840.10008.1.2.1.98";
const MPEG2: &str = "1.2.840.10008.1.2.4.100";
const IO_LIMIT: Duration = Duration::from_secs(20);
/// maximum PDU length announced by the acceptor: small files go out in one PDU, big ones through
/// the tool's chunking P-DATA writer
const ACCEPTOR_MAX_PDU: u32 = 1200;

fn native(ts: &str) -> bool {
    ts == ILE || ts == ELE
}
fn ts_name(ts: &str) -> &'static str {
    match ts {
        ILE => "implicit-le",
        ELE => "explicit-le",
        RLE => "rle-lossless",
        ENCAP => "encapsulated-uncompressed",
        MPEG2 => "mpeg2-opaque",
        _ => "?",
    }
}
fn enc_of(ts: &str) -> Ts {
    if ts == ILE {
        Ts::ImplicitLE
    } else {
        Ts::ExplicitLE
    }
}
fn class_name(c: &str) -> &'static str {
    if c == CT {
        "CT"
    } else {
        "MR"
    }
}

// ---- files ------------------------------------------------------------------------------------------

#[derive(Clone, Debug, PartialEq, Eq, Hash, PartialOrd, Ord)]
struct Kind {
    class: &'static str,
    ts: &'static str,
    big: bool,
}
impl Kind {
    fn name(&self) -> String {
        format!("{}:{}:{}", class_name(self.class), ts_name(self.ts), if self.big { "big" } else { "small" })
    }
}

fn pixels(rows: usize, cols: usize) -> Vec<u8> {
    (0..rows * cols).map(|k| if (k / 4) % 3 == 0 { 7 } else { ((k * 37 + 5) & 0xFF) as u8 }).collect()
}

/// PackBits (PS3.5 Annex G.3.1), each row on its own, replicate runs for >= 3 equal bytes
fn packbits_rows(px: &[u8], cols: usize) -> Vec<u8> {
    let mut out = vec![];
    for row in px.chunks(cols) {
        let mut i = 0;
        while i < row.len() {
            let mut run = 1;
            while i + run < row.len() && row[i + run] == row[i] && run < 128 {
                run += 1;
            }
            if run >= 3 {
                out.push((257 - run) as u8); // -(run-1) as a signed byte
                out.push(row[i]);
                i += run;
            } else {
                let start = i;
                let mut n = 0;
                while i < row.len() && n < 128 {
                    let mut r = 1;
                    while i + r < row.len() && row[i + r] == row[i] && r < 3 {
                        r += 1;
                    }
                    if r >= 3 {
                        break;
                    }
                    i += 1;
                    n += 1;
                }
                out.push((n - 1) as u8);
                out.extend_from_slice(&row[start..start + n]);
            }
        }
    }
    if out.len() % 2 == 1 {
        out.push(0);
    }
    out
}

fn rle_frame(px: &[u8], cols: usize) -> Vec<u8> {
    let mut f = vec![];
    f.extend_from_slice(&1u32.to_le_bytes());
    f.extend_from_slice(&64u32.to_le_bytes());
    f.extend_from_slice(&[0u8; 56]);
    f.extend(packbits_rows(px, cols));
    f
}

struct FileSpec {
    kind: Kind,
    instance: String,
    /// data set without pixel data
    head: Vec<RElem>,
    /// native pixel bytes (the decoded truth), None for the opaque kind
    native_pixels: Option<Vec<u8>>,
    /// pixel data element as stored in the file
    pixel_elem: RElem,
    bytes: Vec<u8>,
}

fn make_file(kind: &Kind, n: usize) -> FileSpec {
    let (rows, cols) = if kind.big { (40usize, 32usize) } else { (2, 2) };
    let instance = format!("1.2.3.33.{}.{}", n + 1, if kind.class == CT { 2 } else { 4 });
    let us = |t: (u16, u16), v: u16| RElem::prim(t, "US", &v.to_le_bytes());
    let head = vec![
        RElem::prim((0x0008, 0x0016), "UI", kind.class.as_bytes()),
        RElem::prim((0x0008, 0x0018), "UI", instance.as_bytes()),
        RElem::prim((0x0008, 0x0060), "CS", class_name(kind.class).as_bytes()),
        RElem::prim((0x0010, 0x0010), "PN", b"Doe^Jo"),
        RElem::prim((0x0010, 0x0020), "LO", b"ID7"),
        us((0x0028, 0x0002), 1),
        RElem::prim((0x0028, 0x0004), "CS", b"MONOCHROME2"),
        us((0x0028, 0x0010), rows as u16),
        us((0x0028, 0x0011), cols as u16),
        us((0x0028, 0x0100), 8),
        us((0x0028, 0x0101), 8),
        us((0x0028, 0x0102), 7),
        us((0x0028, 0x0103), 0),
    ];
    let px = pixels(rows, cols);
    let (pixel_elem, native_pixels) = match kind.ts {
        ILE => (RElem::prim((0x7FE0, 0x0010), "OW", &px), Some(px.clone())),
        ELE => (RElem::prim((0x7FE0, 0x0010), "OB", &px), Some(px.clone())),
        RLE => (RElem { tag: (0x7FE0, 0x0010), vr: *b"OB", val: RVal::Pix { offsets: vec![], frags: vec![rle_frame(&px, cols)] } }, Some(px.clone())),
        ENCAP => (RElem { tag: (0x7FE0, 0x0010), vr: *b"OB", val: RVal::Pix { offsets: vec![], frags: vec![px.clone()] } }, Some(px.clone())),
        _ => (RElem { tag: (0x7FE0, 0x0010), vr: *b"OB", val: RVal::Pix { offsets: vec![], frags: vec![px.iter().map(|b| b ^ 0x5A).collect()] } }, None),
    };
    let mut all = head.clone();
    all.push(pixel_elem.clone());
    let bytes = ds::encode_file(true, &ds::std_meta(kind.ts, kind.class, &instance), enc_of(kind.ts), &all);
    FileSpec { kind: kind.clone(), instance, head, native_pixels, pixel_elem, bytes }
}

// ---- cases ------------------------------------------------------------------------------------------

#[derive(Clone, Debug)]
struct Case {
    id: String,
    kinds: Vec<Kind>,
    never_transcode: bool,
    /// None = synchronous path; Some(n) = --concurrency n (asynchronous path, n associations)
    concurrency: Option<usize>,
    ignore_sop_class: bool,
    /// contexts the harness expects the tool to propose, sorted; `mask` bit k = accept context k
    expected: Vec<(String, String)>,
    mask: u32,
}

fn expected_contexts(kinds: &[Kind], never: bool) -> Vec<(String, String)> {
    let mut s = BTreeSet::new();
    for k in kinds {
        s.insert((k.class.to_string(), k.ts.to_string()));
        if !never {
            s.insert((k.class.to_string(), ELE.to_string()));
            s.insert((k.class.to_string(), ILE.to_string()));
        }
    }
    s.into_iter().collect()
}

fn build_cases(check: &Check) -> Vec<Case> {
    let quick = check.quick();
    let tss: Vec<&'static str> = if quick { vec![ILE, ELE, RLE, ENCAP] } else { vec![ILE, ELE, RLE, ENCAP, MPEG2] };
    let mut sets: Vec<Vec<Kind>> = vec![];
    // single files: every class x ts (thorough: x size)
    for class in [CT, MR] {
        for ts in &tss {
            for big in [false, true] {
                // quick tier: one big single file only (the chunked send path)
                if quick && big && !(*ts == RLE && class == CT) {
                    continue;
                }
                sets.push(vec![Kind { class, ts, big }]);
            }
        }
    }
    // pairs: first file small, second file big
    if quick {
        for (a, b) in [((CT, RLE), (MR, ILE)), ((CT, ILE), (MR, ELE)), ((CT, ENCAP), (CT, ELE)), ((MR, ELE), (MR, ILE)), ((MR, RLE), (CT, ENCAP))] {
            sets.push(vec![Kind { class: a.0, ts: a.1, big: false }, Kind { class: b.0, ts: b.1, big: true }]);
        }
    } else {
        for c1 in [CT, MR] {
            for t1 in &tss {
                for c2 in [CT, MR] {
                    for t2 in &tss {
                        sets.push(vec![Kind { class: c1, ts: t1, big: false }, Kind { class: c2, ts: t2, big: true }]);
                        sets.push(vec![Kind { class: c1, ts: t1, big: true }, Kind { class: c2, ts: t2, big: false }]);
                    }
                }
            }
        }
        // triples over two classes with three different syntaxes
        for (a, b, c) in [((CT, RLE), (MR, ILE), (CT, ELE)), ((MR, ENCAP), (CT, RLE), (MR, MPEG2)), ((CT, ILE), (CT, ELE), (MR, RLE))] {
            sets.push(vec![Kind { class: a.0, ts: a.1, big: false }, Kind { class: b.0, ts: b.1, big: true }, Kind { class: c.0, ts: c.1, big: false }]);
        }
    }
    let mut cases = vec![];
    for kinds in &sets {
        for never in [false, true] {
            for async_path in [false, true] {
                // quick tier: single files run default/sync and never-transcode/async; pairs run the default on
                // both paths (the pair with six contexts only with never-transcode) and never-transcode on sync
                if quick {
                    let keep = match (kinds.len(), never, async_path) {
                        (1, false, false) | (1, true, true) => true,
                        (1, _, _) => false,
                        (_, false, _) => expected_contexts(kinds, never).len() < 6,
                        (_, true, false) => true,
                        (_, true, true) => false,
                    };
                    if !keep {
                        continue;
                    }
                }
                let expected = expected_contexts(kinds, never);
                for mask in 0..(1u32 << expected.len()) {
                    cases.push(Case {
                        id: format!(
                            "{}/{}/{}/accept-{:0w$b}",
                            kinds.iter().map(|k| k.name()).collect::<Vec<_>>().join("+"),
                            if never { "never-transcode" } else { "transcode" },
                            if async_path { "async" } else { "sync" },
                            mask,
                            w = expected.len()
                        ),
                        kinds: kinds.clone(),
                        never_transcode: never,
                        concurrency: if async_path { Some(1) } else { None },
                        ignore_sop_class: false,
                        expected: expected.clone(),
                        mask,
                    });
                }
            }
        }
    }
    // family opts: the option space crossed with the execution path, on file sets of two SOP classes:
    // {sync, --concurrency 1, --concurrency 2} x {no flag, --never-transcode, --ignore-sop-class, both}
    let opt_sets: Vec<Vec<Kind>> = {
        let k = |class, ts, big| Kind { class, ts, big };
        let mut v = vec![vec![k(CT, RLE, false), k(MR, ILE, true)], vec![k(CT, ILE, false), k(MR, ELE, false)]];
        if !quick {
            v.push(vec![k(CT, ENCAP, false), k(MR, RLE, true)]);
            v.push(vec![k(MR, ELE, true), k(CT, ELE, false)]);
            v.push(vec![k(CT, RLE, false), k(MR, MPEG2, false), k(CT, ILE, true)]);
        }
        v
    };
    for kinds in &opt_sets {
        for conc in [None, Some(1usize), Some(2)] {
            for never in [false, true] {
                for ignore in [false, true] {
                    let expected = expected_contexts(kinds, never);
                    let (ca, cb) = (kinds[0].class, kinds.iter().find(|k| k.class != kinds[0].class).unwrap().class);
                    // quick: named policies; thorough: every subset
                    let masks: Vec<(String, u32)> = if quick {
                        let m = |f: &dyn Fn(&str, &str) -> bool| expected.iter().enumerate().fold(0u32, |acc, (i, (a, t))| if f(a, t) { acc | 1 << i } else { acc });
                        vec![
                            ("all".to_string(), m(&|_, _| true)),
                            ("refuse-first-class".to_string(), m(&|a, _| a != ca)),
                            ("refuse-second-class".to_string(), m(&|a, _| a != cb)),
                            ("only-implicit-le-of-second-class".to_string(), m(&|a, t| a == cb && t == ILE)),
                        ]
                    } else {
                        (0..(1u32 << expected.len())).map(|m| (format!("accept-{:0w$b}", m, w = expected.len()), m)).collect()
                    };
                    // quick: the second file set only on the asynchronous paths with exactly one flag and two policies
                    let second_set_quick = quick && kinds != &opt_sets[0];
                    if second_set_quick && (conc.is_none() || never == ignore) {
                        continue;
                    }
                    let mut seen = vec![];
                    for (pname, mask) in masks {
                        if second_set_quick && !(pname == "refuse-first-class" || pname == "only-implicit-le-of-second-class") {
                            continue;
                        }
                        if seen.contains(&mask) {
                            continue;
                        }
                        seen.push(mask);
                        cases.push(Case {
                            id: format!(
                                "opts/{}/{}{}/{}/{pname}",
                                kinds.iter().map(|k| k.name()).collect::<Vec<_>>().join("+"),
                                if never { "never-transcode" } else { "transcode" },
                                if ignore { "+ignore-sop-class" } else { "" },
                                match conc {
                                    None => "sync".to_string(),
                                    Some(n) => format!("concurrency-{n}"),
                                },
                            ),
                            kinds: kinds.clone(),
                            never_transcode: never,
                            concurrency: conc,
                            ignore_sop_class: ignore,
                            expected: expected.clone(),
                            mask,
                        });
                    }
                }
            }
        }
    }
    cases
}

// ---- recording acceptor -------------------------------------------------------------------------------

#[derive(Debug, Clone)]
struct Received {
    pc: u8,
    cmd_pc: u8,
    cmd: dimse::Command,
    data: Vec<u8>,
    data_pdvs: usize,
}

#[derive(Debug, Default)]
struct Session {
    proposed: Vec<PcRq>,
    accepted: BTreeMap<u8, (String, String)>,
    stores: Vec<Received>,
    end: String,
    /// the acceptor gave up waiting for the next PDU (wall-clock limit)
    timed_out: bool,
    protocol_errors: Vec<String>,
}

fn serve(mut s: TcpStream, accept: &(dyn Fn(&str, &str) -> bool + Sync), verbose: bool) -> Session {
    let mut ses = Session::default();
    let _ = s.set_read_timeout(Some(IO_LIMIT));
    let _ = s.set_write_timeout(Some(IO_LIMIT));
    let _ = s.set_nodelay(true);
    let recv = |s: &mut TcpStream| {
        let r = pdu::read_pdu(s);
        if verbose {
            match &r {
                Ok(Some(p)) => eprintln!("  scp <- scu  {}", p.short()),
                Ok(None) => eprintln!("  scp <- scu  (connection closed)"),
                Err(e) => eprintln!("  scp <- scu  error: {e}"),
            }
        }
        r
    };
    let send = |s: &mut TcpStream, p: &Pdu| {
        if verbose {
            eprintln!("  scp -> scu  {}", p.short());
        }
        s.write_all(&pdu::encode(p))
    };
    let rq = match recv(&mut s) {
        Ok(Some(Pdu::Rq(a))) => a,
        o => {
            ses.end = format!("no association request: {o:?}");
            return ses;
        }
    };
    ses.proposed = rq.pcs.clone();
    let mut pcs = vec![];
    for p in &rq.pcs {
        let pick = p.ts.iter().find(|t| accept(&p.abs, t));
        match pick {
            Some(t) => {
                ses.accepted.insert(p.id, (p.abs.clone(), t.clone()));
                pcs.push(PcAc { id: p.id, result: 0, ts: t.clone() });
            }
            None => pcs.push(PcAc { id: p.id, result: 4, ts: p.ts.first().cloned().unwrap_or_else(|| ILE.into()) }),
        }
    }
    let ac = Pdu::Ac(Assoc {
        called: rq.called.clone(),
        calling: rq.calling.clone(),
        app_ctx: pdu::APP_CTX.into(),
        pcs,
        max_pdu: ACCEPTOR_MAX_PDU,
        impl_uid: "1.2.3.4.5.7".into(),
        impl_version: Some("VXSCP".into()),
    });
    if let Err(e) = send(&mut s, &ac) {
        ses.end = format!("could not send A-ASSOCIATE-AC: {e}");
        return ses;
    }
    let mut cmd_buf: Vec<u8> = vec![];
    let mut cur: Option<(u8, dimse::Command)> = None;
    let mut data: Vec<u8> = vec![];
    let mut data_pdvs = 0;
    let mut data_pc: Option<u8> = None;
    loop {
        match recv(&mut s) {
            Ok(Some(Pdu::PData(pdvs))) => {
                for v in pdvs {
                    if v.command {
                        cmd_buf.extend_from_slice(&v.data);
                        if v.last {
                            match dimse::parse_command(&cmd_buf) {
                                Ok(c) => {
                                    if cur.is_some() {
                                        ses.protocol_errors.push("a second command arrived before the data set of the first was complete".into());
                                    }
                                    if c.group_length != Some(c.bytes_after_group_length as u32) {
                                        ses.protocol_errors.push(format!("command group length {:?} but {} bytes follow", c.group_length, c.bytes_after_group_length));
                                    }
                                    cur = Some((v.pc, c));
                                }
                                Err(e) => ses.protocol_errors.push(format!("command set does not parse: {e}")),
                            }
                            cmd_buf.clear();
                        }
                    } else {
                        if cur.is_none() {
                            ses.protocol_errors.push("data PDV without a preceding command".into());
                        }
                        if let Some(p) = data_pc {
                            if p != v.pc {
                                ses.protocol_errors.push(format!("data PDVs of one message on contexts {p} and {}", v.pc));
                            }
                        }
                        data_pc = Some(v.pc);
                        data.extend_from_slice(&v.data);
                        data_pdvs += 1;
                        if v.last {
                            if let Some((cmd_pc, cmd)) = cur.take() {
                                let rsp = dimse::c_store_rsp(
                                    cmd.sop_class.as_deref().unwrap_or(""),
                                    cmd.sop_instance.as_deref().unwrap_or("").as_bytes(),
                                    cmd.msg_id.unwrap_or(0),
                                    0,
                                );
                                ses.stores.push(Received { pc: v.pc, cmd_pc, cmd, data: std::mem::take(&mut data), data_pdvs });
                                if let Err(e) = send(&mut s, &Pdu::PData(vec![Pdv { pc: v.pc, command: true, last: true, data: rsp }])) {
                                    ses.end = format!("could not send the response: {e}");
                                    return ses;
                                }
                            }
                            data.clear();
                            data_pdvs = 0;
                            data_pc = None;
                        }
                    }
                }
            }
            Ok(Some(Pdu::ReleaseRq)) => {
                let _ = send(&mut s, &Pdu::ReleaseRp);
                ses.end = "released".into();
                return ses;
            }
            Ok(Some(Pdu::Abort { source, reason })) => {
                ses.end = format!("aborted({source},{reason})");
                return ses;
            }
            Ok(Some(p)) => {
                ses.protocol_errors.push(format!("unexpected PDU {}", p.short()));
            }
            Ok(None) => {
                ses.end = "closed".into();
                return ses;
            }
            Err(e) => {
                ses.timed_out = matches!(e.kind(), std::io::ErrorKind::WouldBlock | std::io::ErrorKind::TimedOut);
                ses.end = format!("error: {e}");
                return ses;
            }
        }
    }
}

// ---- one case -----------------------------------------------------------------------------------------

fn read_log(p: &Path) -> String {
    let s = std::fs::read_to_string(p).unwrap_or_default();
    let s: String = s.chars().filter(|c| !c.is_control() || *c == '\n').collect();
    let s = s.trim();
    if s.len() > 900 {
        let mut cut = s.len() - 900;
        while !s.is_char_boundary(cut) {
            cut += 1;
        }
        format!("…{}", &s[cut..])
    } else {
        s.to_string()
    }
}

/// compare the received data set bytes with the file's data set; Err((kind, info))
fn compare_data(f: &FileSpec, wire_ts: &str, data: &[u8]) -> Result<(), (&'static str, Value)> {
    let got = ds::parse(enc_of(wire_ts), data, &dsx::vr_of).map_err(|e| ("data-does-not-decode-in-context-syntax", json!({ "error": e.to_string(), "bytes": data.len() })))?;
    let implicit = wire_ts == ILE || f.kind.ts == ILE;
    let split = |els: &[RElem]| -> (Vec<RElem>, Option<RElem>) {
        let mut rest = vec![];
        let mut pix = None;
        for e in els {
            if e.tag == (0x7FE0, 0x0010) {
                pix = Some(e.clone());
            } else {
                rest.push(e.clone());
            }
        }
        (rest, pix)
    };
    let (got_head, got_pix) = split(&got);
    if dsx::canon(&got_head, implicit) != dsx::canon(&f.head, implicit) {
        return Err(("dataset-differs", json!({ "file": dsx::show(&f.head), "sent": dsx::show(&got_head) })));
    }
    let Some(got_pix) = got_pix else {
        return Err(("pixel-data-missing", json!({ "sent": dsx::show(&got_head) })));
    };
    let even = |b: &[u8]| {
        let mut b = b.to_vec();
        if b.len() % 2 == 1 {
            b.push(0);
        }
        b
    };
    if wire_ts == f.kind.ts || !native(wire_ts) {
        // same syntax: the element must be what the file holds
        let a = dsx::canon(&[got_pix.clone()], true);
        let b = dsx::canon(&[f.pixel_elem.clone()], true);
        if a != b {
            return Err(("pixel-data-differs", json!({ "file": dsx::show(&[f.pixel_elem.clone()]), "sent": dsx::show(&[got_pix]) })));
        }
    } else {
        // native syntax on the wire: the decoded samples
        let want = f.native_pixels.as_ref().map(|p| even(p));
        match (&got_pix.val, want) {
            (RVal::Prim(b), Some(w)) if *b == w => {}
            (v, w) => {
                return Err((
                    "pixel-data-differs",
                    json!({ "expected_native_bytes": w.map(|w| w.len()), "sent": dsx::show(&[RElem { tag: got_pix.tag, vr: got_pix.vr, val: v.clone() }]) }),
                ))
            }
        }
    }
    Ok(())
}

fn run_case(l: &mut Attempt, check: &Check, c: &Case, dir: &Path, exe: &Path) {
    let verbose = check.verbose;
    let _ = std::fs::remove_dir_all(dir);
    std::fs::create_dir_all(dir).expect("case dir");
    let files: Vec<FileSpec> = c.kinds.iter().enumerate().map(|(n, k)| make_file(k, n)).collect();
    let names: Vec<String> = (0..files.len()).map(|n| format!("f{n}.dcm")).collect();
    for (f, n) in files.iter().zip(&names) {
        std::fs::write(dir.join(n), &f.bytes).expect("write file");
    }
    let accepted_set: Vec<(String, String)> = c.expected.iter().enumerate().filter(|(k, _)| c.mask >> k & 1 == 1).map(|(_, e)| e.clone()).collect();
    let class = |kind: &str, f: Option<&FileSpec>| {
        json!({
            "kind": kind,
            "path": match c.concurrency {
                None => "sync",
                Some(1) => "async",
                Some(_) => "async-2",
            },
            "never_transcode": c.never_transcode,
            "ignore_sop_class": c.ignore_sop_class,
            "files": c.kinds.len(),
            "file_ts": f.map(|f| ts_name(f.kind.ts)).unwrap_or("-"),
            "file_class": f.map(|f| class_name(f.kind.class)).unwrap_or("-"),
            "file_size": f.map(|f| if f.kind.big { "big" } else { "small" }).unwrap_or("-"),
            "own_class_context_accepted": f.map(|f| accepted_set.iter().any(|(a, _)| a == f.kind.class)).unwrap_or(false),
            "other_class_implicit_le_accepted": f.map(|f| accepted_set.iter().any(|(a, t)| a != f.kind.class && t == ILE)).unwrap_or(false),
        })
    };
    let base_detail = |info: Value| {
        json!({ "files": c.kinds.iter().map(|k| k.name()).collect::<Vec<_>>(),
                "accepted_contexts": accepted_set.iter().map(|(a, t)| format!("{}/{}", class_name(a), ts_name(t))).collect::<Vec<_>>(),
                "rejected_contexts": c.expected.iter().filter(|e| !accepted_set.contains(e)).map(|(a, t)| format!("{}/{}", class_name(a), ts_name(t))).collect::<Vec<_>>(),
                "info": info })
    };

    let listener = TcpListener::bind(("127.0.0.1", 0)).expect("bind");
    listener.set_nonblocking(true).expect("nonblocking");
    let port = listener.local_addr().unwrap().port();
    let addr = format!("VX-SCP@127.0.0.1:{port}");
    let mut args: Vec<&str> = vec![addr.as_str()];
    for n in &names {
        args.push(n);
    }
    args.push("--verbose");
    if c.never_transcode {
        args.push("--never-transcode");
    }
    if c.ignore_sop_class {
        args.push("--ignore-sop-class");
    }
    let conc = c.concurrency.map(|n| n.to_string());
    if let Some(n) = &conc {
        args.extend(["--concurrency", n.as_str()]);
    }
    let log = dir.join("storescu.log");
    let mut p = proc::spawn(exe, &args, dir, if verbose { Out::Inherit } else { Out::File(&log) }).expect("spawn storescu");

    // accept every connection the tool makes (one per association), each served by its own thread, until
    // the tool exits
    let t0 = Instant::now();
    let acc = |a: &str, t: &str| accepted_set.iter().any(|(x, y)| x == a && y == t);
    let mut overran = false;
    let sessions: Vec<Session> = std::thread::scope(|sc| {
        let mut handles = vec![];
        let mut nap = Duration::from_micros(200);
        let mut exited_seen = false;
        loop {
            match listener.accept() {
                Ok((s, _)) => {
                    s.set_nonblocking(false).expect("blocking");
                    let acc = &acc;
                    handles.push(sc.spawn(move || serve(s, acc, verbose)));
                    nap = Duration::from_micros(200);
                }
                Err(e) if e.kind() == std::io::ErrorKind::WouldBlock => {
                    if exited_seen || t0.elapsed() > Duration::from_secs(60) {
                        break;
                    }
                    if p.exited().is_some() {
                        exited_seen = true; // one more look at the backlog
                        continue;
                    }
                    std::thread::sleep(nap);
                    nap = (nap * 2).min(Duration::from_millis(4));
                }
                Err(_) => break,
            }
        }
        if !exited_seen {
            overran = true;
            p.kill(); // unblocks the serving threads
        }
        handles.into_iter().filter_map(|h| h.join().ok()).collect()
    });
    let status = proc::status_of(p.wait_deadline(Duration::from_secs(15)));
    p.kill();
    drop(listener);

    if sessions.is_empty() {
        l.outcome("tool-did-not-connect");
        l.fail_transient(class("tool-did-not-connect", None), base_detail(json!({ "status": status.describe(), "output": read_log(&log) })));
        return;
    }
    let ends: Vec<String> = sessions.iter().map(|s| s.end.clone()).collect();
    if sessions.iter().any(|s| s.timed_out) {
        l.outcome("FAIL-no-pdu-within-limit");
        l.fail_transient(class("tool-silent-beyond-limit", None), base_detail(json!({ "limit_s": IO_LIMIT.as_secs(), "stores_received": sessions.iter().map(|s| s.stores.len()).sum::<usize>(), "output": read_log(&log) })));
        return;
    }
    if status == proc::Ran::Timeout || overran {
        l.outcome("FAIL-timeout");
        l.fail_transient(class("tool-timeout", None), base_detail(json!({ "session_end": ends, "output": read_log(&log) })));
        return;
    }
    if sessions.len() != c.concurrency.unwrap_or(1) {
        l.outcome("FAIL-association-count");
        l.fail(class("association-count", None), base_detail(json!({ "associations": sessions.len(), "expected": c.concurrency.unwrap_or(1), "output": read_log(&log) })));
        return;
    }
    // the harness's model of the proposal must be what the tool proposed, else "every policy" is not what was run
    for ses in &sessions {
        let mut proposed: Vec<(String, String)> = ses.proposed.iter().flat_map(|p| p.ts.iter().map(move |t| (p.abs.clone(), t.clone()))).collect();
        proposed.sort();
        if proposed != c.expected || ses.proposed.iter().any(|p| p.ts.len() != 1) {
            check.machinery_error(&format!("case {}: the tool proposed {:?}, the harness expected {:?}", c.id, proposed, c.expected));
            return;
        }
    }
    l.nontrivial = true;
    let protocol_errors: Vec<String> = sessions.iter().flat_map(|s| s.protocol_errors.clone()).collect();
    if !protocol_errors.is_empty() {
        l.outcome("FAIL-protocol");
        l.fail(class("protocol", None), base_detail(json!({ "errors": protocol_errors, "output": read_log(&log) })));
        return;
    }

    // every received store: context accepted, abstract syntax = file's SOP class, bytes decode to the file's data set
    let mut sent_count = vec![0usize; files.len()];
    let stores: Vec<(&Received, Option<&(String, String)>)> = sessions.iter().flat_map(|s| s.stores.iter().map(move |r| (r, s.accepted.get(&r.pc)))).collect();
    for (r, ctx) in stores.iter().copied() {
        let inst = r.cmd.sop_instance.clone().unwrap_or_default();
        let Some(fi) = files.iter().position(|f| f.instance == inst) else {
            l.outcome("FAIL-unknown-instance");
            l.fail(class("unknown-instance", None), base_detail(json!({ "affected_sop_instance_uid": inst })));
            return;
        };
        let f = &files[fi];
        sent_count[fi] += 1;
        let info = |extra: Value| {
            base_detail(json!({ "file": f.kind.name(), "sent_on_context_id": r.pc,
                "context": ctx.map(|(a, t)| format!("{}/{}", class_name(a), ts_name(t))), "data_pdvs": r.data_pdvs, "extra": extra }))
        };
        let verdict: Option<(&str, Value)> = if r.cmd.field != Some(1) || r.cmd.data_set_type == Some(0x0101) {
            Some(("command-fields", json!(format!("{:?}", r.cmd))))
        } else if r.cmd_pc != r.pc {
            Some(("command-and-data-on-different-contexts", json!({ "command_pc": r.cmd_pc, "data_pc": r.pc })))
        } else if ctx.is_none() {
            Some(("context-not-accepted", json!(null)))
        } else if !c.ignore_sop_class && ctx.unwrap().0 != f.kind.class {
            Some(("wrong-abstract-syntax", json!({ "file_sop_class": f.kind.class, "context_abstract_syntax": ctx.unwrap().0 })))
        } else if r.cmd.sop_class.as_deref() != Some(f.kind.class) {
            Some(("command-sop-class", json!({ "file_sop_class": f.kind.class, "affected_sop_class_uid": r.cmd.sop_class })))
        } else if sent_count[fi] > 1 {
            Some(("file-sent-twice", json!(null)))
        } else {
            compare_data(f, &ctx.unwrap().1, &r.data).err()
        };
        if let Some((kind, extra)) = verdict {
            l.outcome(&format!("FAIL-{kind}"));
            l.fail(class(kind, Some(f)), info(extra));
            return;
        }
    }
    // files that were not sent must be the ones without an admissible context
    for (fi, f) in files.iter().enumerate() {
        let admissible = accepted_set.iter().any(|(a, t)| {
            (c.ignore_sop_class || a == f.kind.class) && (t == f.kind.ts || (native(t) && native(f.kind.ts)) || (!c.never_transcode && native(t) && f.native_pixels.is_some()))
        });
        if admissible && sent_count[fi] == 0 {
            l.outcome("FAIL-unsent-although-admissible");
            l.fail(class("unsent-although-admissible", Some(f)), base_detail(json!({ "file": f.kind.name(), "session_end": ends, "status": status.describe(), "output": read_log(&log) })));
            return;
        }
        if !admissible && sent_count[fi] > 0 {
            // sent correctly (checked above) although the harness model saw no admissible context
            check.machinery_error(&format!("case {}: {} was sent correctly but the admissibility model says it could not be", c.id, f.kind.name()));
            return;
        }
    }
    let sent: usize = sent_count.iter().sum();
    let transcoded = stores.iter().filter(|(r, ctx)| {
        let f = files.iter().find(|f| Some(&f.instance) == r.cmd.sop_instance.as_ref()).unwrap();
        ctx.map(|(_, t)| t != f.kind.ts).unwrap_or(false)
    }).count();
    let other_class = stores.iter().filter(|(r, ctx)| {
        let f = files.iter().find(|f| Some(&f.instance) == r.cmd.sop_instance.as_ref()).unwrap();
        ctx.map(|(a, _)| a != f.kind.class).unwrap_or(false)
    }).count();
    let chunked = stores.iter().any(|(r, _)| r.data_pdvs > 1);
    let name = if accepted_set.is_empty() {
        "nothing-accepted-nothing-sent".to_string()
    } else {
        format!("sent-{sent}-of-{}{}{}", files.len(), if transcoded > 0 { "-transcoded" } else { "" }, if chunked { "-chunked" } else { "" })
            + if other_class > 0 { "-on-other-class-context-as-ignore-sop-class-allows" } else { "" }
    };
    l.outcome_with(&name, || json!({ "case": c.id, "session_end": ends, "status": status.describe() }));
}

fn main() {
    let check = Check::from_args("C33", Level::Exploration);
    check.set_rule(
        "file sets: every single file over SOP class {CT, MR} x transfer syntax {Implicit LE, Explicit LE, RLE Lossless (decodable), encapsulated uncompressed; thorough: + an opaque MPEG2 stub} (x {small 2x2, big 40x32} thorough), \
         pairs (small file, big file): quick 5 chosen pairs, thorough every ordered pair of (class, syntax) in both size orders, thorough + 3 triples; \
         x {default, --never-transcode} x {synchronous, --concurrency 1} (quick: singles default/sync + never/async, pairs default on both paths + never/sync); acceptor policies = EVERY subset of the presentation contexts the tool proposes (each proposes one syntax), \
         which includes 'only Implicit LE of the other SOP class'; \
         family opts: file sets of two SOP classes (quick 2, thorough 5) x the full cross {sync, --concurrency 1, --concurrency 2} x {no flag, --never-transcode, --ignore-sop-class, both} x acceptor policies (quick: accept all, refuse one class entirely (each), only Implicit LE of the other class; the second file set only on the async paths with exactly one flag; thorough: every subset), all associations of a run served concurrently. One tool process per case; distinct by case id; non-trivial = the association request was received and matched the expected proposal",
    );
    check.assume("vx-ref data set codec/strict parser, the PDU/DIMSE codec and the PackBits encoder of this crate (PS3.5 Annex G) are the trusted base");
    check.assume("--ignore-sop-class is documented as 'ignore SOP class in presentation context selection': with it a file may travel on an accepted context of any abstract syntax (the command still names the file's SOP class), the transfer syntax rules are unchanged");
    check.assume("admissible context for a file = accepted, abstract syntax = the file's SOP class (any with --ignore-sop-class), and transfer syntax = the file's own, or both uncompressed, or (unless --never-transcode) an uncompressed one the tool offers to transcode a decodable file into");
    let exe = vx_tools::tool_path("dicom-storescu");
    let scratch = check.scratch_dir();
    let cases = build_cases(&check);
    check.extra("universe", json!({ "cases": cases.len(), "acceptor_max_pdu": ACCEPTOR_MAX_PDU }));
    let n = cases.len() as u64;
    check.par_range(n, |l, k| {
        let i = (k + l.check.seed) % n;
        let c = &cases[i as usize];
        if !l.want(&c.id) {
            return;
        }
        let dir = scratch.join(format!("c{i}"));
        let chk = l.check;
        vx_tools::run_with_retries(l, &c.id, 3, |a| run_case(a, chk, c, &dir, &exe));
        let _ = std::fs::remove_dir_all(&dir);
    });
    let _ = std::fs::remove_dir_all(&scratch);
    check.finish();
}
