//! Finite-universe combinators. All orders are stable, simplest first.

/// All compositions of n (ordered lists of positive integers summing to n); 2^(n-1) of them, n>=1.
/// For n == 0 returns one empty composition.
pub fn compositions(n: usize) -> Vec<Vec<usize>> {
    if n == 0 {
        return vec![vec![]];
    }
    let mut out = Vec::with_capacity(1 << (n - 1));
    for mask in 0u64..(1u64 << (n - 1)) {
        let mut parts = vec![];
        let mut cur = 1;
        for bit in 0..(n - 1) {
            if mask & (1 << bit) != 0 {
                parts.push(cur);
                cur = 1;
            } else {
                cur += 1;
            }
        }
        parts.push(cur);
        out.push(parts);
    }
    out.sort_by_key(|p| p.len());
    out
}

/// All subsets of {1..len-1} (cut positions strictly inside a buffer of `len` bytes) with at most k cuts.
pub fn cut_sets(len: usize, k: usize) -> Vec<Vec<usize>> {
    let mut out = vec![vec![]];
    if len < 2 {
        return out;
    }
    fn rec(start: usize, len: usize, k: usize, cur: &mut Vec<usize>, out: &mut Vec<Vec<usize>>) {
        if k == 0 {
            return;
        }
        for p in start..len {
            cur.push(p);
            out.push(cur.clone());
            rec(p + 1, len, k - 1, cur, out);
            cur.pop();
        }
    }
    rec(1, len, k, &mut vec![], &mut out);
    out.sort_by_key(|c| c.len());
    out
}

/// Turn cut positions into segment lengths.
pub fn cuts_to_segments(len: usize, cuts: &[usize]) -> Vec<usize> {
    let mut segs = vec![];
    let mut prev = 0;
    for &c in cuts {
        segs.push(c - prev);
        prev = c;
    }
    segs.push(len - prev);
    segs
}

/// All subsets of 0..n with at most k elements (ascending), smallest first.
pub fn subsets_up_to(n: usize, k: usize) -> Vec<Vec<usize>> {
    let mut out = vec![vec![]];
    fn rec(start: usize, n: usize, k: usize, cur: &mut Vec<usize>, out: &mut Vec<Vec<usize>>) {
        if k == 0 {
            return;
        }
        for p in start..n {
            cur.push(p);
            out.push(cur.clone());
            rec(p + 1, n, k - 1, cur, out);
            cur.pop();
        }
    }
    rec(0, n, k, &mut vec![], &mut out);
    out.sort_by_key(|c| c.len());
    out
}

/// All words of length <= max_len over an alphabet of `a` letters (as index vectors), shortest first.
pub fn words(a: usize, max_len: usize) -> Vec<Vec<usize>> {
    let mut out = vec![vec![]];
    let mut layer = vec![vec![]];
    for _ in 0..max_len {
        let mut next = Vec::with_capacity(layer.len() * a);
        for w in &layer {
            for x in 0..a {
                let mut w2: Vec<usize> = w.clone();
                w2.push(x);
                next.push(w2);
            }
        }
        out.extend(next.iter().cloned());
        layer = next;
    }
    out
}

/// Mixed-radix decode: index -> digits for the given radices (first radix is least significant).
pub fn unrank(mut idx: u64, radices: &[u64]) -> Vec<u64> {
    let mut out = Vec::with_capacity(radices.len());
    for &r in radices {
        out.push(idx % r);
        idx /= r;
    }
    out
}

pub fn product_size(radices: &[u64]) -> u64 {
    radices.iter().product()
}

#[cfg(test)]
mod tests {
    use super::*;
    #[test]
    fn comp() {
        assert_eq!(compositions(4).len(), 8);
        assert!(compositions(4).iter().all(|c| c.iter().sum::<usize>() == 4));
        assert_eq!(cut_sets(4, 3).len(), 8);
        assert_eq!(cut_sets(5, 1).len(), 5);
        assert_eq!(cuts_to_segments(5, &[2, 3]), vec![2, 1, 2]);
        assert_eq!(subsets_up_to(4, 2).len(), 1 + 4 + 6);
        assert_eq!(words(2, 3).len(), 1 + 2 + 4 + 8);
    }
}
