//! Scripted synchronous transports. Every answer is an explorer choice (choice 0 = default answer).

use crate::explore::Ctx;
use std::io::{self, Read, Write};
use std::sync::{Arc, Mutex};

/// Reader that delivers a fixed byte string in explorer-chosen segments.
/// Menu at each read with `avail` bytes available and a caller buffer of `cap`:
/// 0: as much as fits; 1: one byte; 2: half (if different). EOF when exhausted.
pub struct ScriptRead {
    pub data: Vec<u8>,
    pub pos: usize,
    pub ctx: Option<Ctx>,
    pub calls: usize,
    /// fixed segmentation (used instead of ctx when set): remaining segment lengths
    pub segments: Option<Vec<usize>>,
    /// fail with an io::Error at this call index
    pub fail_at_call: Option<usize>,
    /// fail once this many bytes have been delivered
    pub fail_after_bytes: Option<usize>,
}

impl ScriptRead {
    pub fn whole(data: Vec<u8>) -> Self {
        ScriptRead { data, pos: 0, ctx: None, calls: 0, segments: None, fail_at_call: None, fail_after_bytes: None }
    }
    pub fn segmented(data: Vec<u8>, segments: Vec<usize>) -> Self {
        ScriptRead { segments: Some(segments), ..Self::whole(data) }
    }
    pub fn explored(data: Vec<u8>, ctx: Ctx) -> Self {
        ScriptRead { ctx: Some(ctx), ..Self::whole(data) }
    }
}

impl Read for ScriptRead {
    fn read(&mut self, buf: &mut [u8]) -> io::Result<usize> {
        let call = self.calls;
        self.calls += 1;
        if self.fail_at_call == Some(call) {
            return Err(io::Error::new(io::ErrorKind::Other, "injected read fault"));
        }
        if let Some(b) = self.fail_after_bytes {
            if self.pos >= b {
                return Err(io::Error::new(io::ErrorKind::Other, "injected read fault"));
            }
        }
        let mut avail = self.data.len() - self.pos;
        if let Some(b) = self.fail_after_bytes {
            avail = avail.min(b - self.pos);
        }
        if avail == 0 || buf.is_empty() {
            return Ok(0);
        }
        let mut k = avail.min(buf.len());
        if let Some(segs) = &mut self.segments {
            while let Some(&0) = segs.first() {
                segs.remove(0);
            }
            if let Some(first) = segs.first_mut() {
                k = k.min(*first);
                *first -= k;
            }
        } else if let Some(ctx) = &self.ctx {
            let mut menu = vec![k];
            if k > 1 {
                menu.push(1);
            }
            if k / 2 > 1 {
                menu.push(k / 2);
            }
            k = menu[ctx.choose(menu.len())];
        }
        buf[..k].copy_from_slice(&self.data[self.pos..self.pos + k]);
        self.pos += k;
        Ok(k)
    }
}

#[derive(Clone, Copy, Debug, PartialEq, Eq)]
pub enum WriteFault {
    /// return Err at this write/flush call index
    ErrAtCall(usize),
    /// accept exactly this many bytes in total, then Err
    ErrAfterBytes(usize),
    /// return Ok(0) at this call index
    ZeroAtCall(usize),
}

/// Writer that records everything it accepted and can inject one fault.
#[derive(Clone)]
pub struct ScriptWrite {
    pub out: Arc<Mutex<Vec<u8>>>,
    pub calls: Arc<Mutex<usize>>,
    pub fault: Option<WriteFault>,
    pub faulted: Arc<Mutex<bool>>,
    /// max bytes accepted per call (None = all)
    pub max_per_call: Option<usize>,
}

impl ScriptWrite {
    pub fn new(fault: Option<WriteFault>) -> Self {
        ScriptWrite {
            out: Arc::new(Mutex::new(vec![])),
            calls: Arc::new(Mutex::new(0)),
            fault,
            faulted: Arc::new(Mutex::new(false)),
            max_per_call: None,
        }
    }
    pub fn bytes(&self) -> Vec<u8> {
        self.out.lock().unwrap().clone()
    }
    pub fn call_count(&self) -> usize {
        *self.calls.lock().unwrap()
    }
    pub fn fault_fired(&self) -> bool {
        *self.faulted.lock().unwrap()
    }
    fn next_call(&self) -> usize {
        let mut c = self.calls.lock().unwrap();
        let v = *c;
        *c += 1;
        v
    }
}

impl Write for ScriptWrite {
    fn write(&mut self, buf: &[u8]) -> io::Result<usize> {
        let call = self.next_call();
        let mut n = buf.len();
        if let Some(m) = self.max_per_call {
            n = n.min(m.max(1));
        }
        match self.fault {
            Some(WriteFault::ErrAtCall(c)) if c == call => {
                *self.faulted.lock().unwrap() = true;
                return Err(io::Error::new(io::ErrorKind::Other, "injected write fault"));
            }
            Some(WriteFault::ZeroAtCall(c)) if c == call && !buf.is_empty() => {
                *self.faulted.lock().unwrap() = true;
                return Ok(0);
            }
            Some(WriteFault::ErrAfterBytes(b)) => {
                let have = self.out.lock().unwrap().len();
                if have >= b {
                    if buf.is_empty() {
                        return Ok(0);
                    }
                    *self.faulted.lock().unwrap() = true;
                    return Err(io::Error::new(io::ErrorKind::Other, "injected write fault"));
                }
                n = n.min(b - have);
            }
            _ => {}
        }
        self.out.lock().unwrap().extend_from_slice(&buf[..n]);
        Ok(n)
    }
    fn flush(&mut self) -> io::Result<()> {
        let call = self.next_call();
        if let Some(WriteFault::ErrAtCall(c)) = self.fault {
            if c == call {
                *self.faulted.lock().unwrap() = true;
                return Err(io::Error::new(io::ErrorKind::Other, "injected flush fault"));
            }
        }
        Ok(())
    }
}

/// Read wrapper counting bytes handed out.
pub struct CountingRead<R> {
    pub inner: R,
    pub count: Arc<Mutex<u64>>,
}
impl<R: Read> Read for CountingRead<R> {
    fn read(&mut self, buf: &mut [u8]) -> io::Result<usize> {
        let n = self.inner.read(buf)?;
        *self.count.lock().unwrap() += n as u64;
        Ok(n)
    }
}
