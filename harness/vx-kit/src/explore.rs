//! Choice-stack explorer: stateless depth-first enumeration by re-execution.
//!
//! The subject calls `ctx.choose(n)` at every nondeterministic point. Choice 0 is the default
//! environment answer; any other choice costs one *deviation*. `ctx.choose_free(n)` enumerates
//! without cost (plain input enumeration). All executions with at most `bound` deviations are run.

use std::sync::{Arc, Mutex};

#[derive(Clone, Copy, Debug, PartialEq, Eq)]
pub struct Point {
    pub n: usize,
    pub chosen: usize,
    pub costly: bool,
}

#[derive(Default)]
struct Inner {
    prefix: Vec<Point>,
    trace: Vec<Point>,
    diverged: Option<String>,
    max_points: usize,
}

/// Handle given to the subject (cloneable; transports keep one).
#[derive(Clone)]
pub struct Ctx(Arc<Mutex<Inner>>);

impl Ctx {
    fn pick(&self, n: usize, costly: bool) -> usize {
        assert!(n >= 1, "choose(0)");
        let mut g = self.0.lock().unwrap();
        let i = g.trace.len();
        let chosen = if i < g.prefix.len() {
            let p = g.prefix[i];
            if p.n != n || p.costly != costly {
                g.diverged = Some(format!(
                    "replay divergence at point {i}: recorded n={} costly={}, now n={n} costly={costly}",
                    p.n, p.costly
                ));
                0
            } else {
                p.chosen
            }
        } else {
            0
        };
        if g.trace.len() >= g.max_points {
            g.diverged = Some(format!("more than {} choice points in one execution", g.max_points));
            return 0;
        }
        g.trace.push(Point { n, chosen, costly });
        chosen
    }
    /// environment answer: 0 is the default, anything else is one deviation
    pub fn choose(&self, n: usize) -> usize {
        self.pick(n, true)
    }
    /// input enumeration without deviation cost
    pub fn choose_free(&self, n: usize) -> usize {
        self.pick(n, false)
    }
    pub fn choices(&self) -> Vec<usize> {
        self.0.lock().unwrap().trace.iter().map(|p| p.chosen).collect()
    }
    pub fn deviations(&self) -> usize {
        self.0.lock().unwrap().trace.iter().filter(|p| p.costly && p.chosen != 0).count()
    }
}

#[derive(Default, Debug, Clone)]
pub struct ExploreStats {
    pub executions: u64,
    pub max_points: usize,
    pub total_points: u64,
    pub capped: bool,
}

/// Explore every execution of `f` with at most `bound` deviations (None = unbounded).
/// `max_exec` caps the number of executions (reported in `capped`).
/// Returns Err on replay divergence (a machinery error: the subject is not deterministic).
pub fn explore<F: FnMut(&Ctx)>(
    bound: Option<usize>,
    max_exec: u64,
    mut f: F,
) -> Result<ExploreStats, String> {
    let mut stats = ExploreStats::default();
    let mut stack: Vec<Vec<Point>> = vec![vec![]];
    while let Some(prefix) = stack.pop() {
        if stats.executions >= max_exec {
            stats.capped = true;
            break;
        }
        let plen = prefix.len();
        let ctx = Ctx(Arc::new(Mutex::new(Inner {
            prefix,
            trace: vec![],
            diverged: None,
            max_points: 100_000,
        })));
        f(&ctx);
        let g = ctx.0.lock().unwrap();
        if let Some(d) = &g.diverged {
            return Err(d.clone());
        }
        if g.trace.len() < plen {
            return Err(format!(
                "replay divergence: execution ended after {} points, prefix had {plen}",
                g.trace.len()
            ));
        }
        stats.executions += 1;
        stats.max_points = stats.max_points.max(g.trace.len());
        stats.total_points += g.trace.len() as u64;
        // schedule siblings of every point past the prefix (reverse so that DFS order is simplest-first)
        let mut dev_before: Vec<usize> = Vec::with_capacity(g.trace.len() + 1);
        let mut d = 0;
        for p in g.trace.iter() {
            dev_before.push(d);
            if p.costly && p.chosen != 0 {
                d += 1;
            }
        }
        for i in (plen..g.trace.len()).rev() {
            let p = g.trace[i];
            for alt in (1..p.n).rev() {
                let cost = dev_before[i] + usize::from(p.costly);
                if let Some(b) = bound {
                    if cost > b {
                        continue;
                    }
                }
                let mut np = g.trace[..i].to_vec();
                np.push(Point { n: p.n, chosen: alt, costly: p.costly });
                stack.push(np);
            }
        }
    }
    Ok(stats)
}

/// Re-run one recorded choice list.
pub fn replay<F: FnMut(&Ctx)>(choices: &[(usize, usize, bool)], mut f: F) -> Result<(), String> {
    let prefix = choices.iter().map(|&(n, chosen, costly)| Point { n, chosen, costly }).collect();
    let ctx = Ctx(Arc::new(Mutex::new(Inner { prefix, trace: vec![], diverged: None, max_points: 100_000 })));
    f(&ctx);
    let g = ctx.0.lock().unwrap();
    match &g.diverged {
        Some(d) => Err(d.clone()),
        None => Ok(()),
    }
}

#[cfg(test)]
mod tests {
    use super::*;
    #[test]
    fn counts() {
        // 3 binary costly points, bound 1 -> 1 + 3 executions
        let s = explore(Some(1), u64::MAX, |c| {
            for _ in 0..3 {
                c.choose(2);
            }
        })
        .unwrap();
        assert_eq!(s.executions, 4);
        let s = explore(None, u64::MAX, |c| {
            for _ in 0..3 {
                c.choose(2);
            }
        })
        .unwrap();
        assert_eq!(s.executions, 8);
        // free points are not bounded
        let s = explore(Some(0), u64::MAX, |c| {
            c.choose_free(3);
            c.choose(2);
        })
        .unwrap();
        assert_eq!(s.executions, 3);
    }
    #[test]
    fn dependent_points() {
        // number of later points depends on earlier choice
        let mut seen = std::collections::BTreeSet::new();
        explore(None, u64::MAX, |c| {
            let a = c.choose(3);
            let mut v = vec![a];
            for _ in 0..a {
                v.push(c.choose(2));
            }
            seen.insert(v);
        })
        .unwrap();
        assert_eq!(seen.len(), 1 + 2 + 4);
    }
}
