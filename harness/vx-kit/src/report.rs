use serde_json::{json, Map, Value};
use std::cell::RefCell;
use std::collections::{BTreeMap, HashSet};
use std::hash::{Hash, Hasher};
use std::panic::{catch_unwind, AssertUnwindSafe};
use std::path::PathBuf;
use std::sync::atomic::{AtomicU64, Ordering};
use std::sync::Mutex;
use std::time::Instant;

#[derive(Clone, Copy, PartialEq, Eq, Debug)]
pub enum Tier {
    Quick,
    Thorough,
}

#[derive(Clone, Copy, PartialEq, Eq, Debug)]
pub enum Level {
    Exploration,
    FaultEnumeration,
    ModelChecking,
}

impl Level {
    fn as_str(self) -> &'static str {
        match self {
            Level::Exploration => "exploration",
            Level::FaultEnumeration => "fault_enumeration",
            Level::ModelChecking => "model_checking",
        }
    }
}

thread_local! {
    static LAST_PANIC: RefCell<Option<String>> = const { RefCell::new(None) };
    static IN_GUARD: RefCell<u32> = const { RefCell::new(0) };
}

fn install_hook() {
    static ONCE: std::sync::Once = std::sync::Once::new();
    ONCE.call_once(|| {
        let default = std::panic::take_hook();
        std::panic::set_hook(Box::new(move |info| {
            let guarded = IN_GUARD.with(|g| *g.borrow() > 0);
            if guarded {
                let msg = if let Some(s) = info.payload().downcast_ref::<&str>() {
                    (*s).to_string()
                } else if let Some(s) = info.payload().downcast_ref::<String>() {
                    s.clone()
                } else {
                    "<non-string panic>".to_string()
                };
                let loc = info
                    .location()
                    .map(|l| format!("{}:{}", l.file(), l.line()))
                    .unwrap_or_default();
                LAST_PANIC.with(|p| *p.borrow_mut() = Some(format!("{msg} @ {loc}")));
            } else {
                default(info);
            }
        }));
    });
}

/// Run the subject under `catch_unwind`; a panic is returned as `Err(message @ file:line)`.
pub fn guard<T>(f: impl FnOnce() -> T) -> Result<T, String> {
    install_hook();
    IN_GUARD.with(|g| *g.borrow_mut() += 1);
    let r = catch_unwind(AssertUnwindSafe(f));
    IN_GUARD.with(|g| *g.borrow_mut() -= 1);
    r.map_err(|_| {
        LAST_PANIC
            .with(|p| p.borrow_mut().take())
            .unwrap_or_else(|| "<panic>".into())
    })
}

pub fn hash_of<T: Hash>(t: &T) -> u64 {
    #[allow(deprecated)]
    let mut h = std::hash::SipHasher::new();
    t.hash(&mut h);
    h.finish()
}

#[derive(Clone, Debug)]
struct Known {
    id: String,
    matcher: Map<String, Value>,
    witness: String,
}

#[derive(Default)]
struct State {
    nontrivial: HashSet<u64>,
    nontrivial_counted: u64,
    outcomes: BTreeMap<String, u64>,
    samples: Vec<Value>,
    outcome_samples: BTreeMap<String, Value>,
    violations: Vec<(String, Value, Value)>,
    violation_count: u64,
    known_hits: BTreeMap<String, (u64, Value)>,
    extra: Map<String, Value>,
    assumptions: Vec<String>,
    caps: Vec<String>,
    machinery_errors: Vec<String>,
}

pub struct Check {
    pub id: String,
    pub tier: Tier,
    pub seed: u64,
    pub level: Level,
    pub replay: Option<Value>,
    pub verbose: bool,
    rule: Mutex<String>,
    start: Instant,
    known: Vec<Known>,
    evaluations: AtomicU64,
    states: AtomicU64,
    transitions: AtomicU64,
    traces: AtomicU64,
    exhaustive: Mutex<bool>,
    st: Mutex<State>,
    verif_root: PathBuf,
}

const MAX_SAMPLES: usize = 4;
const MAX_VIOLATION_FILES: usize = 8;

impl Check {
    /// Parse `<tier>` / `--replay <file>` from argv (the `check` script passes them).
    pub fn from_args(id: &str, level: Level) -> Check {
        install_hook();
        let args: Vec<String> = std::env::args().collect();
        let mut tier = match std::env::var("VERIF_TIER").ok().as_deref() {
            Some("thorough") => Tier::Thorough,
            _ => Tier::Quick,
        };
        let mut replay = None;
        let mut verbose = std::env::var("VERIF_VERBOSE").is_ok();
        let mut i = 1;
        while i < args.len() {
            match args[i].as_str() {
                "quick" => tier = Tier::Quick,
                "thorough" => tier = Tier::Thorough,
                "--replay" => {
                    i += 1;
                    let p = args.get(i).expect("--replay needs a path");
                    let txt = std::fs::read_to_string(p)
                        .unwrap_or_else(|e| machinery(&format!("cannot read replay file {p}: {e}")));
                    let v: Value = serde_json::from_str(&txt)
                        .unwrap_or_else(|e| machinery(&format!("bad replay file {p}: {e}")));
                    replay = Some(v);
                    verbose = true;
                }
                "-v" => verbose = true,
                _ => {}
            }
            i += 1;
        }
        let seed = std::env::var("VERIF_SEED")
            .ok()
            .and_then(|s| s.parse().ok())
            .unwrap_or(0);
        let verif_root = PathBuf::from(
            std::env::var("VERIF_ROOT").unwrap_or_else(|_| "/verif".to_string()),
        );
        let known = load_known(&verif_root, id);
        Check {
            id: id.to_string(),
            tier,
            seed,
            level,
            replay,
            verbose,
            rule: Mutex::new(String::new()),
            start: Instant::now(),
            known,
            evaluations: AtomicU64::new(0),
            states: AtomicU64::new(0),
            transitions: AtomicU64::new(0),
            traces: AtomicU64::new(0),
            exhaustive: Mutex::new(true),
            st: Mutex::new(State::default()),
            verif_root,
        }
    }

    pub fn quick(&self) -> bool {
        self.tier == Tier::Quick
    }
    pub fn thorough(&self) -> bool {
        self.tier == Tier::Thorough
    }
    /// pick by tier
    pub fn pick<T>(&self, quick: T, thorough: T) -> T {
        if self.quick() { quick } else { thorough }
    }
    pub fn scratch_dir(&self) -> PathBuf {
        let d = self
            .verif_root
            .join("target/scratch")
            .join(format!("{}-{}", self.id, std::process::id()));
        let _ = std::fs::remove_dir_all(&d);
        std::fs::create_dir_all(&d).unwrap_or_else(|e| machinery(&format!("scratch: {e}")));
        d
    }
    pub fn verif_root(&self) -> &std::path::Path {
        &self.verif_root
    }

    pub fn set_rule(&self, rule: &str) {
        *self.rule.lock().unwrap() = rule.to_string();
    }
    pub fn assume(&self, a: &str) {
        self.st.lock().unwrap().assumptions.push(a.to_string());
    }
    /// Record that a cap cut the universe: the run is then not exhaustive.
    pub fn cap(&self, c: &str) {
        self.st.lock().unwrap().caps.push(c.to_string());
        *self.exhaustive.lock().unwrap() = false;
    }
    pub fn extra(&self, k: &str, v: Value) {
        self.st.lock().unwrap().extra.insert(k.to_string(), v);
    }
    pub fn add_states(&self, n: u64) {
        self.states.fetch_add(n, Ordering::Relaxed);
    }
    pub fn add_transitions(&self, n: u64) {
        self.transitions.fetch_add(n, Ordering::Relaxed);
    }
    pub fn add_traces(&self, n: u64) {
        self.traces.fetch_add(n, Ordering::Relaxed);
    }
    pub fn machinery_error(&self, m: &str) {
        self.st.lock().unwrap().machinery_errors.push(m.to_string());
    }

    /// In replay mode only the recorded case id is wanted.
    pub fn want(&self, case_id: &str) -> bool {
        match &self.replay {
            None => true,
            Some(v) => v.get("case_id").and_then(|c| c.as_str()) == Some(case_id),
        }
    }
    pub fn replaying(&self) -> bool {
        self.replay.is_some()
    }

    pub fn local(&self) -> Local<'_> {
        Local {
            check: self,
            evaluations: 0,
            nontrivial: HashSet::new(),
            nontrivial_counted: 0,
            outcomes: BTreeMap::new(),
        }
    }

    /// Run `f(local, i)` for every i in 0..n on all cores. A panic escaping `f` is a machinery error.
    pub fn par_range<F>(&self, n: u64, f: F)
    where
        F: Fn(&mut Local<'_>, u64) + Sync,
    {
        let threads = std::env::var("VERIF_THREADS")
            .ok()
            .and_then(|s| s.parse().ok())
            .unwrap_or_else(|| {
                std::thread::available_parallelism().map(|n| n.get()).unwrap_or(4)
            })
            .max(1);
        let next = AtomicU64::new(0);
        let chunk = (n / (threads as u64 * 64)).clamp(1, 4096);
        std::thread::scope(|s| {
            for _ in 0..threads {
                s.spawn(|| {
                    let mut local = self.local();
                    loop {
                        let lo = next.fetch_add(chunk, Ordering::Relaxed);
                        if lo >= n {
                            break;
                        }
                        let hi = (lo + chunk).min(n);
                        for i in lo..hi {
                            let r = catch_unwind(AssertUnwindSafe(|| f(&mut local, i)));
                            if r.is_err() {
                                self.machinery_error(&format!(
                                    "harness panic outside guard at index {i}"
                                ));
                            }
                        }
                    }
                });
            }
        });
    }

    fn classify(&self, class: &Value) -> Option<&Known> {
        self.known.iter().find(|k| {
            k.matcher.iter().all(|(key, want)| {
                let got = class.get(key);
                match (got, want) {
                    (Some(g), Value::Array(alts)) => alts.iter().any(|a| a == g),
                    (Some(g), w) => g == w,
                    (None, _) => false,
                }
            })
        })
    }

    /// Record a failing case. `class` is the descriptor matched against known findings.
    pub fn fail(&self, case_id: &str, class: Value, detail: Value) {
        if self.verbose {
            eprintln!("FAIL case={case_id} class={class} detail={detail}");
        }
        let mut st = self.st.lock().unwrap();
        if let Ok(p) = std::env::var("VERIF_DUMP_FAILS") {
            use std::io::Write;
            if let Ok(mut f) = std::fs::OpenOptions::new().create(true).append(true).open(p) {
                let known = self.classify(&class).map(|k| k.id.clone());
                let _ = writeln!(f, "{}", json!({"case_id": case_id, "class": class, "detail": detail, "known": known}));
            }
        }
        if let Some(k) = self.classify(&class) {
            let e = st
                .known_hits
                .entry(k.id.clone())
                .or_insert((0, json!({"case_id": case_id, "class": class, "detail": detail})));
            e.0 += 1;
        } else {
            st.violation_count += 1;
            if st.violations.len() < MAX_VIOLATION_FILES {
                st.violations.push((case_id.to_string(), class, detail));
            }
        }
    }

    pub fn sample(&self, v: Value) {
        let mut st = self.st.lock().unwrap();
        if st.samples.len() < MAX_SAMPLES {
            st.samples.push(v);
        }
    }

    /// Write evidence, print finding/violation lines, exit.
    pub fn finish(self) -> ! {
        let wall = self.start.elapsed().as_secs_f64();
        let st = self.st.into_inner().unwrap();
        let evaluations = self.evaluations.load(Ordering::Relaxed);
        let nontrivial = st.nontrivial.len() as u64 + st.nontrivial_counted;
        let exhaustive = *self.exhaustive.lock().unwrap();

        if self.replay.is_some() {
            // replay mode: verdict only
            let failed = st.violation_count > 0 || !st.known_hits.is_empty();
            for (id, (n, w)) in &st.known_hits {
                println!("REPLAY known-finding {id} hits={n} {w}");
            }
            for (cid, class, detail) in &st.violations {
                println!("REPLAY failure case={cid} class={class} detail={detail}");
            }
            if evaluations == 0 {
                eprintln!("replay: case id not found in this universe/tier");
                std::process::exit(2);
            }
            println!("replay: evaluations={evaluations} failed={failed}");
            std::process::exit(if failed { 1 } else { 0 });
        }

        let mut samples = st.samples.clone();
        for (o, s) in &st.outcome_samples {
            if samples.len() < 8 {
                samples.push(json!({"outcome": o, "case": s}));
            }
        }
        let mut cov = Map::new();
        cov.insert("evaluations".into(), json!(evaluations));
        cov.insert("distinct_nontrivial".into(), json!(nontrivial));
        cov.insert("rule".into(), json!(*self.rule.lock().unwrap()));
        cov.insert("samples".into(), Value::Array(samples));
        cov.insert("exhaustive".into(), json!(exhaustive));
        cov.insert("outcomes".into(), json!(st.outcomes));
        cov.insert("distinct_outcomes".into(), json!(st.outcomes.len()));
        if !st.caps.is_empty() {
            cov.insert("caps_hit".into(), json!(st.caps));
        }
        let states = self.states.load(Ordering::Relaxed);
        let transitions = self.transitions.load(Ordering::Relaxed);
        if self.level == Level::ModelChecking {
            cov.insert("states".into(), json!(states));
            cov.insert("transitions".into(), json!(transitions));
            cov.insert(
                "traces_validated_against_impl".into(),
                json!(self.traces.load(Ordering::Relaxed)),
            );
        }
        let mut known_list = vec![];
        for (id, (n, w)) in &st.known_hits {
            known_list.push(json!({"finding": id, "failing_cases": n, "first": w}));
        }
        cov.insert("known_findings_hit".into(), Value::Array(known_list));
        for (k, v) in st.extra {
            cov.insert(k, v);
        }
        let ev = json!({
            "property_id": self.id,
            "tier": if self.tier == Tier::Quick { "quick" } else { "thorough" },
            "seed": self.seed,
            "level": self.level.as_str(),
            "coverage": Value::Object(cov),
            "assumptions": st.assumptions,
            "wall_s": wall,
            "violations": st.violation_count,
        });
        let evdir = self.verif_root.join("evidence");
        let _ = std::fs::create_dir_all(&evdir);
        let evpath = evdir.join(format!("{}.json", self.id));
        std::fs::write(&evpath, serde_json::to_string_pretty(&ev).unwrap() + "\n")
            .unwrap_or_else(|e| machinery(&format!("cannot write evidence: {e}")));

        for k in &self.known {
            if let Some((n, _)) = st.known_hits.get(&k.id) {
                println!(
                    "KNOWN-FINDING: property={} {}: {} ({} failing cases in this run)",
                    self.id, k.id, k.witness, n
                );
            }
        }
        if !st.machinery_errors.is_empty() {
            for m in st.machinery_errors.iter().take(5) {
                eprintln!("MACHINERY: {m}");
            }
            std::process::exit(2);
        }
        if evaluations == 0 {
            eprintln!("MACHINERY: vacuous run (0 evaluations)");
            std::process::exit(2);
        }
        if self.level == Level::ModelChecking && (states == 0 || transitions == 0) {
            eprintln!("MACHINERY: model-checking run reported no states/transitions");
            std::process::exit(2);
        }
        if nontrivial < 2 {
            eprintln!("MACHINERY: vacuous run (distinct_nontrivial < 2)");
            std::process::exit(2);
        }
        let rdir = self.verif_root.join("replays").join(&self.id);
        if !st.violations.is_empty() {
            let _ = std::fs::create_dir_all(&rdir);
        }
        for (i, (cid, class, detail)) in st.violations.iter().enumerate() {
            let p = rdir.join(format!("{i}.json"));
            let body = json!({"property": self.id, "case_id": cid, "class": class, "detail": detail,
                "tier": if self.tier == Tier::Quick { "quick" } else { "thorough" }});
            let _ = std::fs::write(&p, serde_json::to_string_pretty(&body).unwrap() + "\n");
            println!("VIOLATION property={} replay={}", self.id, p.display());
        }
        println!(
            "{}: tier={:?} evaluations={} distinct_nontrivial={} outcomes={} known_classes={} violations={} wall={:.1}s exhaustive={}",
            self.id,
            self.tier,
            evaluations,
            nontrivial,
            st.outcomes.len(),
            st.known_hits.len(),
            st.violation_count,
            wall,
            exhaustive
        );
        std::process::exit(if st.violation_count > 0 { 1 } else { 0 });
    }
}

pub fn machinery(msg: &str) -> ! {
    eprintln!("MACHINERY: {msg}");
    std::process::exit(2);
}

fn load_known(root: &std::path::Path, prop: &str) -> Vec<Known> {
    // the committed file, plus per-check staging files under findings/ (merged into the former)
    let mut files = vec![root.join("known_findings.json")];
    if let Ok(rd) = std::fs::read_dir(root.join("findings")) {
        let mut extra: Vec<_> = rd.filter_map(|e| e.ok()).map(|e| e.path()).filter(|p| p.extension().map(|x| x == "json").unwrap_or(false)).collect();
        extra.sort();
        files.extend(extra);
    }
    let mut all = vec![];
    for p in files {
        let Ok(txt) = std::fs::read_to_string(&p) else { continue };
        let v: Value = serde_json::from_str(&txt)
            .unwrap_or_else(|e| machinery(&format!("{} does not parse: {e}", p.display())));
        all.extend(v.get("findings").and_then(|f| f.as_array()).cloned().unwrap_or_default());
    }
    let mut out = vec![];
    for f in all {
        if f.get("status").and_then(|s| s.as_str()) != Some("known") {
            continue;
        }
        let props: Vec<String> = match f.get("property") {
            Some(Value::String(s)) => vec![s.clone()],
            Some(Value::Array(a)) => a.iter().filter_map(|x| x.as_str().map(String::from)).collect(),
            _ => vec![],
        };
        if !props.iter().any(|p| p == prop) {
            continue;
        }
        let matcher = f.get("match").and_then(|m| m.as_object()).cloned().unwrap_or_default();
        if matcher.is_empty() {
            machinery("known finding with empty matcher");
        }
        out.push(Known {
            id: f.get("id").and_then(|s| s.as_str()).unwrap_or("?").to_string(),
            matcher,
            witness: f.get("witness").and_then(|s| s.as_str()).unwrap_or("").to_string(),
        });
    }
    out
}

/// Per-thread accumulator; merged into the check on drop.
pub struct Local<'a> {
    pub check: &'a Check,
    evaluations: u64,
    nontrivial: HashSet<u64>,
    nontrivial_counted: u64,
    outcomes: BTreeMap<String, u64>,
}

impl<'a> Local<'a> {
    pub fn eval(&mut self) {
        self.evaluations += 1;
    }
    pub fn evals(&mut self, n: u64) {
        self.evaluations += n;
    }
    /// a distinct non-trivial case identified by a hash of its descriptor
    pub fn nontrivial<T: Hash>(&mut self, key: &T) {
        self.nontrivial.insert(hash_of(key));
        if self.nontrivial.len() > 1 << 20 {
            self.flush();
        }
    }
    /// non-trivial cases that are distinct by construction of the enumeration (no hashing)
    pub fn nontrivial_distinct_by_construction(&mut self, n: u64) {
        self.nontrivial_counted += n;
    }
    pub fn outcome(&mut self, name: &str) {
        if let Some(c) = self.outcomes.get_mut(name) {
            *c += 1;
        } else {
            self.outcomes.insert(name.to_string(), 1);
        }
    }
    /// `n` cases with the same outcome (hot loops count per block and report once)
    pub fn outcome_n(&mut self, name: &str, n: u64) {
        if n == 0 {
            return;
        }
        if let Some(c) = self.outcomes.get_mut(name) {
            *c += n;
        } else {
            self.outcomes.insert(name.to_string(), n);
        }
    }
    /// outcome plus a sample kept for the first case of each outcome class
    pub fn outcome_with(&mut self, name: &str, case: impl FnOnce() -> Value) {
        if !self.outcomes.contains_key(name) {
            let mut st = self.check.st.lock().unwrap();
            if !st.outcome_samples.contains_key(name) {
                st.outcome_samples.insert(name.to_string(), case());
            }
        }
        self.outcome(name);
    }
    pub fn want(&self, case_id: &str) -> bool {
        self.check.want(case_id)
    }
    pub fn fail(&mut self, case_id: &str, class: Value, detail: Value) {
        self.check.fail(case_id, class, detail);
    }
    fn flush(&mut self) {
        let mut st = self.check.st.lock().unwrap();
        // beyond 4M distinct hashes, stop storing and count conservatively (only new ones seen here)
        for h in self.nontrivial.drain() {
            if st.nontrivial.len() < (1 << 22) {
                st.nontrivial.insert(h);
            }
        }
        st.nontrivial_counted += self.nontrivial_counted;
        self.nontrivial_counted = 0;
        for (k, v) in std::mem::take(&mut self.outcomes) {
            *st.outcomes.entry(k).or_insert(0) += v;
        }
        self.check.evaluations.fetch_add(self.evaluations, Ordering::Relaxed);
        self.evaluations = 0;
    }
}

impl Drop for Local<'_> {
    fn drop(&mut self) {
        self.flush();
    }
}
