//! vx-kit: the shared engine of every check.
//!
//! * `report`  — counters, known-finding matching, evidence and replay files, exit codes
//! * `explore` — choice-stack explorer with a deviation bound (stateless DFS by re-execution)
//! * `gen`     — finite-universe combinators (compositions, cut sets, products)
//! * `par`     — sharded parallel execution of an indexed universe
//! * `io`      — scripted in-memory transports whose answers are explorer choices
//!
//! No dicom-rs dependency on purpose.

pub mod explore;
pub mod gen;
pub mod io;
pub mod report;

pub use explore::{explore, Ctx, ExploreStats};
pub use report::{guard, hash_of, Check, Level, Local, Tier};
pub use serde_json::{json, Value};
