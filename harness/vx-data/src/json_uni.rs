//! Shared by C23 and C24: the data set universe for DICOM JSON, the comparison "equal up to the
//! documented normalisations", and the JSON grammar family.

#![allow(dead_code)]
use dicom_core::value::{PrimitiveValue, C};
use dicom_core::Tag;
use vx_data::*;
use vx_ref::ds::{RElem, RVal};

fn has_pix(nodes: &[Node]) -> bool {
    nodes.iter().any(|n| match n {
        Node::Pix { .. } => true,
        Node::Seq { items, .. } => items.iter().any(|i| has_pix(i)),
        Node::Prim(_) => false,
    })
}

fn extra(vr: &'static str, shape: &'static str, value: PrimitiveValue) -> Atom {
    // IS/DS held as numbers are decimal text
    let le = prim_canon_bytes(vr_of_str(vr), &value);
    Atom { tag: std_tag(vr), vr, value, le, shape, tclass: "std" }
}

/// Atoms beyond `atoms()`: non-finite and extreme floats, 64-bit integers around 2^31 and 2^53,
/// person names with 1-3 component groups, values without items held in typed variants, trailing
/// padding.
pub fn extra_atoms() -> Vec<Atom> {
    use PrimitiveValue as P;
    let strs = |v: &[&str]| P::Strs(v.iter().map(|s| s.to_string()).collect());
    let mut out = vec![
        extra("FL", "nan", P::F32(C::from_elem(f32::NAN, 1))),
        extra("FL", "inf", P::F32(C::from_vec(vec![f32::INFINITY, f32::NEG_INFINITY]))),
        extra("FL", "neg-zero", P::F32(C::from_elem(-0.0, 1))),
        extra("FL", "min-positive", P::F32(C::from_vec(vec![f32::MIN_POSITIVE, 0.1, 16777217.0]))),
        extra("FL", "mixed-nan", P::F32(C::from_vec(vec![1.0, f32::NAN, -2.5]))),
        extra("FD", "nan", P::F64(C::from_elem(f64::NAN, 1))),
        extra("FD", "inf", P::F64(C::from_vec(vec![f64::INFINITY, f64::NEG_INFINITY]))),
        extra("FD", "neg-zero", P::F64(C::from_elem(-0.0, 1))),
        extra("FD", "huge", P::F64(C::from_vec(vec![1e300, f32::MIN_POSITIVE as f64, 0.1, 5e-324]))),
        extra("OF", "nan", P::F32(C::from_vec(vec![f32::NAN, f32::INFINITY]))),
        extra("OD", "nan", P::F64(C::from_vec(vec![f64::NAN, 1e300]))),
        extra("UV", "2^53+1", P::U64(C::from_vec(vec![(1u64 << 53) + 1, u64::MAX]))),
        extra("UV", "i32-edge", P::U64(C::from_vec(vec![i32::MAX as u64, i32::MAX as u64 + 1, u32::MAX as u64]))),
        extra("SV", "min", P::I64(C::from_vec(vec![i64::MIN, (1i64 << 53) + 1, i64::MAX]))),
        extra("SV", "i32-edge", P::I64(C::from_vec(vec![i32::MIN as i64, i32::MIN as i64 - 1, i32::MAX as i64 + 1]))),
        extra("OV", "max", P::U64(C::from_vec(vec![u64::MAX, 1]))),
        extra("UL", "max", P::U32(C::from_vec(vec![u32::MAX, 0]))),
        extra("SL", "min", P::I32(C::from_vec(vec![i32::MIN, i32::MAX]))),
        extra("US", "max", P::U16(C::from_vec(vec![u16::MAX, 0]))),
        extra("SS", "min", P::I16(C::from_vec(vec![i16::MIN, i16::MAX]))),
        extra("PN", "one-group", P::Str("Doe^John^^Dr.".into())),
        extra("PN", "two-groups", P::Str("A^B=C^D".into())),
        extra("PN", "phonetic-only", P::Str("A^B==E".into())),
        extra("PN", "multi-groups", strs(&["A=B=C", "D"])),
        extra("IS", "num-u16", P::U16(C::from_vec(vec![0, 65535]))),
        extra("IS", "padded", P::Str(" 12 ".into())),
        extra("DS", "exp", P::Str("1.5E+2".into())),
        extra("DS", "num-f32", P::F32(C::from_vec(vec![0.5, -3.0]))),
        extra("DS", "num-big", P::F64(C::from_vec(vec![1e22, 1e-7]))),
        extra("LO", "trailing-space", P::Str("Ab ".into())),
        extra("LO", "empty-component", strs(&["A", ""])),
        extra("LO", "unicode", P::Str("Grüße \"q\" /u".into())),
        extra("UI", "trailing-nul", P::Str("1.2\0".into())),
        extra("AT", "three", P::Tags(C::from_vec(vec![Tag(0xFFFF, 0xFFFF), Tag(0, 0), Tag(0x00AB, 0xCDEF)]))),
        // values without items in typed variants
        extra("LO", "empty-strs", P::Strs(C::new())),
        extra("LO", "empty-str", P::Str(String::new())),
        extra("US", "empty-u16", P::U16(C::new())),
        extra("FD", "empty-f64", P::F64(C::new())),
        extra("OB", "empty-u8", P::U8(C::new())),
        extra("AT", "empty-tags", P::Tags(C::new())),
        extra("PN", "empty-strs", P::Strs(C::new())),
        extra("UV", "empty-u64", P::U64(C::new())),
    ];
    // an empty value among several values (PS3.5 6.4: `A\\B`, `\\B`, `A\\` are all legal), values made
    // only of padding, for every string VR that can be multi-valued; tokens fit the VR
    for (vr, a, b) in [
        ("AE", "A", "B"),
        ("AS", "012Y", "034M"),
        ("CS", "A", "B"),
        ("DA", "20200101", "19991231"),
        ("DS", "1.5", "2"),
        ("DT", "2020", "202101"),
        ("IS", "1", "23"),
        ("LO", "A", "B"),
        ("PN", "A^B", "C"),
        ("SH", "A", "B"),
        ("TM", "12", "1230"),
        ("UC", "A", "B"),
        ("UI", "1.2", "3.4"),
    ] {
        out.push(extra(vr, "multi-a-empty", strs(&[a, ""])));
        out.push(extra(vr, "multi-empty-b", strs(&["", b])));
        out.push(extra(vr, "multi-a-empty-b", strs(&[a, "", b])));
        out.push(extra(vr, "multi-empty-empty", strs(&["", ""])));
        out.push(extra(vr, "pad-only", P::Str(" ".into())));
        out.push(extra(vr, "zero-length-str", P::Str(String::new())));
    }
    // person names with empty component groups / components
    out.push(extra("PN", "empty-ideographic", P::Str("A==B".into())));
    out.push(extra("PN", "empty-alphabetic", P::Str("=A".into())));
    out.push(extra("PN", "empty-components", P::Str("A^^^^".into())));
    out.push(extra("PN", "multi-empty-groups", strs(&["A==B", "", "=C"])));
    // the same values inside a private and an unknown attribute (VR kept in JSON)
    let (p, u) = (out[0].clone(), out[11].clone());
    out.push(Atom { tag: (0x0009, 0x1007), tclass: "private", ..p });
    out.push(Atom { tag: (0x0012, 0x9921), tclass: "unknown", ..u });
    out
}

/// DS(1,0) ∪ DS_r(2,2) without encapsulated pixel data, plus the extra atoms alone and inside an
/// item; thorough adds DS(2,0).
pub fn universe(thorough: bool) -> Vec<Vec<Node>> {
    let mut u: Vec<Vec<Node>> = ds1().into_iter().filter(|n| !has_pix(n)).collect();
    for a in extra_atoms() {
        if let Some(n) = normalize(vec![Node::Prim(a.clone())]) {
            u.push(n);
        }
        if a.tclass == "std" {
            u.push(vec![Node::Seq { tag: SQ_STD, items: vec![vec![], vec![Node::Prim(a)]], tclass: "std" }]);
        }
    }
    u.extend(ds_nested(2).into_iter().filter(|n| !has_pix(n)));
    if thorough {
        u.extend(ds2().into_iter().filter(|n| !has_pix(n)));
        u.extend(ds_nested(3).into_iter().filter(|n| !has_pix(n)));
    }
    u
}

const TEXT_VRS: [&[u8; 2]; 17] = [b"AE", b"AS", b"CS", b"DA", b"DS", b"DT", b"IS", b"LO", b"LT", b"PN", b"SH", b"ST", b"TM", b"UC", b"UI", b"UR", b"UT"];

fn trim_pad(b: &[u8]) -> &[u8] {
    let mut e = b.len();
    while e > 0 && (b[e - 1] == b' ' || b[e - 1] == 0) {
        e -= 1;
    }
    &b[..e]
}

/// Equal up to the documented normalisations: trailing padding of text values removed, IS/DS
/// compared as numbers, everything else byte for byte; VRs and structure equal.
pub fn json_equal(want: &[RElem], got: &[RElem]) -> Result<(), (String, String)> {
    let e = |k: &str, m: String| Err((k.to_string(), m));
    if want.len() != got.len() || want.iter().zip(got).any(|(a, b)| a.tag != b.tag) {
        return e("attributes", format!("expected {:04X?} got {:04X?}", want.iter().map(|x| x.tag).collect::<Vec<_>>(), got.iter().map(|x| x.tag).collect::<Vec<_>>()));
    }
    for (w, g) in want.iter().zip(got) {
        if w.vr != g.vr {
            return e("vr", format!("{:04X?}: expected {} got {}", w.tag, String::from_utf8_lossy(&w.vr), String::from_utf8_lossy(&g.vr)));
        }
        match (&w.val, &g.val) {
            (RVal::Prim(a), RVal::Prim(b)) => {
                let ok = if &w.vr == b"IS" || &w.vr == b"DS" {
                    let pa: Vec<&[u8]> = if a.is_empty() { vec![] } else { a.split(|c| *c == b'\\').collect() };
                    let pb: Vec<&[u8]> = if b.is_empty() { vec![] } else { b.split(|c| *c == b'\\').collect() };
                    pa.len() == pb.len()
                        && pa.iter().zip(&pb).all(|(x, y)| {
                            let (sx, sy) = (String::from_utf8_lossy(x), String::from_utf8_lossy(y));
                            let (tx, ty) = (sx.trim_matches([' ', '\0']), sy.trim_matches([' ', '\0']));
                            match (tx.parse::<f64>(), ty.parse::<f64>()) {
                                (Ok(p), Ok(q)) => p == q || tx == ty,
                                _ => tx == ty,
                            }
                        })
                } else if TEXT_VRS.contains(&&w.vr) {
                    let pa: Vec<&[u8]> = a.split(|c| *c == b'\\').map(trim_pad).collect();
                    let pb: Vec<&[u8]> = b.split(|c| *c == b'\\').map(trim_pad).collect();
                    pa == pb
                } else {
                    a == b
                };
                if !ok {
                    return e("value", format!("{:04X?} {}: expected {:02X?} got {:02X?}", w.tag, String::from_utf8_lossy(&w.vr), a, b));
                }
            }
            (RVal::Seq { items: a, .. }, RVal::Seq { items: b, .. }) => {
                if a.len() != b.len() {
                    return e("item-count", format!("{:04X?}: expected {} got {}", w.tag, a.len(), b.len()));
                }
                for (x, y) in a.iter().zip(b) {
                    json_equal(&x.elems, &y.elems)?;
                }
            }
            _ => return e("shape", format!("{:04X?}: value shapes differ", w.tag)),
        }
    }
    Ok(())
}

// ---------------------------------------------------------------------------------------------
// JSON grammar family (C23, second half)
// ---------------------------------------------------------------------------------------------

pub const VR_WORDS: [&str; 34] = [
    "AE", "AS", "AT", "CS", "DA", "DS", "DT", "FL", "FD", "IS", "LO", "LT", "OB", "OD", "OF", "OL", "OV", "OW", "PN", "SH", "SL", "SQ", "SS", "ST", "SV", "TM", "UC", "UI", "UL", "UN", "UR", "US",
    "UT", "UV",
];

/// One element object as a list of `"name":json` members (kept as text so that member order and
/// duplicates are under control).
#[derive(Clone, Debug)]
pub struct ElemDoc {
    pub members: Vec<(String, String)>,
    /// generator fields, for class descriptors
    pub vr: String,
    pub value: String,
    pub inline: String,
    pub bulk: bool,
}

impl ElemDoc {
    /// InlineBinary on a VR that is not binary: bytes under a text/numeric VR
    pub fn bytes_under_non_binary_vr(&self) -> bool {
        self.inline == "valid" && !matches!(self.vr.as_str(), "OB" | "OD" | "OF" | "OL" | "OV" | "OW" | "UN" | "XX" | "SQ")
    }
    pub fn text(&self, order: &[usize]) -> String {
        let parts: Vec<String> = order.iter().map(|i| format!("\"{}\":{}", self.members[*i].0, self.members[*i].1)).collect();
        format!("{{{}}}", parts.join(","))
    }
    pub fn plain(&self) -> String {
        self.text(&(0..self.members.len()).collect::<Vec<_>>())
    }
}

pub const VALUE_FORMS: [(&str, Option<&str>); 10] = [
    ("missing", None),
    ("[]", Some("[]")),
    ("[1]", Some("[1]")),
    ("[\"a\"]", Some("[\"a\"]")),
    ("[null]", Some("[null]")),
    ("[{}]", Some("[{}]")),
    ("\"s\"", Some("\"s\"")),
    ("{}", Some("{}")),
    ("[1.5,\"NaN\"]", Some("[1.5,\"NaN\"]")),
    ("[-1]", Some("[-1]")),
];
pub const INLINE_FORMS: [(&str, Option<&str>); 4] = [("missing", None), ("valid", Some("\"AQI=\"")), ("invalid", Some("\"!!\"")), ("number", Some("5"))];

/// element objects: vr x Value x InlineBinary x BulkDataURI
pub fn elem_family(vrs: &[Option<&str>], values: &[(&str, Option<&str>)], inlines: &[(&str, Option<&str>)], bulks: &[bool]) -> Vec<ElemDoc> {
    let mut out = vec![];
    for vr in vrs {
        for (vn, v) in values {
            for (inn, ib) in inlines {
                for b in bulks {
                    let mut members = vec![];
                    let vrname = match vr {
                        None => "missing".to_string(),
                        Some("#") => {
                            members.push(("vr".to_string(), "5".to_string()));
                            "number".to_string()
                        }
                        Some(w) => {
                            members.push(("vr".to_string(), format!("\"{w}\"")));
                            w.to_string()
                        }
                    };
                    if let Some(v) = v {
                        members.push(("Value".to_string(), v.to_string()));
                    }
                    if let Some(i) = ib {
                        members.push(("InlineBinary".to_string(), i.to_string()));
                    }
                    if *b {
                        members.push(("BulkDataURI".to_string(), "\"http://x/y\"".to_string()));
                    }
                    out.push(ElemDoc { members, vr: vrname, value: vn.to_string(), inline: inn.to_string(), bulk: *b });
                }
            }
        }
    }
    out
}

pub fn all_vr_choices() -> Vec<Option<&'static str>> {
    let mut v: Vec<Option<&'static str>> = VR_WORDS.iter().map(|w| Some(*w)).collect();
    v.push(Some("XX"));
    v.push(Some("#"));
    v.push(None);
    v
}

pub const KEYS: [(&str, &str); 5] = [("8hex", "00100010"), ("7hex", "0010001"), ("nonhex", "ZZZZZZZZ"), ("empty", ""), ("lower", "0008103e")];

/// every permutation of 0..n (n <= 4)
pub fn permutations(n: usize) -> Vec<Vec<usize>> {
    fn rec(cur: &mut Vec<usize>, used: &mut Vec<bool>, n: usize, out: &mut Vec<Vec<usize>>) {
        if cur.len() == n {
            out.push(cur.clone());
            return;
        }
        for i in 0..n {
            if !used[i] {
                used[i] = true;
                cur.push(i);
                rec(cur, used, n, out);
                cur.pop();
                used[i] = false;
            }
        }
    }
    let mut out = vec![];
    rec(&mut vec![], &mut vec![false; n], n, &mut out);
    out
}
