//! The element dictionary as extracted from /repo/dictionary-std/src/tags.rs by ref/dict_extract.py
//! (ground truth table), with an independent lookup: exact -> repeating group/element ->
//! private creator -> group length -> none.

use std::collections::HashMap;

#[derive(Clone, Debug, PartialEq, Eq)]
pub struct Entry {
    pub kind: String, // single | group100 | element100
    pub tag: (u16, u16),
    pub alias: String,
    pub vr: String, // exact VR or xs/ox/px/lt
    pub const_name: String,
}

pub struct Dict {
    pub entries: Vec<Entry>,
    single: HashMap<(u16, u16), usize>,
    group100: HashMap<(u16, u16), usize>,
    element100: HashMap<(u16, u16), usize>,
}

impl Dict {
    pub fn load() -> Dict {
        let root = std::env::var("VERIF_ROOT").unwrap_or_else(|_| "/verif".into());
        let p = format!("{root}/target/dict/dict.tsv");
        let txt = std::fs::read_to_string(&p).unwrap_or_else(|e| {
            eprintln!("MACHINERY: cannot read {p}: {e} (run pre/dict.sh)");
            std::process::exit(2)
        });
        let mut d = Dict { entries: vec![], single: HashMap::new(), group100: HashMap::new(), element100: HashMap::new() };
        for line in txt.lines() {
            let f: Vec<&str> = line.split('\t').collect();
            let tag = (u16::from_str_radix(f[1], 16).unwrap(), u16::from_str_radix(f[2], 16).unwrap());
            let idx = d.entries.len();
            d.entries.push(Entry { kind: f[0].into(), tag, alias: f[3].into(), vr: f[4].into(), const_name: f[5].into() });
            match f[0] {
                "single" => {
                    d.single.entry(tag).or_insert(idx);
                }
                "group100" => {
                    d.group100.entry(tag).or_insert(idx);
                }
                "element100" => {
                    d.element100.entry(tag).or_insert(idx);
                }
                k => panic!("unknown kind {k}"),
            }
        }
        d
    }

    /// Reference lookup with the precedence of the C15 statement.
    pub fn lookup(&self, t: (u16, u16)) -> Lookup<'_> {
        if let Some(&i) = self.single.get(&t) {
            return Lookup::Entry(&self.entries[i]);
        }
        if let Some(&i) = self.group100.get(&(t.0 & 0xFF00, t.1)) {
            return Lookup::Entry(&self.entries[i]);
        }
        if let Some(&i) = self.element100.get(&(t.0, t.1 & 0xFF00)) {
            return Lookup::Entry(&self.entries[i]);
        }
        if t.0 % 2 == 1 && (0x0010..=0x00FF).contains(&t.1) {
            return Lookup::PrivateCreator;
        }
        if t.1 == 0 {
            return Lookup::GroupLength;
        }
        Lookup::None
    }

    /// VRs acceptable for a tag read in Implicit VR LE (documented relaxation of virtual VRs).
    pub fn implicit_vrs(&self, t: (u16, u16), signed: bool) -> Vec<[u8; 2]> {
        match self.lookup(t) {
            Lookup::Entry(e) => match e.vr.as_str() {
                "xs" => {
                    if signed {
                        vec![*b"US", *b"SS"]
                    } else {
                        vec![*b"US"]
                    }
                }
                "ox" | "px" | "lt" => vec![*b"OW", *b"OB"],
                v => vec![[v.as_bytes()[0], v.as_bytes()[1]]],
            },
            Lookup::PrivateCreator => vec![*b"LO"],
            Lookup::GroupLength => vec![*b"UL"],
            Lookup::None => vec![*b"UN"],
        }
    }
}

#[derive(Debug, PartialEq, Eq)]
pub enum Lookup<'a> {
    Entry(&'a Entry),
    PrivateCreator,
    GroupLength,
    None,
}
