//! C31 — command sets carry a correct Command Group Length.
//!
//! Every set of at most 3 command elements (group 0000) over a boundary value alphabet, given to
//! `InMemDicomObject::command_from_element_iter` in ascending and descending order (plus: histories
//! with the same tag given twice, a caller-supplied (0000,0000), and a trailing non-command element),
//! is written in Implicit VR Little Endian. Oracle: the value of (0000,0000), read from the written
//! bytes by the strict reference parser, == number of bytes written after the 12-byte group length
//! element that belong to group 0000 == length computed by the harness from its own value bytes.
use dicom_core::header::{DataElement, Header};
use dicom_core::value::{PrimitiveValue, Value, C};
use dicom_core::{Tag, VR};
use dicom_object::mem::InMemElement;
use dicom_object::InMemDicomObject;
use vx_data::{hex, prim_le_bytes, ts_by_uid, vr_of_str};
use vx_kit::gen::subsets_up_to;
use vx_kit::{guard, json, Check, Level};
use vx_ref::ds::{self as rds, RVal, Ts};

#[derive(Clone)]
struct Variant {
    label: &'static str,
    /// how the value is given: str / strs / typed / empty
    form: &'static str,
    value: PrimitiveValue,
}

#[derive(Clone)]
struct Slot {
    name: &'static str,
    tag: (u16, u16),
    vr: &'static str,
    variants: Vec<Variant>,
}

fn v(label: &'static str, form: &'static str, value: PrimitiveValue) -> Variant {
    Variant { label, form, value }
}
fn s(x: &str) -> PrimitiveValue {
    PrimitiveValue::Str(x.to_string())
}
fn ss(x: &[&str]) -> PrimitiveValue {
    PrimitiveValue::Strs(x.iter().map(|s| s.to_string()).collect())
}
fn u16s(x: &[u16]) -> PrimitiveValue {
    PrimitiveValue::U16(C::from_slice(x))
}

fn alphabet() -> Vec<Slot> {
    use PrimitiveValue as P;
    let us = |name: &'static str, el: u16, extra: bool| {
        let mut variants = vec![v("one", "typed", u16s(&[0x0102])), v("empty", "empty", P::Empty)];
        if extra {
            variants.push(v("two", "typed", u16s(&[0, 0xFFFF])));
            variants.push(v("str-odd", "str", s("7")));
            variants.push(v("i32", "typed", P::I32(C::from_elem(-7, 1))));
        }
        Slot { name, tag: (0, el), vr: "US", variants }
    };
    vec![
        Slot {
            name: "CommandLengthToEnd",
            tag: (0, 0x0001),
            vr: "UL",
            variants: vec![v("one", "typed", P::U32(C::from_elem(0x01020304, 1))), v("two", "typed", P::U32(C::from_vec(vec![u32::MAX, 1])))],
        },
        Slot {
            name: "AffectedSOPClassUID",
            tag: (0, 0x0002),
            vr: "UI",
            variants: vec![
                v("odd", "str", s("1.2.840.10008.1.1")),
                v("even", "str", s("1.2.840.10008.1.12")),
                v("strs-1-odd", "strs", ss(&["1.2.3"])),
                v("nul-padded", "str", s("1.2.3\0")),
                v("empty", "empty", P::Empty),
                // redundant trailing padding / leading space / empty text (both parities before and after stripping)
                v("pad-even+nul", "str", s("1.20\0")),
                v("pad-odd+2nul", "str", s("1.2\0\0")),
                v("pad-odd+space", "str", s("1.2 ")),
                v("pad-odd+nul+space", "str", s("1.2.3\0 ")),
                v("pad-lead-space", "str", s(" 1.2")),
                v("pad-empty-str", "str", s("")),
                v("pad-strs-even+nul", "strs", ss(&["1.20\0"])),
                v("pad-strs-empty", "strs", ss(&[""])),
            ],
        },
        us("CommandField", 0x0100, true),
        us("MessageID", 0x0110, false),
        Slot {
            name: "MoveDestination",
            tag: (0, 0x0600),
            vr: "AE",
            variants: vec![v("odd", "str", s("A")), v("even", "str", s("AB")), v("max16", "str", s("ABCDEFGHIJKLMNOP")), v("strs-2", "strs", ss(&["A", "BC"])),
                v("pad-even+2sp", "str", s("AB  ")), v("pad-even+sp", "str", s("AB ")), v("pad-odd+2sp", "str", s("A  ")), v("pad-lead-space", "str", s(" AB")), v("pad-empty-str", "str", s("")),
                v("pad-strs-each", "strs", ss(&["A ", "BC "])), v("pad-strs-last", "strs", ss(&["AB", "C  "]))],
        },
        us("Priority", 0x0700, false),
        us("CommandDataSetType", 0x0800, false),
        us("Status", 0x0900, false),
        Slot {
            name: "OffendingElement",
            tag: (0, 0x0901),
            vr: "AT",
            variants: vec![
                v("one", "typed", P::Tags(C::from_elem(Tag(0x0010, 0x0020), 1))),
                v("two", "typed", P::Tags(C::from_vec(vec![Tag(0x0008, 0x0018), Tag(0x0010, 0x0010)]))),
            ],
        },
        Slot {
            name: "ErrorComment",
            tag: (0, 0x0902),
            vr: "LO",
            variants: vec![v("odd", "str", s("Bad")), v("even", "str", s("Bad!")), v("strs-1-even", "strs", ss(&["Bad!"])),
                v("pad-odd+2sp", "str", s("x  ")), v("pad-even+2sp", "str", s("xy  ")), v("pad-even+sp", "str", s("xy ")), v("pad-lead-space", "str", s(" x")), v("pad-empty-str", "str", s("")),
                v("pad-strs-1", "strs", ss(&["x  "])), v("pad-strs-2", "strs", ss(&["x ", "y  "]))],
        },
        Slot {
            name: "AffectedSOPInstanceUID",
            tag: (0, 0x1000),
            vr: "UI",
            variants: vec![
                v("multi-odd-total", "strs", ss(&["1.2", "3.4"])),
                v("multi-even-total", "strs", ss(&["1.2", "3.45"])),
                v("multi-empty-first", "strs", ss(&["", "1.2"])),
                v("odd", "str", s("1.2.3")),
                v("pad-multi-last-even+nul", "strs", ss(&["1.2", "3.40\0"])),
                v("pad-multi-first-even+nul", "strs", ss(&["1.20\0", "3.4"])),
                v("pad-multi-each+nul", "strs", ss(&["1.2\0", "3.4\0"])),
                v("pad-multi-last+2nul", "strs", ss(&["1.2", "3.4\0\0"])),
                v("pad-multi-all-empty", "strs", ss(&["", ""])),
            ],
        },
        us("NumberOfRemainingSuboperations", 0x1020, false),
    ]
}

#[derive(Clone)]
struct Case {
    id: String,
    family: &'static str,
    /// elements in the order given to the constructor: (slot, variant)
    elems: Vec<(usize, usize)>,
    /// extra raw elements given (tag, vr, value) after `elems`
    extra: Vec<((u16, u16), &'static str, PrimitiveValue)>,
}

fn build_cases(alpha: &[Slot], thorough: bool) -> Vec<Case> {
    let mut out = vec![];
    let k = 3;
    for sub in subsets_up_to(alpha.len(), k) {
        // product of variants
        let radices: Vec<usize> = sub.iter().map(|&i| alpha[i].variants.len()).collect();
        let total: usize = radices.iter().product();
        for mut idx in 0..total {
            let mut pick = vec![];
            for (j, r) in radices.iter().enumerate() {
                pick.push((sub[j], idx % r));
                idx /= r;
            }
            let name: String = pick.iter().map(|(a, b)| format!("{}.{}", alpha[*a].name, alpha[*a].variants[*b].label)).collect::<Vec<_>>().join("+");
            out.push(Case { id: format!("set/asc/{}", if name.is_empty() { "none".into() } else { name.clone() }), family: "set-ascending", elems: pick.clone(), extra: vec![] });
            if pick.len() >= 2 {
                let mut rev = pick.clone();
                rev.reverse();
                out.push(Case { id: format!("set/desc/{name}"), family: "set-descending", elems: rev, extra: vec![] });
            }
            if pick.len() == 3 && thorough {
                // the remaining non-monotone orders
                for perm in [[1usize, 0, 2], [0, 2, 1], [1, 2, 0], [2, 0, 1]] {
                    let p: Vec<(usize, usize)> = perm.iter().map(|&q| pick[q]).collect();
                    out.push(Case { id: format!("set/perm{}{}{}/{name}", perm[0], perm[1], perm[2]), family: "set-permuted", elems: p, extra: vec![] });
                }
            }
        }
    }
    // the same tag given twice with different values (the later one replaces the earlier one)
    for (i, slot) in alpha.iter().enumerate() {
        for a in 0..slot.variants.len() {
            for b in 0..slot.variants.len() {
                if a != b {
                    out.push(Case {
                        id: format!("dup/{}.{}-then-{}", slot.name, slot.variants[a].label, slot.variants[b].label),
                        family: "same-tag-twice",
                        elems: vec![(i, a), (i, b)],
                        extra: vec![],
                    });
                }
            }
        }
    }
    // caller supplies its own (wrong) group length element; and a non-command element follows
    for (i, slot) in alpha.iter().enumerate() {
        for a in 0..slot.variants.len() {
            out.push(Case {
                id: format!("own-gl/{}.{}", slot.name, slot.variants[a].label),
                family: "caller-supplied-group-length",
                elems: vec![(i, a)],
                extra: vec![((0, 0), "UL", PrimitiveValue::U32(C::from_elem(999, 1)))],
            });
            out.push(Case {
                id: format!("non-command/{}.{}", slot.name, slot.variants[a].label),
                family: "with-non-command-element",
                elems: vec![(i, a)],
                extra: vec![((0x0008, 0x0018), "UI", PrimitiveValue::Str("1.2.3".into()))],
            });
        }
    }
    out
}

fn even(n: usize) -> usize {
    (n + 1) & !1
}

fn main() {
    let check = Check::from_args("C31", Level::Exploration);
    check.set_rule("every set of <= 3 distinct command elements over 12 command tags (UI, US, UL, AE, LO, AT) x a value alphabet per tag (Str/Strs/typed/empty, odd/even/multi, text with redundant trailing NUL/space padding, leading space and empty strings, single and multi-valued, both parities before and after stripping) given to command_from_element_iter in ascending and descending order (thorough: all 6 orders of triples); plus every ordered pair of different values for the same tag, a caller-supplied (0000,0000), and a trailing non-command element; a case is (family, ordered element list); distinct by case id; non-trivial = the command object was built and written in Implicit VR LE");
    check.assume("vx-ref strict parser reads the written group length and element boundaries; expected length is computed from the harness' own value-to-bytes conversion (8 + even(len) per element), not from calculate_byte_len");
    let alpha = alphabet();
    let cases = build_cases(&alpha, check.thorough());
    check.extra("universe_cases", json!(cases.len()));
    check.extra("command_tags", json!(alpha.len()));
    let ivr = ts_by_uid("1.2.840.10008.1.2");
    let vr_of = {
        let alpha = alpha.clone();
        move |t: (u16, u16)| -> Option<[u8; 2]> {
            if t == (0, 0) {
                return Some(*b"UL");
            }
            if t == (0x0008, 0x0018) {
                return Some(*b"UI");
            }
            alpha.iter().find(|s| s.tag == t).map(|s| rds::vr(s.vr))
        }
    };
    check.par_range(cases.len() as u64, |l, i| {
        let case = &cases[i as usize];
        if !l.want(&case.id) {
            return;
        }
        l.eval();
        // the elements as given
        let mut given: Vec<InMemElement> = vec![];
        for (si, vi) in &case.elems {
            let slot = &alpha[*si];
            given.push(DataElement::new(Tag(slot.tag.0, slot.tag.1), vr_of_str(slot.vr), Value::Primitive(slot.variants[*vi].value.clone())));
        }
        for (t, vr, val) in &case.extra {
            given.push(DataElement::new(Tag(t.0, t.1), vr_of_str(vr), Value::Primitive(val.clone())));
        }
        // reference: the resulting set (later element of the same tag replaces the earlier one),
        // group 0000 elements other than (0000,0000)
        let mut last: std::collections::BTreeMap<(u16, u16), (VR, Vec<u8>)> = Default::default();
        for e in &given {
            let t = (e.tag().0, e.tag().1);
            let bytes = match e.value() {
                Value::Primitive(p) => prim_le_bytes(p),
                _ => unreachable!(),
            };
            last.insert(t, (e.vr(), bytes));
        }
        let expected_len: usize = last.iter().filter(|(t, _)| t.0 == 0 && t.1 != 0).map(|(_, (_, b))| 8 + even(b.len())).sum();
        let forms: Vec<&str> = case.elems.iter().map(|(a, b)| alpha[*a].variants[*b].form).collect();
        let vrs: Vec<&str> = case.elems.iter().map(|(a, _)| alpha[*a].vr).collect();
        let labels: Vec<&str> = case.elems.iter().map(|(a, b)| alpha[*a].variants[*b].label).collect();
        let mut fs = forms.clone();
        fs.sort();
        fs.dedup();
        let mut vs = vrs.clone();
        vs.sort();
        vs.dedup();
        let class = |stage: &str, kind: &str| json!({"family": case.family, "stage": stage, "kind": kind, "forms": fs.join("+"), "vrs": vs.join("+"), "n": case.elems.len()});
        let describe = || json!({"elements": case.elems.iter().map(|(a, b)| format!("{} {} {}", alpha[*a].name, alpha[*a].vr, alpha[*a].variants[*b].label)).collect::<Vec<_>>(), "extra": case.extra.iter().map(|(t, vr, _)| format!("({:04X},{:04X}) {vr}", t.0, t.1)).collect::<Vec<_>>()});
        let _ = labels;
        let built = guard(|| {
            let obj = InMemDicomObject::command_from_element_iter(given.clone());
            let mut out = vec![];
            let r = obj.write_dataset_with_ts(&mut out, ivr).map_err(|e| format!("{e:?}").chars().take(300).collect::<String>());
            let recorded: Option<u32> = obj.get(Tag(0, 0)).and_then(|e| e.value().to_int::<u32>().ok());
            (r, out, recorded)
        });
        let (out, recorded) = match built {
            Err(p) => {
                l.outcome("panic");
                l.fail(&case.id, class("build-write", "panic"), json!({"case": describe(), "message": p}));
                return;
            }
            Ok((Err(e), _, _)) => {
                l.outcome("write-err");
                l.fail(&case.id, class("write", "err"), json!({"case": describe(), "message": e}));
                return;
            }
            Ok((Ok(()), out, rec)) => (out, rec),
        };
        l.nontrivial(&case.id);
        let detail = |m: String| json!({"case": describe(), "written": hex(&out[..out.len().min(200)]), "expected_group_length": expected_len, "recorded_in_object": recorded, "message": m});
        // strict parse of what was written
        let tree = match rds::parse(Ts::ImplicitLE, &out, &vr_of) {
            Ok(t) => t,
            Err(e) => {
                l.outcome("written-invalid");
                l.fail(&case.id, class("parse", "invalid"), detail(e.to_string()));
                return;
            }
        };
        let first_ok = tree.first().map(|e| e.tag == (0, 0)).unwrap_or(false);
        let gl_written: Option<u32> = tree.first().and_then(|e| match &e.val {
            RVal::Prim(b) if b.len() == 4 => Some(u32::from_le_bytes([b[0], b[1], b[2], b[3]])),
            _ => None,
        });
        if !first_ok || gl_written.is_none() || out.len() < 12 {
            l.outcome("no-group-length-element");
            l.fail(&case.id, class("structure", "group-length-element-missing"), detail("first element is not a 4-byte (0000,0000)".into()));
            return;
        }
        let gl = gl_written.unwrap() as usize;
        // bytes of group 0000 after the group length element, measured on the written stream
        let mut measured = 0usize;
        for e in tree.iter().skip(1) {
            if e.tag.0 != 0 {
                break;
            }
            if let RVal::Prim(b) = &e.val {
                measured += 8 + b.len();
            }
        }
        let total_after: usize = out.len() - 12;
        let nonc: usize = tree.iter().filter(|e| e.tag.0 != 0).map(|e| if let RVal::Prim(b) = &e.val { 8 + b.len() } else { 0 }).sum();
        if measured + nonc != total_after {
            l.check.machinery_error(&format!("C31 harness: measured {measured}+{nonc} != bytes after group length {total_after} in {}", case.id));
            return;
        }
        if gl != measured {
            l.outcome("group-length-differs-from-written-bytes");
            l.fail(&case.id, class("compare", "group-length-vs-written"), detail(format!("(0000,0000)={gl} but {measured} bytes of command elements follow")));
            return;
        }
        // the harness' own length is only authoritative for values given without redundant padding:
        // for padded text the measured bytes (above) decide, whatever normalisation the writer applies
        let padded_input = case.elems.iter().any(|(a, b)| alpha[*a].variants[*b].label.starts_with("pad-"));
        if !padded_input && gl != expected_len {
            l.outcome("group-length-differs-from-reference");
            l.fail(&case.id, class("compare", "group-length-vs-reference"), detail(format!("(0000,0000)={gl}, reference length {expected_len}")));
            return;
        }
        if recorded.map(|r| r as usize) != Some(gl) {
            l.outcome("object-value-differs-from-written");
            l.fail(&case.id, class("compare", "object-vs-written"), detail(format!("object holds {recorded:?}, written {gl}")));
            return;
        }
        let oc = match case.family {
            "set-ascending" | "set-descending" | "set-permuted" => {
                if padded_input {
                    "exact-with-redundantly-padded-text"
                } else if case.elems.is_empty() {
                    "exact-empty-command"
                } else if fs.iter().any(|f| *f == "strs") {
                    "exact-with-multi-valued-text"
                } else if case.elems.iter().any(|(a, b)| even(prim_le_bytes(&alpha[*a].variants[*b].value).len()) != prim_le_bytes(&alpha[*a].variants[*b].value).len()) {
                    "exact-with-odd-value"
                } else {
                    "exact-all-even"
                }
            }
            "same-tag-twice" => "exact-same-tag-twice",
            "caller-supplied-group-length" => "exact-own-group-length-replaced",
            _ => "exact-non-command-not-counted",
        };
        l.outcome_with(oc, || json!({"case": case.id, "group_length": gl, "written": hex(&out[..out.len().min(64)])}));
    });
    check.finish();
}
