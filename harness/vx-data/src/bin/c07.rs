//! C07 — odd-length values are handled per strategy and reading stays aligned.
//!
//! Streams are built here from the vx-ref header layout functions: one element (or item, or pixel
//! data fragment) has an odd declared length L in {1,3,5,7,9} with exactly L value bytes (one
//! more byte for the NextEven strategy), surrounded by ordinary elements and followed by a sentinel.
//! Observation without hooks: the real `StatefulDecoder` is wrapped in a delegating
//! `StatefulDecode` spy that publishes `position()` after every call, and reads from a counting
//! `Read` with nothing in between, so "reported position" and "bytes consumed" are both visible
//! after every token of `DataSetReader` / `LazyDataSetReader`. `OpenFileOptions` is driven on
//! the same streams wrapped in a reference-encoded file.
use dicom_core::header::{DataElementHeader, Header, Length, SequenceItemHeader};
use dicom_core::value::PrimitiveValue;
use dicom_core::Tag;
use dicom_object::OpenFileOptions;
use dicom_parser::dataset::lazy_read::{LazyDataSetReader, LazyDataSetReaderOptions};
use dicom_parser::dataset::read::{DataSetReader, DataSetReaderOptions, OddLengthStrategy, ValueReadStrategy};
use dicom_parser::dataset::{DataToken, LazyDataToken};
use dicom_parser::stateful::decode::{Result as DecResult, StatefulDecode, StatefulDecoder};
use std::cell::Cell;
use std::io::Read;
use std::rc::Rc;
use vx_data::{hex, prim_le_bytes, std_tag, ts_by_uid, vr_code, PRIM_VRS, TS4};
use vx_kit::{guard, json, Check, Level, Local, Value};
use vx_ref::ds::{self as rds, Ts};

// ------------------------------------------------------------------------------------------------
// observation: counting source and delegating spy
// ------------------------------------------------------------------------------------------------

/// How the source answers `read`: always conforming to the `Read` contract, but possibly short.
#[derive(Clone, Copy, Debug, PartialEq, Eq)]
enum Src {
    /// every read is satisfied completely
    Whole,
    /// at most k bytes per call
    Chunk(usize),
    /// one cut: the read call that would cross stream offset p returns only the bytes up to p
    Cut(usize),
}
fn src_name(s: Src) -> (String, &'static str) {
    match s {
        Src::Whole => ("whole".into(), "whole"),
        Src::Chunk(k) => (format!("k{k}"), ["", "chunk-1", "chunk-2", "chunk-3"][k.min(3)]),
        Src::Cut(p) => (format!("cut{p}"), "one-cut"),
    }
}

struct CountRead {
    data: Vec<u8>,
    at: usize,
    count: Rc<Cell<u64>>,
    src: Src,
}
impl Read for CountRead {
    fn read(&mut self, buf: &mut [u8]) -> std::io::Result<usize> {
        let mut n = buf.len().min(self.data.len() - self.at);
        match self.src {
            Src::Whole => {}
            Src::Chunk(k) => n = n.min(k),
            Src::Cut(p) => {
                if self.at < p && self.at + n > p {
                    n = p - self.at;
                }
            }
        }
        buf[..n].copy_from_slice(&self.data[self.at..self.at + n]);
        self.at += n;
        self.count.set(self.count.get() + n as u64);
        Ok(n)
    }
}

struct Spy<D> {
    inner: D,
    pos: Rc<Cell<u64>>,
}
impl<D: StatefulDecode> Spy<D> {
    fn publish(&self) {
        self.pos.set(self.inner.position());
    }
}
impl<D: StatefulDecode> StatefulDecode for Spy<D> {
    type Reader = D::Reader;
    fn decode_header(&mut self) -> DecResult<DataElementHeader> {
        let r = self.inner.decode_header();
        self.publish();
        r
    }
    fn decode_item_header(&mut self) -> DecResult<SequenceItemHeader> {
        let r = self.inner.decode_item_header();
        self.publish();
        r
    }
    fn read_value(&mut self, header: &DataElementHeader) -> DecResult<PrimitiveValue> {
        let r = self.inner.read_value(header);
        self.publish();
        r
    }
    fn read_value_preserved(&mut self, header: &DataElementHeader) -> DecResult<PrimitiveValue> {
        let r = self.inner.read_value_preserved(header);
        self.publish();
        r
    }
    fn read_value_bytes(&mut self, header: &DataElementHeader) -> DecResult<PrimitiveValue> {
        let r = self.inner.read_value_bytes(header);
        self.publish();
        r
    }
    fn read_to_vec(&mut self, length: u32, vec: &mut Vec<u8>) -> DecResult<()> {
        let r = self.inner.read_to_vec(length, vec);
        self.publish();
        r
    }
    fn read_u32_to_vec(&mut self, length: u32, vec: &mut Vec<u32>) -> DecResult<()> {
        let r = self.inner.read_u32_to_vec(length, vec);
        self.publish();
        r
    }
    fn read_to<W>(&mut self, length: u32, out: W) -> DecResult<()>
    where
        Self: Sized,
        W: std::io::Write,
    {
        let r = self.inner.read_to(length, out);
        self.publish();
        r
    }
    fn skip_bytes(&mut self, length: u32) -> DecResult<()> {
        let r = self.inner.skip_bytes(length);
        self.publish();
        r
    }
    fn seek(&mut self, position: u64) -> DecResult<()>
    where
        Self::Reader: std::io::Seek,
    {
        let r = self.inner.seek(position);
        self.publish();
        r
    }
    fn position(&self) -> u64 {
        self.inner.position()
    }
}

// ------------------------------------------------------------------------------------------------
// stream model
// ------------------------------------------------------------------------------------------------

#[derive(Clone, Debug)]
enum N {
    /// primitive element with exactly these value bytes on the wire (declared length = bytes.len())
    El { tag: (u16, u16), vr: [u8; 2], bytes: Vec<u8>, role: Role },
    Sq { tag: (u16, u16), explicit: bool, items: Vec<(bool, Vec<N>)> },
    /// encapsulated pixel data: raw offset-table bytes and fragments
    Pix { bot: Vec<u8>, frags: Vec<(Vec<u8>, Role)>, bot_role: Role },
}

#[derive(Clone, Copy, Debug, PartialEq, Eq)]
enum Role {
    Plain,
    Odd,
    Sentinel,
}

#[derive(Clone, Debug, PartialEq, Eq)]
enum ExpKind {
    Header { tag: (u16, u16), vr: [u8; 2], len: u32 },
    /// primitive value; `bytes` = the bytes that must have been taken from the stream for it
    Value { bytes: Vec<u8> },
    SeqStart { tag: (u16, u16), len: Option<u32> },
    ItemStart { len: Option<u32> },
    ItemEnd,
    SeqEnd,
    PixStart,
    OffsetTable { bytes: Vec<u8> },
    ItemValue { bytes: Vec<u8> },
}

#[derive(Clone, Debug)]
struct Exp {
    kind: ExpKind,
    /// stream offset after this token
    end: u64,
    role: Role,
    /// this token carries an odd declared length (the point where Fail must report)
    odd_len: bool,
}

fn sanitize(len: u32, s: OddLengthStrategy) -> u32 {
    if len % 2 == 1 && matches!(s, OddLengthStrategy::NextEven) {
        len + 1
    } else {
        len
    }
}

/// declared encoded size of a node (as the sloppy writer computed it: no phantom pad)
fn declared_size(ts: Ts, n: &N) -> u32 {
    match n {
        N::El { vr, bytes, .. } => (rds::header_size(ts, *vr) + bytes.len()) as u32,
        N::Sq { explicit, items, .. } => {
            let mut s = rds::header_size(ts, *b"SQ") as u32;
            for (ie, content) in items {
                s += 8 + content.iter().map(|c| declared_size(ts, c)).sum::<u32>();
                if !ie {
                    s += 8;
                }
            }
            if !explicit {
                s += 8;
            }
            s
        }
        N::Pix { .. } => unreachable!("pixel data is top level only"),
    }
}

/// Encode the nodes and derive the expected token list. Under NextEven every odd-length value is
/// followed by one more byte in the stream, which belongs to it.
fn emit(ts: Ts, s: OddLengthStrategy, nodes: &[N], out: &mut Vec<u8>, exp: &mut Vec<Exp>) {
    let pad = matches!(s, OddLengthStrategy::NextEven);
    for n in nodes {
        match n {
            N::El { tag, vr, bytes, role } => {
                let l = bytes.len() as u32;
                out.extend(rds::encode_header(ts, *tag, *vr, l).unwrap());
                exp.push(Exp { kind: ExpKind::Header { tag: *tag, vr: *vr, len: sanitize(l, s) }, end: out.len() as u64, role: *role, odd_len: l % 2 == 1 });
                let mut v = bytes.clone();
                if pad && l % 2 == 1 {
                    v.push(rds::pad_byte(*vr));
                }
                out.extend(&v);
                exp.push(Exp { kind: ExpKind::Value { bytes: v }, end: out.len() as u64, role: *role, odd_len: false });
            }
            N::Sq { tag, explicit, items } => {
                let body: u32 = declared_size(ts, n) - rds::header_size(ts, *b"SQ") as u32 - if *explicit { 0 } else { 8 };
                let l = if *explicit { body } else { 0xFFFF_FFFF };
                out.extend(rds::encode_header(ts, *tag, *b"SQ", l).unwrap());
                exp.push(Exp { kind: ExpKind::SeqStart { tag: *tag, len: explicit.then(|| sanitize(body, s)) }, end: out.len() as u64, role: Role::Plain, odd_len: *explicit && body % 2 == 1 });
                for (ie, content) in items {
                    let il: u32 = content.iter().map(|c| declared_size(ts, c)).sum();
                    out.extend(rds::encode_item_header(ts, if *ie { il } else { 0xFFFF_FFFF }));
                    exp.push(Exp { kind: ExpKind::ItemStart { len: ie.then(|| sanitize(il, s)) }, end: out.len() as u64, role: Role::Plain, odd_len: *ie && il % 2 == 1 });
                    emit(ts, s, content, out, exp);
                    if !ie {
                        out.extend(rds::item_delim(ts));
                    }
                    exp.push(Exp { kind: ExpKind::ItemEnd, end: out.len() as u64, role: Role::Plain, odd_len: false });
                }
                if !explicit {
                    out.extend(rds::seq_delim(ts));
                }
                exp.push(Exp { kind: ExpKind::SeqEnd, end: out.len() as u64, role: Role::Plain, odd_len: false });
            }
            N::Pix { bot, frags, bot_role } => {
                out.extend(rds::encode_header(ts, (0x7FE0, 0x0010), *b"OB", 0xFFFF_FFFF).unwrap());
                exp.push(Exp { kind: ExpKind::PixStart, end: out.len() as u64, role: Role::Plain, odd_len: false });
                let mut item = |bytes: &Vec<u8>, role: Role, is_bot: bool, out: &mut Vec<u8>, exp: &mut Vec<Exp>| {
                    let l = bytes.len() as u32;
                    out.extend(rds::encode_item_header(ts, l));
                    exp.push(Exp { kind: ExpKind::ItemStart { len: Some(sanitize(l, s)) }, end: out.len() as u64, role, odd_len: l % 2 == 1 });
                    if l > 0 {
                        let mut v = bytes.clone();
                        if pad && l % 2 == 1 {
                            v.push(0);
                        }
                        out.extend(&v);
                        let kind = if is_bot { ExpKind::OffsetTable { bytes: v } } else { ExpKind::ItemValue { bytes: v } };
                        exp.push(Exp { kind, end: out.len() as u64, role, odd_len: false });
                    }
                    exp.push(Exp { kind: ExpKind::ItemEnd, end: out.len() as u64, role: Role::Plain, odd_len: false });
                };
                item(bot, *bot_role, true, out, exp);
                for (f, role) in frags {
                    item(f, *role, false, out, exp);
                }
                out.extend(rds::seq_delim(ts));
                exp.push(Exp { kind: ExpKind::SeqEnd, end: out.len() as u64, role: Role::Plain, odd_len: false });
            }
        }
    }
}

// ------------------------------------------------------------------------------------------------
// universe
// ------------------------------------------------------------------------------------------------

const LENS: [usize; 5] = [1, 3, 5, 7, 9];
const PRE_TAG: (u16, u16) = (0x0008, 0x0001); // Length to End, UL
const SENT_TAG: (u16, u16) = (0x0088, 0x0140); // Storage Media File-set UID, UI
const SENT_VAL: &[u8] = b"1.2.3.44";
const SQ_TAG: (u16, u16) = (0x0008, 0x1140);

fn pre() -> N {
    N::El { tag: PRE_TAG, vr: *b"UL", bytes: vec![4, 3, 2, 1], role: Role::Plain }
}
fn sentinel() -> N {
    N::El { tag: SENT_TAG, vr: *b"UI", bytes: SENT_VAL.to_vec(), role: Role::Sentinel }
}

/// contents of an odd-length value of `vr` with exactly `l` bytes: (kind, bytes)
fn contents(vr: &str, l: usize) -> Vec<(&'static str, Vec<u8>)> {
    let blank = ("blank", vec![b' '; l]);
    let txt = |s: &str| ("value", s.as_bytes().to_vec());
    match vr {
        "AE" | "AS" | "CS" | "LO" | "LT" | "PN" | "SH" | "ST" | "UC" | "UR" | "UT" => vec![txt(&"ABCDEFGHI"[..l])],
        "UI" => vec![txt(&"1.2.3.4.5"[..l])],
        "DA" | "DT" => match l {
            1 | 3 => vec![blank],
            5 => vec![txt("2020 "), blank],
            7 => vec![txt("202001 "), blank],
            _ => vec![txt("20200101 "), blank],
        },
        "TM" => match l {
            1 => vec![blank],
            3 => vec![txt("12 "), blank],
            5 => vec![txt("1200 "), blank],
            7 => vec![txt("120000 "), blank],
            _ => vec![txt("120000.55"), blank],
        },
        "IS" => vec![txt(&"123456789"[..l]), blank],
        "DS" => vec![txt(["1", "1.5", "1.234", "1.23456", "1.2345678"][l / 2]), blank],
        // binary VRs: L bytes 1..=L (for the fixed-width ones L is not a multiple of the sample size)
        _ => vec![("value", (1..=l as u8).collect())],
    }
}

const PLACES: [&str; 8] = ["top-first", "top-middle", "top-last", "item-undef-first", "item-undef-last", "item-def-only", "item-def-middle", "item-def-in-undef-seq"];

fn build_place(place: &str, odd: N) -> Vec<N> {
    let sq = |explicit: bool, ie: bool, content: Vec<N>| N::Sq { tag: SQ_TAG, explicit, items: vec![(ie, content)] };
    let in_sent = sentinel();
    match place {
        "top-first" => vec![odd, sentinel()],
        "top-middle" => vec![pre(), odd, sentinel()],
        "top-last" => vec![pre(), odd],
        "item-undef-first" => vec![sq(false, false, vec![odd, in_sent]), sentinel()],
        "item-undef-last" => vec![sq(false, false, vec![pre(), odd]), sentinel()],
        "item-def-only" => vec![sq(true, true, vec![odd]), sentinel()],
        "item-def-middle" => vec![sq(true, true, vec![pre(), odd, in_sent]), sentinel()],
        "item-def-in-undef-seq" => vec![sq(false, true, vec![odd]), sentinel()],
        _ => unreachable!(),
    }
}

const FRAG_PLACES: [&str; 3] = ["fragment-first", "fragment-last", "offset-table"];

fn build_frag_place(place: &str, l: usize) -> Vec<N> {
    let odd: Vec<u8> = (1..=l as u8).collect();
    let even = vec![0xA1, 0xA2, 0xA3, 0xA4];
    match place {
        "fragment-first" => vec![pre(), N::Pix { bot: vec![], bot_role: Role::Plain, frags: vec![(odd, Role::Odd), (even, Role::Sentinel)] }],
        "fragment-last" => vec![pre(), N::Pix { bot: vec![0, 0, 0, 0], bot_role: Role::Plain, frags: vec![(even, Role::Plain), (odd, Role::Odd)] }],
        "offset-table" => vec![pre(), N::Pix { bot: odd, bot_role: Role::Odd, frags: vec![(even, Role::Sentinel)] }],
        _ => unreachable!(),
    }
}

#[derive(Clone, Copy, Debug, PartialEq, Eq)]
enum Rd {
    Eager(ValueReadStrategy),
    LazyOwned(ValueReadStrategy),
    LazySkip,
    LazyReadInto,
    File,
}
const READERS: [Rd; 9] = [
    Rd::Eager(ValueReadStrategy::Preserved),
    Rd::Eager(ValueReadStrategy::Interpreted),
    Rd::Eager(ValueReadStrategy::Raw),
    Rd::LazyOwned(ValueReadStrategy::Preserved),
    Rd::LazyOwned(ValueReadStrategy::Interpreted),
    Rd::LazyOwned(ValueReadStrategy::Raw),
    Rd::LazySkip,
    Rd::LazyReadInto,
    Rd::File,
];
fn rd_name(r: Rd) -> (&'static str, &'static str) {
    let v = |v: ValueReadStrategy| match v {
        ValueReadStrategy::Preserved => "Preserved",
        ValueReadStrategy::Interpreted => "Interpreted",
        ValueReadStrategy::Raw => "Raw",
    };
    match r {
        Rd::Eager(x) => ("DataSetReader", v(x)),
        Rd::LazyOwned(x) => ("LazyDataSetReader/into_owned", v(x)),
        Rd::LazySkip => ("LazyDataSetReader/skip", "-"),
        Rd::LazyReadInto => ("LazyDataSetReader/read_value_into", "-"),
        Rd::File => ("OpenFileOptions", "Preserved"),
    }
}
const STRATS: [OddLengthStrategy; 3] = [OddLengthStrategy::Accept, OddLengthStrategy::NextEven, OddLengthStrategy::Fail];
fn strat_name(s: OddLengthStrategy) -> &'static str {
    match s {
        OddLengthStrategy::Accept => "Accept",
        OddLengthStrategy::NextEven => "NextEven",
        OddLengthStrategy::Fail => "Fail",
        _ => "?",
    }
}

#[derive(Clone, Debug)]
struct Spec {
    ti: usize,
    vr: &'static str,
    l: usize,
    ckind: &'static str,
    bytes: Vec<u8>,
    place: &'static str,
}

fn specs() -> Vec<Spec> {
    let mut v = vec![];
    for ti in 0..3 {
        for vr in PRIM_VRS {
            for l in LENS {
                for (ckind, bytes) in contents(vr, l) {
                    for place in PLACES {
                        v.push(Spec { ti, vr, l, ckind, bytes: bytes.clone(), place });
                    }
                }
            }
        }
        if ti >= 1 {
            for l in LENS {
                for place in FRAG_PLACES {
                    v.push(Spec { ti, vr: "OB", l, ckind: "value", bytes: vec![], place });
                }
            }
        }
    }
    v
}

// ------------------------------------------------------------------------------------------------
// running one case
// ------------------------------------------------------------------------------------------------

/// what a reader produced for one expected token
enum Got {
    Tok(ExpKindLite),
    Err(String),
    End,
}
/// comparable projection of DataToken / LazyDataToken
#[derive(Debug, PartialEq, Eq)]
enum ExpKindLite {
    Header { tag: (u16, u16), vr: [u8; 2], len: u32 },
    Value { bytes: Option<Vec<u8>>, is_raw_u8: bool },
    SeqStart { tag: (u16, u16), len: Option<u32> },
    ItemStart { len: Option<u32> },
    ItemEnd,
    SeqEnd,
    PixStart,
    OffsetTable { n: usize },
    ItemValue { bytes: Option<Vec<u8>> },
}

fn lite_of_token(t: DataToken) -> ExpKindLite {
    match t {
        DataToken::ElementHeader(h) => ExpKindLite::Header { tag: (h.tag().0, h.tag().1), vr: vr_code(h.vr()), len: h.len.0 },
        DataToken::PrimitiveValue(v) => ExpKindLite::Value { is_raw_u8: matches!(v, PrimitiveValue::U8(_)), bytes: Some(prim_le_bytes(&v)) },
        DataToken::SequenceStart { tag, len } => ExpKindLite::SeqStart { tag: (tag.0, tag.1), len: len.get() },
        DataToken::ItemStart { len } => ExpKindLite::ItemStart { len: len.get() },
        DataToken::ItemEnd => ExpKindLite::ItemEnd,
        DataToken::SequenceEnd => ExpKindLite::SeqEnd,
        DataToken::PixelSequenceStart => ExpKindLite::PixStart,
        DataToken::OffsetTable(t) => ExpKindLite::OffsetTable { n: t.len() },
        DataToken::ItemValue(b) => ExpKindLite::ItemValue { bytes: Some(b) },
    }
}

/// Does the observed token satisfy the expectation? Only what the statement fixes is compared:
/// kind, tag, VR, (sanitised) length; the exact bytes for the sentinel and for raw / byte-like
/// values; for the odd element's interpreted value only that it is a value token.
fn matches_exp(e: &Exp, g: &ExpKindLite, raw: bool) -> bool {
    match (&e.kind, g) {
        (ExpKind::Header { tag, vr, len }, ExpKindLite::Header { tag: t, vr: v, len: l }) => tag == t && vr == v && len == l,
        (ExpKind::Value { bytes }, ExpKindLite::Value { bytes: gb, is_raw_u8 }) => {
            if raw || e.role == Role::Sentinel || *is_raw_u8 {
                match gb {
                    Some(gb) => gb == bytes,
                    None => true, // consumed without materialising (skip / read_value_into checks bytes separately)
                }
            } else {
                true
            }
        }
        (ExpKind::SeqStart { tag, len }, ExpKindLite::SeqStart { tag: t, len: l }) => tag == t && len == l,
        (ExpKind::ItemStart { len }, ExpKindLite::ItemStart { len: l }) => len == l,
        (ExpKind::ItemEnd, ExpKindLite::ItemEnd) | (ExpKind::SeqEnd, ExpKindLite::SeqEnd) | (ExpKind::PixStart, ExpKindLite::PixStart) => true,
        (ExpKind::OffsetTable { bytes }, ExpKindLite::OffsetTable { n }) => *n == bytes.len() / 4,
        // the lazy reader has no offset-table token: the first item value is an ordinary item value
        (ExpKind::OffsetTable { bytes }, ExpKindLite::ItemValue { bytes: gb }) | (ExpKind::ItemValue { bytes }, ExpKindLite::ItemValue { bytes: gb }) => gb.as_ref().map(|g| g == bytes).unwrap_or(true),
        _ => false,
    }
}

fn where_of(e: &Exp) -> &'static str {
    let tok = match e.kind {
        ExpKind::Header { .. } => "header",
        ExpKind::Value { .. } => "value",
        ExpKind::SeqStart { .. } => "sequence-start",
        ExpKind::ItemStart { .. } => "item-start",
        ExpKind::ItemEnd => "item-end",
        ExpKind::SeqEnd => "sequence-end",
        ExpKind::PixStart => "pixel-start",
        ExpKind::OffsetTable { .. } => "offset-table",
        ExpKind::ItemValue { .. } => "item-value",
    };
    match (e.role, tok) {
        (Role::Odd, "header") => "odd-header",
        (Role::Odd, "value") => "odd-value",
        (Role::Odd, "item-start") => "odd-item-start",
        (Role::Odd, "item-value") => "odd-item-value",
        (Role::Odd, "offset-table") => "odd-offset-table",
        (Role::Sentinel, "header") => "sentinel-header",
        (Role::Sentinel, "value") => "sentinel-value",
        (Role::Sentinel, "item-start") => "sentinel-item-start",
        (Role::Sentinel, "item-value") => "sentinel-item-value",
        (_, t) => t,
    }
}

struct Verdict {
    outcome: &'static str,
    /// (kind, at, message) of the first deviation
    fail: Option<(&'static str, &'static str, String)>,
    reached_odd: bool,
}

/// Drive a token source against the expectation list.
/// `next(i, exp)` returns what the reader produced as its next token (after consuming the value).
fn drive(exp: &[Exp], strat: OddLengthStrategy, raw: bool, total: u64, pos: &Cell<u64>, count: &Cell<u64>, mut next: impl FnMut() -> Got) -> Verdict {
    let fail_mode = matches!(strat, OddLengthStrategy::Fail);
    let mut reached_odd = false;
    for e in exp {
        if e.role == Role::Odd || e.odd_len {
            reached_odd = true;
        }
        let g = next();
        if fail_mode && e.odd_len {
            return match g {
                Got::Err(_) => Verdict { outcome: "fail-strategy-reported-error", fail: None, reached_odd },
                Got::Tok(t) => Verdict { outcome: "fail-strategy-no-error", fail: Some(("no-error-under-fail", where_of(e), format!("got token {t:?}"))), reached_odd },
                Got::End => Verdict { outcome: "fail-strategy-no-error", fail: Some(("no-error-under-fail", where_of(e), "reader ended".into())), reached_odd },
            };
        }
        match g {
            Got::Err(m) => return Verdict { outcome: "unexpected-error", fail: Some(("unexpected-error", where_of(e), m)), reached_odd },
            Got::End => return Verdict { outcome: "premature-end", fail: Some(("premature-end", where_of(e), format!("expected {:?}", e.kind))), reached_odd },
            Got::Tok(t) => {
                if !matches_exp(e, &t, raw) {
                    return Verdict { outcome: "token-differs", fail: Some(("token-differs", where_of(e), format!("expected {:?} got {t:?}", e.kind))), reached_odd };
                }
            }
        }
        if pos.get() != count.get() {
            return Verdict { outcome: "position-differs-from-consumed", fail: Some(("position-vs-consumed", where_of(e), format!("position {} but {} bytes consumed (expected {})", pos.get(), count.get(), e.end))), reached_odd };
        }
        if count.get() != e.end {
            return Verdict { outcome: "consumed-differs", fail: Some(("consumed", where_of(e), format!("{} bytes consumed, expected {}", count.get(), e.end))), reached_odd };
        }
    }
    match next() {
        Got::End => {}
        Got::Err(m) => return Verdict { outcome: "unexpected-error", fail: Some(("unexpected-error", "end", m)), reached_odd },
        Got::Tok(t) => return Verdict { outcome: "token-differs", fail: Some(("token-differs", "end", format!("extra token {t:?}"))), reached_odd },
    }
    if count.get() != total {
        return Verdict { outcome: "consumed-differs", fail: Some(("consumed", "end", format!("{} of {} bytes consumed", count.get(), total))), reached_odd };
    }
    Verdict {
        outcome: match strat {
            OddLengthStrategy::NextEven => "aligned-next-even",
            _ => "aligned-accept",
        },
        fail: None,
        reached_odd,
    }
}

fn short(e: impl std::fmt::Display) -> String {
    format!("{e}").chars().take(200).collect()
}

fn run_tokens(ti: usize, strat: OddLengthStrategy, rd: Rd, source: Src, stream: &[u8], exp: &[Exp]) -> Verdict {
    let count = Rc::new(Cell::new(0u64));
    let pos = Rc::new(Cell::new(0u64));
    let src = CountRead { data: stream.to_vec(), at: 0, count: count.clone(), src: source };
    let dec = StatefulDecoder::new_with_ts(src, ts_by_uid(TS4[ti]), 0).expect("decoder for an uncompressed syntax");
    let spy = Spy { inner: dec, pos: pos.clone() };
    let total = stream.len() as u64;
    match rd {
        Rd::Eager(vs) => {
            let mut o = DataSetReaderOptions::default();
            o.odd_length = strat;
            o.value_read = vs;
            let mut reader = DataSetReader::new(spy, o);
            drive(exp, strat, vs == ValueReadStrategy::Raw, total, &pos, &count, || match reader.next() {
                None => Got::End,
                Some(Err(e)) => Got::Err(short(e)),
                Some(Ok(t)) => Got::Tok(lite_of_token(t)),
            })
        }
        Rd::LazyOwned(_) | Rd::LazySkip | Rd::LazyReadInto => {
            let mut o = LazyDataSetReaderOptions::default();
            o.odd_length = strat;
            let mut reader = LazyDataSetReader::new_with_options(spy, o);
            let raw = matches!(rd, Rd::LazyOwned(ValueReadStrategy::Raw));
            // the lazy reader yields the header, then a lazy value token that the consumer must drain
            drive(exp, strat, raw, total, &pos, &count, || {
                let tok = match reader.advance() {
                    None => return Got::End,
                    Some(Err(e)) => return Got::Err(short(e)),
                    Some(Ok(t)) => t,
                };
                match tok {
                    LazyDataToken::ElementHeader(h) => Got::Tok(ExpKindLite::Header { tag: (h.tag().0, h.tag().1), vr: vr_code(h.vr()), len: h.len.0 }),
                    LazyDataToken::SequenceStart { tag, len } => Got::Tok(ExpKindLite::SeqStart { tag: (tag.0, tag.1), len: len.get() }),
                    LazyDataToken::ItemStart { len } => Got::Tok(ExpKindLite::ItemStart { len: len.get() }),
                    LazyDataToken::ItemEnd => Got::Tok(ExpKindLite::ItemEnd),
                    LazyDataToken::SequenceEnd => Got::Tok(ExpKindLite::SeqEnd),
                    LazyDataToken::PixelSequenceStart => Got::Tok(ExpKindLite::PixStart),
                    t @ LazyDataToken::LazyValue { .. } => match rd {
                        Rd::LazyOwned(vs) => match t.into_owned_with_strategy(vs) {
                            Ok(t) => Got::Tok(lite_of_token(t)),
                            Err(e) => Got::Err(short(e)),
                        },
                        Rd::LazySkip => match t.skip() {
                            Ok(()) => Got::Tok(ExpKindLite::Value { bytes: None, is_raw_u8: false }),
                            Err(e) => Got::Err(short(e)),
                        },
                        _ => {
                            let mut buf = vec![];
                            match t.read_value_into(&mut buf) {
                                Ok(()) => Got::Tok(ExpKindLite::Value { bytes: Some(buf), is_raw_u8: true }),
                                Err(e) => Got::Err(short(e)),
                            }
                        }
                    },
                    t @ LazyDataToken::LazyItemValue { .. } => match rd {
                        Rd::LazyOwned(vs) => match t.into_owned_with_strategy(vs) {
                            Ok(t) => Got::Tok(lite_of_token(t)),
                            Err(e) => Got::Err(short(e)),
                        },
                        Rd::LazySkip => match t.skip() {
                            Ok(()) => Got::Tok(ExpKindLite::ItemValue { bytes: None }),
                            Err(e) => Got::Err(short(e)),
                        },
                        _ => {
                            let mut buf = vec![];
                            match t.read_value_into(&mut buf) {
                                Ok(()) => Got::Tok(ExpKindLite::ItemValue { bytes: Some(buf) }),
                                Err(e) => Got::Err(short(e)),
                            }
                        }
                    },
                    _ => Got::Err("unknown lazy token variant".into()),
                }
            })
        }
        Rd::File => unreachable!(),
    }
}

/// OpenFileOptions::odd_length_strategy over a reference-encoded file: positions are not
/// observable here; alignment shows in the elements that follow the odd one.
fn run_file(ti: usize, strat: OddLengthStrategy, stream: &[u8], nodes: &[N]) -> Verdict {
    let ts = Ts::ALL[ti];
    let meta = rds::std_meta(ts.uid(), "1.2.840.10008.5.1.4.1.1.7", "1.2.3.4");
    let mut file = rds::encode_file(true, &meta, ts, &[]);
    file.extend_from_slice(stream);
    let r = OpenFileOptions::new().odd_length_strategy(strat).from_reader(std::io::Cursor::new(file));
    let fail_mode = matches!(strat, OddLengthStrategy::Fail);
    let obj = match r {
        Err(e) => {
            return if fail_mode {
                Verdict { outcome: "fail-strategy-reported-error", fail: None, reached_odd: true }
            } else {
                Verdict { outcome: "unexpected-error", fail: Some(("unexpected-error", "open", short(e))), reached_odd: true }
            };
        }
        Ok(o) => o,
    };
    if fail_mode {
        return Verdict { outcome: "fail-strategy-no-error", fail: Some(("no-error-under-fail", "open", "file opened".into())), reached_odd: true };
    }
    // expected top-level tags, and the sentinel value wherever a sentinel was placed
    fn check(obj: &dicom_object::InMemDicomObject, nodes: &[N], pad: bool) -> Result<(), (&'static str, String)> {
        let want: Vec<(u16, u16)> = nodes
            .iter()
            .map(|n| match n {
                N::El { tag, .. } | N::Sq { tag, .. } => *tag,
                N::Pix { .. } => (0x7FE0, 0x0010),
            })
            .collect();
        let got: Vec<(u16, u16)> = obj.iter().map(|e| (e.tag().0, e.tag().1)).collect();
        if want != got {
            return Err(("elements", format!("expected tags {want:04X?} got {got:04X?}")));
        }
        for n in nodes {
            match n {
                N::El { tag, bytes, role, vr } => {
                    let e = obj.element(Tag(tag.0, tag.1)).unwrap();
                    let v = e.value().primitive().map(prim_le_bytes).ok_or(("value-kind", format!("{tag:04X?} is not primitive")))?;
                    let mut want = bytes.clone();
                    if pad && want.len() % 2 == 1 {
                        want.push(rds::pad_byte(*vr));
                    }
                    let byte_like = matches!(vr, b"OB" | b"UN") || rds::pad_byte(*vr) == b' ' || vr == b"UI";
                    if (*role == Role::Sentinel || (*role == Role::Odd && byte_like)) && v != want {
                        return Err((if *role == Role::Sentinel { "sentinel-value" } else { "odd-value" }, format!("{tag:04X?}: expected {} got {}", hex(&want), hex(&v))));
                    }
                }
                N::Sq { tag, items, .. } => {
                    let e = obj.element(Tag(tag.0, tag.1)).unwrap();
                    let its = e.items().ok_or(("value-kind", format!("{tag:04X?} is not a sequence")))?;
                    if its.len() != items.len() {
                        return Err(("items", format!("{} items, expected {}", its.len(), items.len())));
                    }
                    for (o, (_, content)) in its.iter().zip(items) {
                        check(o, content, pad)?;
                    }
                }
                N::Pix { frags, .. } => {
                    let e = obj.element(Tag(0x7FE0, 0x0010)).unwrap();
                    let got = e.fragments().ok_or(("value-kind", "pixel data is not encapsulated".to_string()))?;
                    if got.len() != frags.len() {
                        return Err(("fragments", format!("{} fragments, expected {}", got.len(), frags.len())));
                    }
                    for (g, (w, _)) in got.iter().zip(frags) {
                        let mut w = w.clone();
                        if pad && w.len() % 2 == 1 {
                            w.push(0);
                        }
                        if g != &w {
                            return Err(("fragment-value", format!("expected {} got {}", hex(&w), hex(g))));
                        }
                    }
                }
            }
        }
        Ok(())
    }
    match check(&obj, nodes, matches!(strat, OddLengthStrategy::NextEven)) {
        Ok(()) => Verdict { outcome: if matches!(strat, OddLengthStrategy::NextEven) { "aligned-next-even" } else { "aligned-accept" }, fail: None, reached_odd: true },
        Err((at, m)) => Verdict { outcome: "object-differs", fail: Some(("object-differs", at, m)), reached_odd: true },
    }
}

fn sample_width(vr: &str) -> usize {
    rds::swap_width(rds::vr(vr)).max(if vr == "AT" { 4 } else { 1 })
}

fn run_spec(l: &mut Local, sp: &Spec) {
    let ts = Ts::ALL[sp.ti];
    let nodes = if FRAG_PLACES.contains(&sp.place) {
        build_frag_place(sp.place, sp.l)
    } else {
        let odd = N::El { tag: std_tag(sp.vr), vr: rds::vr(sp.vr), bytes: sp.bytes.clone(), role: Role::Odd };
        build_place(sp.place, odd)
    };
    for strat in STRATS {
        let mut stream = vec![];
        let mut exp = vec![];
        emit(ts, strat, &nodes, &mut stream, &mut exp);
        let mut sources = vec![Src::Whole, Src::Chunk(1), Src::Chunk(2), Src::Chunk(3)];
        if l.check.thorough() {
            // every one-cut segmentation of the stream
            sources.extend((1..stream.len()).map(Src::Cut));
        }
        for rd in READERS {
          for &source in &sources {
            if rd == Rd::File && source != Src::Whole {
                continue; // OpenFileOptions puts its own BufReader in front of the source
            }
            let (reader, value_read) = rd_name(rd);
            let (src_id, src_class) = src_name(source);
            let case_id = format!("ts{}/{}/{}/{}/{}/{}/{}/{}/{}", sp.ti, sp.vr, sp.l, sp.ckind, sp.place, strat_name(strat), reader, value_read, src_id);
            if !l.want(&case_id) {
                continue;
            }
            l.eval();
            if rd == Rd::File {
                // The file route reads the whole data set in one call and cannot be stopped at the
                // first deviation; a misaligned reader then allocates by garbage lengths. It is
                // therefore run only on streams that the token-level DataSetReader (which it uses)
                // reads aligned; otherwise the token-level case already reports the failure.
                let gate = guard(|| run_tokens(sp.ti, strat, Rd::Eager(ValueReadStrategy::Preserved), Src::Whole, &stream, &exp));
                if !matches!(&gate, Ok(v) if v.fail.is_none()) {
                    l.outcome("file-route-not-run-token-reader-misaligned");
                    continue;
                }
            }
            let r = guard(|| if rd == Rd::File { run_file(sp.ti, strat, &stream, &nodes) } else { run_tokens(sp.ti, strat, rd, source, &stream, &exp) });
            let class = |kind: &str, at: &str| {
                json!({"ts": ts.uid(), "vr": sp.vr, "width": sample_width(sp.vr), "content": sp.ckind, "place": sp.place, "container": if sp.place.starts_with("top") { "top" } else if sp.place.starts_with("item") { "item" } else { "pixel-data" },
                       "strategy": strat_name(strat), "reader": reader, "value_read": value_read, "source": src_class, "kind": kind, "at": at})
            };
            let detail = |m: String| -> Value { json!({"length": sp.l, "stream": hex(&stream), "message": m}) };
            match r {
                Err(p) => {
                    l.nontrivial(&case_id);
                    l.outcome("panic");
                    l.fail(&case_id, class("panic", "-"), detail(p));
                }
                Ok(v) => {
                    if v.reached_odd {
                        l.nontrivial(&case_id);
                    }
                    match v.fail {
                        None => l.outcome_with(v.outcome, || json!({"case": case_id, "stream": hex(&stream)})),
                        Some((kind, at, m)) => {
                            l.outcome(v.outcome);
                            l.fail(&case_id, class(kind, at), detail(m));
                        }
                    }
                }
            }
          }
        }
    }
}

fn main() {
    let check = Check::from_args("C07", Level::Exploration);
    check.set_rule("streams with one odd-length element: 33 primitive VRs x L in {1,3,5,7,9} x content {value, all blank for DA/DT/TM/IS/DS} x place {top first/middle/last, in an undefined-length item first/last, in a defined-length item (odd item and sequence lengths) alone/middle, defined item in undefined sequence}; plus odd-length pixel data fragments (first/last) and an odd-length offset table item (explicit syntaxes); x 3 odd-length strategies x 3 transfer syntaxes x readers {DataSetReader x 3 value strategies, LazyDataSetReader x {into_owned x 3 value strategies, skip, read_value_into}, OpenFileOptions} x source behaviour {every read satisfied, at most 1 / 2 / 3 bytes per read call; thorough: additionally every one-cut segmentation of the stream (the read crossing offset p returns only the bytes up to p, for every p)} (OpenFileOptions buffers internally: whole source only); a case is one read of one stream through one source; after every token position() == bytes consumed == the reference offset; non-trivial = the reader reached the odd-length header; distinct by case id");
    check.assume("vx-ref header layout functions; the expected token list and offsets are derived from the same small stream model that is encoded");
    check.assume("under NextEven the stream carries one extra byte after every odd-length value (a writer that padded but declared the unpadded length); container lengths are the declared (odd) ones");
    check.assume("the sources conform to the Read contract (short reads allowed, Ok(0) only at end of data); quick and thorough differ only in the one-cut sources");
    let specs = specs();
    check.extra("streams", json!(specs.len() * 3));
    check.par_range(specs.len() as u64, |l, i| run_spec(l, &specs[i as usize]));
    check.finish();
}
